#!/bin/sh
# setup_cmd: build the IR exporter from source on disk (offline, ~6 s).
set -e
cd "$(dirname "$0")"
mkdir -p bin evidence .cache
clang++ $(llvm-config-14 --cxxflags) -fno-rtti -O1 sa/ir2facts.cc -o bin/ir2facts \
  /usr/lib/llvm-14/lib/libLLVM-14.so
echo "setup ok: bin/ir2facts"
