#!/bin/bash
# usage: run.sh <source tree>   exit 0 = defect absent, 1 = defect shown
HERE=$(cd "$(dirname "$0")" && pwd)
. "$HERE/../common/core.sh" "$1"
FILES="$HERE/harness.c $COMMON/stubs.c $CORE $SRC/linux/timer_linux.c $SRC/linux/eventloop_epoll.c $SRC/posix/socket.c"
gcc $CFLAGS_BASE -fsanitize=address -o "$WORK/a4" $FILES -lm || exit 2
rc=0
echo "== part 1: A calls B's method, bystander C disconnects, B replies =="
ASAN_OPTIONS=detect_leaks=0 "$WORK/a4" || rc=1
echo "== part 2: ... then A disconnects too and the routing timeout (50 ms) expires =="
ASAN_OPTIONS=detect_leaks=0 "$WORK/a4" uaf > "$WORK/uaf.out" 2>&1 || rc=1
grep -v "^    #[1-9][0-9]\|^$" "$WORK/uaf.out" | head -30
exit $rc
