/*
 * A4 routing-sweep-bystander
 *
 * Real core TUs + real timer_linux.c + real eventloop_epoll.c; only the transport (send_message) is a recorder.
 * Peers: B owns method "m"; A calls it; C is a bystander that has nothing to do with the call.
 *
 * part 1: A calls m, C disconnects, B answers              -> A must receive the relayed result.
 * part 2 (argv[1] == "uaf", built with ASan): A calls m (50 ms timeout), C disconnects, A disconnects, loop runs 300 ms
 *         -> nothing may touch the freed peer A.
 */
#include "tpeer.h"

int main(int argc, char **argv)
{
	int uaf = (argc > 1 && strcmp(argv[1], "uaf") == 0);
	char id[200], msg[400];
	tp_setup();

	struct tpeer *A = tp_new("A");
	struct tpeer *B = tp_new("B");

	tp_recv(B, "{\"id\":1,\"method\":\"add\",\"params\":{\"path\":\"m\"}}");
	size_t base = cjet_get_alloc_size();   /* A, B and B's method exist, no request in flight */
	struct tpeer *C = tp_new("C");

	if (!uaf) {
		tp_recv(A, "{\"id\":\"call-5\",\"method\":\"call\",\"params\":{\"path\":\"m\",\"args\":[1]}}");
		tp_last_id(B, id, sizeof(id));
		int a_before = A->n_sent;

		tp_disconnect(C);                                  /* the bystander goes away */

		snprintf(msg, sizeof(msg), "{\"id\":\"%s\",\"result\":42}", id);
		tp_recv(B, msg);                                   /* the owner answers in time */

		int relayed = 0;
		for (int i = a_before; i < A->n_sent; i++) {
			if (strstr(A->sent[i], "\"id\":\"call-5\"") && strstr(A->sent[i], "\"result\":42")) relayed = 1;
		}
		if (!relayed) {
			printf("FAIL: the owner's reply was not relayed to caller A after unrelated peer C disconnected\n");
			printf("      (allocated now %zu, before the call %zu: the routing request is orphaned, its timer still armed)\n",
			       cjet_get_alloc_size(), base);
			return 1;
		}
		if (cjet_get_alloc_size() != base) {
			printf("FAIL: memory accounting %zu != %zu\n", cjet_get_alloc_size(), base);
			return 1;
		}
		printf("OK: result relayed\n");
		return 0;
	}

	tp_recv(A, "{\"id\":\"call-6\",\"method\":\"call\",\"params\":{\"path\":\"m\",\"timeout\":0.05}}");
	tp_disconnect(C);
	tp_disconnect(A);      /* A's request is no longer in B's table, so it is not cleaned up; its timer is still armed */
	printf("   [event loop runs 300 ms]\n");
	tp_run_loop(300);
	if (cjet_get_alloc_size() >= base) {
		printf("FAIL: memory accounting %zu >= %zu\n", cjet_get_alloc_size(), base);
		return 1;
	}
	printf("OK: no access to the freed peer\n");
	return 0;
}
