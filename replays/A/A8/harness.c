/*
 * A8 set-send-failure-double-answer
 *
 * Real core TUs + real timer_linux.c + real eventloop_epoll.c, recording transports.
 * B owns state "s". A sends  {"id":"set-1","method":"set","params":{"path":"s","value":2,"timeout":0.05}}.
 *
 * part "send":   B's send_message fails once (e.g. its write buffer is full). A gets an error response. Then the loop runs
 *                200 ms. A JSON-RPC request must be answered exactly once.
 * part "render": the allocation inside cJSON_PrintUnformatted(routed_message) fails (cJSON allocation hook), loop runs 200 ms.
 *                Built with ASan: nothing may touch the routing request that set_or_call() freed.
 */
#include "tpeer.h"

static int alloc_countdown = -1; /* >0: that many more successful allocations, then one failure */
static int alloc_calls;
static void *hook_malloc(size_t size)
{
	alloc_calls++;
	if (alloc_countdown > 0) {
		if (--alloc_countdown == 0) {
			alloc_countdown = -1;
			return NULL;
		}
	}
	return cjet_malloc(size);
}

static int answers_for(struct tpeer *tp, const char *id)
{
	char needle[64];
	int n = 0;
	snprintf(needle, sizeof(needle), "\"id\":\"%s\"", id);
	for (int i = 0; i < tp->n_sent && i < TP_MAX; i++) {
		if (strstr(tp->sent[i], needle) != NULL) n++;
	}
	return n;
}

static const char set_msg[] = "{\"id\":\"set-1\",\"method\":\"set\",\"params\":{\"path\":\"s\",\"value\":2,\"timeout\":0.05}}";

int main(int argc, char **argv)
{
	const char *mode = argc > 1 ? argv[1] : "send";
	tp_setup();
	cJSON_Hooks hooks = {.malloc_fn = hook_malloc, .free_fn = cjet_free};
	cJSON_InitHooks(&hooks);

	struct tpeer *A = tp_new("A");
	struct tpeer *B = tp_new("B");
	tp_recv(B, "{\"id\":1,\"method\":\"add\",\"params\":{\"path\":\"s\",\"value\":1}}");
	size_t base = cjet_get_alloc_size();
	int fds = tp_count_fds();

	if (strcmp(mode, "send") == 0) {
		B->fail_sends = 1;
		tp_recv(A, set_msg);
		printf("   [event loop runs 200 ms]\n");
		tp_run_loop(200);
		int n = answers_for(A, "set-1");
		printf("answers received by A for request id \"set-1\": %d\n", n);
		if (n != 1) {
			printf("FAIL: request answered %d times (error response + late 'timeout for routed request')\n", n);
			return 1;
		}
	} else {
		/* fail the k-th cJSON allocation of the request, k = 1, 2, ...: the early ones hit parsing / building the
		 * routed message (handled before anything is registered); we are after the one in
		 * cJSON_PrintUnformatted(routed_message), recognisable by its error text. */
		int hit = 0;
		for (int k = 1; k < 200 && !hit; k++) {
			A->n_sent = 0;
			tp_quiet = 1;
			base = cjet_get_alloc_size();   /* leftovers of the other injected failures are not our topic */
			fds = tp_count_fds();
			alloc_countdown = k;
			parse_message(set_msg, strlen(set_msg), &A->peer);
			alloc_countdown = -1;
			tp_quiet = 0;
			if (A->n_sent > 0 && strstr(A->sent[0], "could not render message") != NULL) {
				printf("allocation #%d of the request (in cJSON_PrintUnformatted(routed_message)) fails:\n", k);
				printf("   [A <- cjet] %s\n", A->sent[0]);
				hit = 1;
			} else {
				/* some of the earlier failures route a (mutilated) message anyway - not our topic; let it expire */
				tp_quiet = 1;
				tp_run_loop(80);
				tp_quiet = 0;
			}
		}
		if (!hit) { printf("harness problem: render failure not reached\n"); return 2; }
		printf("   [event loop runs 200 ms]\n");
		tp_run_loop(200);
		int n = answers_for(A, "set-1");
		printf("answers received by A for request id \"set-1\": %d\n", n);
		if (n != 1) { printf("FAIL: request answered %d times\n", n); return 1; }
	}

	if (cjet_get_alloc_size() != base || tp_count_fds() != fds) {
		printf("FAIL: leftovers: allocated %zu (expected %zu), open fds %d (expected %d)\n",
		       cjet_get_alloc_size(), base, tp_count_fds(), fds);
		return 1;
	}
	printf("OK (%s)\n", mode);
	return 0;
}
