#!/bin/bash
# usage: run.sh <source tree>   exit 0 = defect absent, 1 = defect shown
HERE=$(cd "$(dirname "$0")" && pwd)
. "$HERE/../common/core.sh" "$1"
FILES="$HERE/harness.c $COMMON/stubs.c $CORE $SRC/linux/timer_linux.c $SRC/linux/eventloop_epoll.c $SRC/posix/socket.c"
gcc $CFLAGS_BASE -fsanitize=address -o "$WORK/a8" $FILES -lm || exit 2
rc=0
for mode in send render; do
	echo "== $mode =="
	ASAN_OPTIONS=detect_leaks=0 "$WORK/a8" $mode > "$WORK/out" 2>&1
	r=$?
	grep -v "^    #\([7-9]\|[1-9][0-9]\) \|^$\|dry" "$WORK/out" | sed -n '1,/^previously allocated/p' | head -40
	if [ $r -ne 0 ]; then echo "FAIL ($mode): exit $r"; rc=1; fi
done
exit $rc
