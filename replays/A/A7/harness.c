/*
 * A7 ws-close-use-after-free
 *
 * Everything real: linux_io.c (its static handle_http() is reached by #including the file), http_connection.c,
 * buffered_socket.c, websocket.c, websocket_peer.c, eventloop_epoll.c, timer_linux.c and the protocol core.
 * The "network" is a socketpair: the harness plays a websocket client on one end, handle_http() gets the other end.
 * B is an in-process peer (recording transport) that owns method "m".
 *
 *   W (websocket client): upgrade handshake, then  {"id":"w1","method":"call","params":{"path":"m"}}  (B never answers)
 *   then W's connection goes away in one of four ways (argv[1]):
 *     hup        client close()                    -> EPOLLHUP -> buffered_socket error_function -> free_websocket_peer_on_error
 *     eof        client shutdown(SHUT_WR)          -> read()==0 -> ws_get_header -> handle_error -> free_websocket_peer_callback
 *     closeframe client sends a WS close frame     -> ws_handle_frame -> close_callback
 *     shutdown   daemon shutdown destroy_all_peers -> peer_close_websocket_peer
 * Built with ASan. Any access to the freed http_connection / buffered_socket is reported.
 */
#include "linux/linux_io.c"
#include "tpeer.h"

static int ws_send_text(int fd, const char *text)
{
	uint8_t frame[600];
	size_t len = strlen(text), i = 0;
	frame[i++] = 0x81;
	if (len < 126) {
		frame[i++] = 0x80 | (uint8_t)len;
	} else {
		frame[i++] = 0x80 | 126;
		frame[i++] = (uint8_t)(len >> 8);
		frame[i++] = (uint8_t)len;
	}
	memset(&frame[i], 0, 4); /* masking key 0 */
	i += 4;
	memcpy(&frame[i], text, len);
	i += len;
	return write(fd, frame, i) == (ssize_t)i ? 0 : -1;
}

static void drain(int fd, const char *what)
{
	char buf[2048];
	ssize_t n = recv(fd, buf, sizeof(buf) - 1, MSG_DONTWAIT);
	if (n > 0) {
		buf[n] = 0;
		for (ssize_t k = 0; k < n; k++) if ((unsigned char)buf[k] < 0x20 && buf[k] != '\n') buf[k] = '.';
		printf("   [W <- cjet] (%s, %zd bytes) %.60s\n", what, n, buf);
	}
}

int main(int argc, char **argv)
{
	const char *mode = argc > 1 ? argv[1] : "hup";
	tp_setup();
	signal(SIGPIPE, SIG_IGN);

	const struct url_handler handler[] = {{
	    .request_target = WEBSOCKET_PATH,
	    .create = alloc_websocket_peer,
	    .on_header_field = websocket_upgrade_on_header_field,
	    .on_header_value = websocket_upgrade_on_header_value,
	    .on_headers_complete = websocket_upgrade_on_headers_complete,
	}};
	struct http_server server = {.ev = {.loop = &eloop.loop, .sock = -1}, .handler = handler, .num_handlers = 1};

	struct tpeer *B = tp_new("B");
	tp_recv(B, "{\"id\":1,\"method\":\"add\",\"params\":{\"path\":\"m\"}}");

	int sv[2];
	if (socketpair(AF_UNIX, SOCK_STREAM, 0, sv) < 0) return 2;
	int peers_before = get_number_of_peers();
	handle_http(&server.ev, sv[0], true);           /* what accept_http() does with a new connection */

	static const char upgrade[] =
	    "GET " WEBSOCKET_PATH " HTTP/1.1\r\nHost: localhost\r\nUpgrade: websocket\r\nConnection: Upgrade\r\n"
	    "Sec-WebSocket-Key: dGhlIHNhbXBsZSBub25jZQ==\r\nSec-WebSocket-Version: 13\r\nSec-WebSocket-Protocol: jet\r\n\r\n";
	if (write(sv[1], upgrade, sizeof(upgrade) - 1) < 0) return 2;
	tp_run_loop(50);
	drain(sv[1], "handshake");
	if (get_number_of_peers() != peers_before + 1) { printf("harness problem: websocket peer not created\n"); return 2; }

	printf("   [W -> cjet] call m\n");
	ws_send_text(sv[1], "{\"id\":\"w1\",\"method\":\"call\",\"params\":{\"path\":\"m\"}}");
	tp_run_loop(50);
	if (B->n_sent < 2 || strstr(B->sent[1], "\"method\":\"m\"") == NULL) { printf("harness problem: call not routed\n"); return 2; }

	printf("   [W goes away: %s]\n", mode);
	if (strcmp(mode, "hup") == 0) {
		close(sv[1]);
		tp_run_loop(50);
	} else if (strcmp(mode, "eof") == 0) {
		shutdown(sv[1], SHUT_WR);
		tp_run_loop(50);
	} else if (strcmp(mode, "closeframe") == 0) {
		static const uint8_t close_frame[] = {0x88, 0x82, 0, 0, 0, 0, 0x03, 0xe8};
		if (write(sv[1], close_frame, sizeof(close_frame)) < 0) return 2;
		tp_run_loop(50);
	} else if (strcmp(mode, "shutdown") == 0) {
		struct peer *wp = list_entry(get_peer_list()->prev, struct peer, next_peer); /* the newest peer = W */
		wp->close(wp);                           /* == what destroy_all_peers() does for each peer */
	} else {
		return 2;
	}
	if (strcmp(mode, "hup") != 0) drain(sv[1], "after close");

	if (get_number_of_peers() != peers_before) { printf("FAIL: websocket peer still registered\n"); return 1; }
	printf("OK (%s): websocket peer torn down without touching freed memory\n", mode);
	return 0;
}
