/* Common stubs for the replay harnesses: logging + credential backend. */
#include <stdarg.h>
#include <stdio.h>
#include <stddef.h>
#include "log.h"
#include "authenticate.h"

char last_log[4096];
int log_verbose = 0;

#define DEFLOG(fn) \
void fn(const char *format, ...) \
{ \
	va_list ap; \
	va_start(ap, format); \
	vsnprintf(last_log, sizeof(last_log), format, ap); \
	va_end(ap); \
	if (log_verbose) fprintf(stderr, "[" #fn "] %s\n", last_log); \
}
DEFLOG(log_err)
DEFLOG(log_warn)
DEFLOG(log_info)

#ifndef NO_AUTH_STUB
const cJSON *credentials_ok(const char *user, char *passwd)
{
	(void)user; (void)passwd;
	return NULL;
}

cJSON *change_password(const struct peer *p, const cJSON *request, const char *user, char *passwd)
{
	(void)p; (void)request; (void)user; (void)passwd;
	return NULL;
}
#endif
