#!/bin/bash
# usage: checkfix.sh <id> [diff]  : pristine export of the pinned snapshot 1d33eea + the diff -> unit tests (ctest) + the demo of <id>
id=$1
diff=${2:-/tmp/replays/A/$id/fix.diff}
d=/tmp/replayA-check/$id
rm -rf "$d"; mkdir -p "$d"
git -C /repo archive 1d33eea | tar -x -C "$d"
(cd "$d" && patch -p1 -s < "$diff") || { echo "$id: PATCH FAILED"; exit 2; }
cmake -S "$d" -B "$d/_t" -G Ninja > "$d/cmake.log" 2>&1 && cmake --build "$d/_t" > "$d/build.log" 2>&1 || { echo "$id: BUILD FAILED"; tail -20 "$d/build.log"; exit 2; }
ctest --test-dir "$d/_t" -j4 > "$d/ctest.log" 2>&1
echo "$id: ctest: $(grep 'tests passed' "$d/ctest.log")"
cases=0; for b in "$d"/_t/src/tests/*_test.bin; do :; done
if [ -x /tmp/replays/A/$id/run.sh ]; then
	/tmp/replays/A/$id/run.sh "$d" > "$d/demo.log" 2>&1; echo "$id: demo exit $? (0 = defect absent)"
fi
