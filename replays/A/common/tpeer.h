/* Test peers with a recording send_message and a real epoll event loop + watchdog, shared by several harnesses. */
#ifndef REPLAY_TPEER_H
#define REPLAY_TPEER_H
#include <stdio.h>
#include <stdlib.h>
#include <string.h>
#include <dirent.h>
#include <unistd.h>
#include <sys/timerfd.h>

#include "alloc.h"
#include "parse.h"
#include "peer.h"
#include "table.h"
#include "linux/eventloop_epoll.h"
#include "json/cJSON.h"

#define TP_MAX 64
struct tpeer {
	struct peer peer;
	const char *tag;
	int n_sent;
	int fail_sends;           /* if > 0: the next sends fail */
	char sent[TP_MAX][600];
};

static int tp_quiet;
static int tp_send(const struct peer *p, char *rendered, size_t len)
{
	struct tpeer *tp = (struct tpeer *)((char *)(uintptr_t)p - offsetof(struct tpeer, peer));
	if (tp->fail_sends > 0) {
		tp->fail_sends--;
		printf("   [%s <- cjet] SEND FAILS: %.*s\n", tp->tag, (int)len, rendered);
		return -1;
	}
	if (tp->n_sent < TP_MAX) {
		snprintf(tp->sent[tp->n_sent], sizeof(tp->sent[0]), "%.*s", (int)len, rendered);
	}
	tp->n_sent++;
	if (!tp_quiet) printf("   [%s <- cjet] %.*s\n", tp->tag, (int)len, rendered);
	return 0;
}

static void tp_close(struct peer *p) { (void)p; }

static struct eventloop_epoll eloop = {
	.epoll_fd = 0,
	.loop = {
		.this_ptr = &eloop,
		.init = eventloop_epoll_init,
		.destroy = eventloop_epoll_destroy,
		.run = eventloop_epoll_run,
		.add = eventloop_epoll_add,
		.remove = eventloop_epoll_remove,
	},
};

static struct tpeer *tp_new(const char *tag)
{
	struct tpeer *tp = calloc(1, sizeof(*tp));
	tp->tag = tag;
	if (init_peer(&tp->peer, true, &eloop.loop) < 0) { fprintf(stderr, "init_peer failed\n"); exit(2); }
	tp->peer.send_message = tp_send;
	tp->peer.close = tp_close;
	return tp;
}

/* what every transport does when the connection goes away */
static void tp_disconnect(struct tpeer *tp)
{
	printf("   [%s disconnects]\n", tp->tag);
	free_peer_resources(&tp->peer);
	free(tp);
}

static int tp_recv(struct tpeer *tp, const char *msg)
{
	printf("   [%s -> cjet] %s\n", tp->tag, msg);
	return parse_message(msg, strlen(msg), &tp->peer);
}

/* run the real epoll loop for ms milliseconds */
static int tp_go;
static enum eventloop_return tp_watchdog_read(struct io_event *ev)
{
	uint64_t n;
	if (read(ev->sock, &n, sizeof(n)) < 0) {}
	tp_go = 0;
	return EL_CONTINUE_LOOP;
}
static enum eventloop_return tp_watchdog_err(struct io_event *ev) { (void)ev; tp_go = 0; return EL_CONTINUE_LOOP; }

static void tp_run_loop(unsigned int ms)
{
	struct io_event wd;
	memset(&wd, 0, sizeof(wd));
	wd.sock = timerfd_create(CLOCK_MONOTONIC, TFD_NONBLOCK);
	wd.read_function = tp_watchdog_read;
	wd.error_function = tp_watchdog_err;
	wd.loop = &eloop.loop;
	struct itimerspec ts;
	memset(&ts, 0, sizeof(ts));
	ts.it_value.tv_sec = ms / 1000;
	ts.it_value.tv_nsec = (ms % 1000) * 1000000L;
	timerfd_settime(wd.sock, 0, &ts, NULL);
	eloop.loop.add(eloop.loop.this_ptr, &wd);
	tp_go = 1;
	eloop.loop.run(eloop.loop.this_ptr, &tp_go);
	eloop.loop.remove(eloop.loop.this_ptr, &wd);
	close(wd.sock);
}

static int tp_count_fds(void)
{
	int n = 0;
	DIR *d = opendir("/proc/self/fd");
	struct dirent *e;
	while ((e = readdir(d)) != NULL) {
		if (e->d_name[0] != '.') n++;
	}
	closedir(d);
	return n - 1; /* the DIR's own fd */
}

static void tp_setup(void)
{
	setvbuf(stdout, NULL, _IONBF, 0);
	init_parser();
	if (element_hashtable_create() < 0) exit(2);
	if (eloop.loop.init(eloop.loop.this_ptr) < 0) exit(2);
}

/* extracts the "id" string of the last routed message a peer got, into buf */
static const char *tp_last_id(struct tpeer *tp, char *buf, size_t n)
{
	buf[0] = 0;
	if (tp->n_sent == 0) return buf;
	cJSON *j = cJSON_Parse(tp->sent[tp->n_sent - 1]);
	if (j != NULL) {
		cJSON *id = cJSON_GetObjectItem(j, "id");
		if (id != NULL && id->type == cJSON_String) snprintf(buf, n, "%s", id->valuestring);
		cJSON_Delete(j);
	}
	return buf;
}
#endif
