# sourced by the run.sh scripts: sets SRC (source tree/src), COMMON, CORE (the protocol core TUs), CFLAGS_BASE
# usage: . ../common/core.sh <tree>
TREE=${1:?usage: run.sh <source tree>}
SRC=$TREE/src
COMMON=$(cd "$(dirname "${BASH_SOURCE[0]}")" && pwd)
CORE="$SRC/alloc.c $SRC/authenticate.c $SRC/config.c $SRC/element.c $SRC/fetch.c $SRC/groups.c $SRC/info.c
 $SRC/jet_string.c $SRC/json/cJSON.c $SRC/linux/jet_string.c $SRC/parse.c $SRC/peer.c $SRC/posix/jet_string.c
 $SRC/response.c $SRC/router.c $SRC/table.c $SRC/timer.c $SRC/utf8_checker.c"
CFLAGS_BASE="-std=gnu99 -D_GNU_SOURCE -g -O0 -w -I$SRC -I$COMMON"
WORK=$(mktemp -d /tmp/replayA.XXXXXX)
trap 'rm -rf "$WORK"' EXIT
