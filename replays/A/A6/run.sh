#!/bin/bash
# usage: run.sh <source tree>   exit 0 = defect absent, 1 = defect shown
HERE=$(cd "$(dirname "$0")" && pwd)
. "$HERE/../common/core.sh" "$1"
gcc $CFLAGS_BASE -Wl,--wrap=epoll_ctl -o "$WORK/a6" "$HERE/harness.c" "$COMMON/stubs.c" -DNO_AUTH_STUB \
    "$SRC/linux/timer_linux.c" "$SRC/linux/eventloop_epoll.c" "$SRC/posix/socket.c" || exit 2
"$WORK/a6"
