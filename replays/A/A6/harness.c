/*
 * A6 timer-destroy-wrong-this
 *
 * Real timer_linux.c + real eventloop_epoll.c, event loop object set up exactly like posix/main.c does.
 * A timer is started, the loop runs, the timer fires and its handler destroys the timer (this is what
 * router.c request_timeout_handler() does). epoll_ctl is wrapped (ld --wrap) to see what the loop's remove() really did.
 */
#include <errno.h>
#include <stdio.h>
#include <string.h>
#include <sys/epoll.h>
#include <unistd.h>

#include "linux/eventloop_epoll.h"
#include "timer.h"

int __real_epoll_ctl(int epfd, int op, int fd, struct epoll_event *event);
static int del_calls, del_epfd, del_fd, del_ret, del_errno;
int __wrap_epoll_ctl(int epfd, int op, int fd, struct epoll_event *event)
{
	int ret = __real_epoll_ctl(epfd, op, fd, event);
	if (op == EPOLL_CTL_DEL) {
		del_calls++;
		del_epfd = epfd;
		del_fd = fd;
		del_ret = ret;
		del_errno = errno;
	}
	return ret;
}

static struct eventloop_epoll *the_loop;
static struct cjet_timer timer;
static int go = 1;
static const struct io_event *current_after_destroy;

static void handler(void *context, bool cancelled)
{
	(void)context;
	if (cancelled) return;
	cjet_timer_destroy(&timer);
	current_after_destroy = the_loop->current_ev;
	go = 0;
}

int main(void)
{
	struct eventloop_epoll eloop = {
	    .epoll_fd = 0,
	    .loop = {
	        .this_ptr = &eloop,
	        .init = eventloop_epoll_init,
	        .destroy = eventloop_epoll_destroy,
	        .run = eventloop_epoll_run,
	        .add = eventloop_epoll_add,
	        .remove = eventloop_epoll_remove,
	    },
	};
	the_loop = &eloop;
	int fail = 0;

	if (eloop.loop.init(eloop.loop.this_ptr) < 0) return 2;
	if (cjet_timer_init(&timer, &eloop.loop) < 0) return 2;
	int timer_fd = timer.ev.sock;
	void *init_before = (void *)eloop.loop.init;
	timer.start(&timer, 10 * 1000 * 1000, handler, NULL);
	eloop.loop.run(eloop.loop.this_ptr, &go);

	printf("event loop object (struct eventloop_epoll) at %p, epoll fd %d; &eloop.loop = %p; timer fd %d\n",
	       (void *)&eloop, eloop.epoll_fd, (void *)&eloop.loop, timer_fd);
	printf("cjet_timer_destroy(): %d x epoll_ctl(epfd = %d (0x%x), EPOLL_CTL_DEL, fd = %d) = %d%s%s\n", del_calls, del_epfd,
	       (unsigned)del_epfd, del_fd, del_ret, del_ret < 0 ? ", errno = " : "", del_ret < 0 ? strerror(del_errno) : "");
	if (del_calls != 1 || del_epfd != eloop.epoll_fd || del_ret != 0) {
		printf("FAIL: the timer fd was not removed from the loop's epoll instance (wrong epoll fd: low 32 bits of "
		       "loop.this_ptr = 0x%x)\n", (unsigned)(uintptr_t)eloop.loop.this_ptr);
		fail = 1;
	}
	printf("loop->current_ev after destroy inside the event's own callback: %p (timer's io_event: %p)\n",
	       (const void *)current_after_destroy, (void *)&timer.ev);
	if (current_after_destroy != NULL) {
		printf("FAIL: current_ev still points to the destroyed event (remove() is supposed to reset it so that "
		       "handle_events() does not touch the event any more)\n");
		fail = 1;
	}
	if ((void *)eloop.loop.init != init_before) {
		printf("FAIL: loop.init function pointer was overwritten\n");
		fail = 1;
	}
	if (!fail) printf("OK\n");
	return fail;
}
