/*
 * A5 routing-timer-not-destroyed
 *
 * Real core TUs + real timer_linux.c + real eventloop_epoll.c. Counts the process' open file descriptors
 * (/proc/self/fd): every routed request owns a timerfd; once the request is gone the fd must be gone too.
 */
#include <errno.h>
#include "tpeer.h"
#include "timer.h"

/* ld --wrap=timerfd_settime: lets a timer start fail on demand */
int __real_timerfd_settime(int fd, int flags, const struct itimerspec *n, struct itimerspec *o);
static int fail_settime;
int __wrap_timerfd_settime(int fd, int flags, const struct itimerspec *n, struct itimerspec *o)
{
	if (fail_settime > 0) {
		fail_settime--;
		errno = EINVAL;
		return -1;
	}
	return __real_timerfd_settime(fd, flags, n, o);
}

static int fail;
static void check(const char *what, int have, int want)
{
	printf("%-78s open fds: %d, expected %d %s\n", what, have, want, have == want ? "" : "  <-- LEAK");
	if (have != want) fail = 1;
}

int main(void)
{
	char msg[300];
	tp_setup();

	struct tpeer *B = tp_new("B");
	tp_recv(B, "{\"id\":1,\"method\":\"add\",\"params\":{\"path\":\"m\"}}");
	int base = tp_count_fds();
	printf("baseline: %d open fds\n", base);

	/* a1: requester disconnects with a request in flight (peer.c remove_peer_from_routes -> clear_routing_entry) */
	struct tpeer *A = tp_new("A");
	tp_recv(A, "{\"id\":2,\"method\":\"call\",\"params\":{\"path\":\"m\"}}");
	check("a1 request in flight", tp_count_fds(), base + 1);
	tp_disconnect(A);
	check("a1 requester disconnected (remove_peer_from_routing_table -> clear_routing_entry)", tp_count_fds(), base);
	base = tp_count_fds();

	/* a2: owner disconnects with a request in flight (remove_routing_info_from_peer -> clear_routing_entry) */
	A = tp_new("A");
	tp_recv(A, "{\"id\":3,\"method\":\"call\",\"params\":{\"path\":\"m\"}}");
	tp_disconnect(B);
	check("a2 owner disconnected (remove_routing_info_from_peer -> clear_routing_entry)", tp_count_fds(), base);
	base = tp_count_fds();

	/* b1: routing table full */
	B = tp_new("B");
	tp_recv(B, "{\"id\":1,\"method\":\"add\",\"params\":{\"path\":\"m\"}}");
	int ok = 0, full = 0;
	for (int i = 0; i < 100; i++) {
		int before = A->n_sent;
		snprintf(msg, sizeof(msg), "{\"id\":%d,\"method\":\"call\",\"params\":{\"path\":\"m\"}}", 100 + i);
		parse_message(msg, strlen(msg), &A->peer);
		if (A->n_sent > before && strstr(A->sent[(A->n_sent - 1) % TP_MAX], "routing table full")) full++; else ok++;
	}
	snprintf(msg, sizeof(msg), "b1 100 calls, %d routed, %d refused with 'routing table full'", ok, full);
	if (full == 0) { printf("harness problem: table never full\n"); return 2; }
	check(msg, tp_count_fds(), base + ok);
	tp_disconnect(B);           /* completes the routed ones */
	base = tp_count_fds();      /* whatever leaked before stays leaked, count afresh */

	/* b2: timer start fails */
	B = tp_new("B");
	tp_recv(B, "{\"id\":1,\"method\":\"add\",\"params\":{\"path\":\"m\"}}");
	fail_settime = 1;
	tp_recv(A, "{\"id\":4,\"method\":\"call\",\"params\":{\"path\":\"m\"}}");
	check("b2 timer.start() failed in setup_routing_information", tp_count_fds(), base);
	base = tp_count_fds();

	/* c: cjet_timer_init() when the event loop refuses the fd (real eventloop_epoll_add on a dead epoll fd) */
	struct eventloop_epoll dead = eloop;
	dead.epoll_fd = -1;
	dead.loop.this_ptr = &dead;
	struct cjet_timer t;
	int ret = cjet_timer_init(&t, &dead.loop);
	snprintf(msg, sizeof(msg), "c  cjet_timer_init() returned %d because loop->add failed", ret);
	if (ret == 0) { printf("harness problem: add did not fail\n"); return 2; }
	check(msg, tp_count_fds(), base);

	printf(fail ? "FAIL: timerfds leak\n" : "OK: no timerfd leaks\n");
	return fail;
}
