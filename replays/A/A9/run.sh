#!/bin/bash
# usage: run.sh <source tree>   exit 0 = defect absent, 1 = defect shown
HERE=$(cd "$(dirname "$0")" && pwd)
. "$HERE/../common/core.sh" "$1"
FILES="$HERE/harness.c $COMMON/stubs.c $CORE $SRC/linux/timer_linux.c $SRC/linux/eventloop_epoll.c $SRC/posix/socket.c"
gcc $CFLAGS_BASE -Wl,--wrap=calloc -o "$WORK/a9" $FILES -lm || exit 2
"$WORK/a9" | grep -v "warm"
exit ${PIPESTATUS[0]}
