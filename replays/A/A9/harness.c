/*
 * A9 response-overwrite-leak
 *
 * Real core TUs, recording transport. Uses cjet's own allocation accounting (alloc.c cjet_get_alloc_size()):
 * a request that is refused must leave the allocated size unchanged.
 *
 * 1. add with "access":{"fetchGroups":5}                      (fill_access() error response overwritten in init_element())
 * 2. fetch while the fetch object cannot be allocated          (alloc_fetch() error response overwritten in create_fetch())
 *    libc calloc is wrapped (ld --wrap) to fail once; cjet_calloc() is only used for the fetch object on this path.
 */
#include "tpeer.h"

void *__real_calloc(size_t n, size_t s);
static int fail_calloc;
void *__wrap_calloc(size_t n, size_t s)
{
	if (fail_calloc > 0) {
		fail_calloc--;
		return NULL;
	}
	return __real_calloc(n, s);
}

static int fail;

static void run(struct tpeer *p, const char *what, const char *msg, int inject_calloc)
{
	size_t before = cjet_get_alloc_size();
	int n = p->n_sent;
	printf("%s\n", what);
	fail_calloc = inject_calloc;
	tp_recv(p, msg);
	fail_calloc = 0;
	size_t after = cjet_get_alloc_size();
	if (p->n_sent != n + 1 || strstr(p->sent[n], "\"error\"") == NULL) {
		printf("harness problem: expected exactly one error response\n");
		exit(2);
	}
	printf("   allocated before %zu, after %zu: %s\n", before, after, before == after ? "ok" : "LEAK");
	if (before != after) {
		printf("FAIL: %zu bytes leaked by a refused request\n", after - before);
		fail = 1;
	}
}

int main(void)
{
	tp_setup();
	struct tpeer *A = tp_new("A");

	/* warm up so that one-time allocations do not disturb the accounting */
	tp_recv(A, "{\"id\":0,\"method\":\"add\",\"params\":{\"path\":\"warmup\",\"value\":1}}");
	tp_recv(A, "{\"id\":0,\"method\":\"fetch\",\"params\":{\"id\":\"warm\",\"path\":{\"equals\":\"nothing\"}}}");

	run(A, "1. add with access.fetchGroups = 5 (not an array)",
	    "{\"id\":1,\"method\":\"add\",\"params\":{\"path\":\"x\",\"value\":1,\"access\":{\"fetchGroups\":5}}}", 0);
	run(A, "1b. add (method) with access.callGroups = \"admin\" (not an array)",
	    "{\"id\":2,\"method\":\"add\",\"params\":{\"path\":\"y\",\"access\":{\"callGroups\":\"admin\"}}}", 0);
	run(A, "2. fetch, allocation of the fetch object fails",
	    "{\"id\":3,\"method\":\"fetch\",\"params\":{\"id\":\"f1\",\"path\":{\"equals\":\"x\"}}}", 1);
	run(A, "2b. get, allocation of the fetch object fails",
	    "{\"id\":4,\"method\":\"get\",\"params\":{\"path\":{\"equals\":\"x\"}}}", 1);

	/* repeat 1000 times to show it is per request */
	size_t before = cjet_get_alloc_size();
	tp_quiet = 1;
	for (int i = 0; i < 1000; i++) {
		static const char msg[] = "{\"id\":1,\"method\":\"add\",\"params\":{\"path\":\"x\",\"value\":1,\"access\":{\"fetchGroups\":5}}}";
		A->n_sent = 0;
		parse_message(msg, strlen(msg), &A->peer);
	}
	tp_quiet = 0;
	printf("3. 1000 x request 1: allocated size grew by %zu bytes\n", cjet_get_alloc_size() - before);
	if (cjet_get_alloc_size() != before) fail = 1;

	printf(fail ? "FAIL\n" : "OK: refused requests leave no allocation behind\n");
	return fail;
}
