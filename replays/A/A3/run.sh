#!/bin/bash
# usage: run.sh <source tree>   exit 0 = defect absent, 1 = defect shown
HERE=$(cd "$(dirname "$0")" && pwd)
. "$HERE/../common/core.sh" "$1"
FILES="$HERE/harness.c $COMMON/stubs.c $CORE $SRC/linux/timer_linux.c $SRC/posix/socket.c"
rc=0

echo "== 1. arguments log_peer_err() hands to vsnprintf (vsnprintf/snprintf wrapped, wild write suppressed) =="
gcc $CFLAGS_BASE -fno-builtin -DWRAP -Wl,--wrap=vsnprintf -Wl,--wrap=snprintf -o "$WORK/a3w" $FILES -lm || exit 2
for len in 50 97 98 300; do
	"$WORK/a3w" $len || rc=1
done

echo "== 2. the real write, AddressSanitizer build, 300 byte peer name =="
gcc $CFLAGS_BASE -fsanitize=address -o "$WORK/a3a" $FILES -lm || exit 2
ASAN_OPTIONS=detect_leaks=0 "$WORK/a3a" 300 > "$WORK/asan.out" 2>&1
arc=$?
head -12 "$WORK/asan.out"
if [ $arc -ne 0 ]; then echo "FAIL: ASan build died (exit $arc)"; rc=1; fi

echo "== 3. the real write, plain -O2 build with stack protector, 300 byte peer name =="
gcc $CFLAGS_BASE -O2 -fstack-protector-all -o "$WORK/a3p" $FILES -lm || exit 2
"$WORK/a3p" 300 > "$WORK/plain.out" 2>&1
prc=$?
head -6 "$WORK/plain.out"
if [ $prc -ne 0 ]; then echo "FAIL: plain build died (exit $prc)"; rc=1; fi
exit $rc
