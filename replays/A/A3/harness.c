/*
 * A3 log-peer-overflow
 *
 * Real peer.c/config.c/parse.c. A client names itself with the "config" request (name length only bounded by the
 * message size) and then sends something that makes cjet log about this peer (here: a message that is not JSON ->
 * parse_message() -> log_peer_err(p, "Could not parse JSON!\n")).
 *
 * Mode "args" (default): vsnprintf is wrapped (ld --wrap) to look at the destination/size that log_peer_err() computed:
 *   the destination must lie inside a 100 byte buffer and dest+size must not exceed it. To know the buffer, snprintf is
 *   wrapped as well (the first call in log_peer_err is snprintf(buffer, 100, "%s: ", name)).
 * Mode "asan": no wrapping, the real write happens, built with -fsanitize=address.
 */
#include <stdarg.h>
#include <stdint.h>
#include <stdio.h>
#include <stdlib.h>
#include <string.h>

#include "parse.h"
#include "peer.h"
#include "table.h"

static int fake_send(const struct peer *p, char *rendered, size_t len)
{
	(void)p; (void)rendered; (void)len;
	return 0;
}

#ifdef WRAP
int __real_vsnprintf(char *str, size_t size, const char *format, va_list ap);
int __real_snprintf(char *str, size_t size, const char *format, ...);

static char *log_buffer;        /* buffer[] of the current log_peer_xxx() invocation */
static size_t log_buffer_size;
static int armed;
static int violations;

int __wrap_snprintf(char *str, size_t size, const char *format, ...)
{
	va_list ap;
	va_start(ap, format);
	if (armed && strcmp(format, "%s: ") == 0) {
		log_buffer = str;
		log_buffer_size = size;
	}
	int ret = __real_vsnprintf(str, size, format, ap);
	va_end(ap);
	return ret;
}

int __wrap_vsnprintf(char *str, size_t size, const char *format, va_list ap)
{
	if (armed && log_buffer != NULL) {
		ptrdiff_t off = str - log_buffer;
		printf("  log_peer_xxx: buffer[%zu] at %p; vsnprintf(dest = buffer%+td, size = %zu (0x%zx), \"%s\")\n",
		       log_buffer_size, (void *)log_buffer, off, size, size, format);
		if (off < 0 || (size_t)off > log_buffer_size || size > log_buffer_size - (size_t)off) {
			printf("  FAIL: destination/size outside of the %zu byte log buffer -> stack overwrite\n", log_buffer_size);
			violations++;
			log_buffer = NULL;
			return 0; /* do not perform the wild write */
		}
		log_buffer = NULL;
	}
	return __real_vsnprintf(str, size, format, ap);
}
#endif

int main(int argc, char **argv)
{
	unsigned int name_len = (argc > 1) ? (unsigned int)atoi(argv[1]) : 300;
	init_parser();
	element_hashtable_create();

	struct peer p;
	init_peer(&p, false, NULL);
	p.send_message = fake_send;

	char *msg = malloc(name_len + 128);
	char *name = malloc(name_len + 1);
	memset(name, 'A', name_len);
	name[name_len] = 0;
	sprintf(msg, "{\"id\":1,\"method\":\"config\",\"params\":{\"name\":\"%s\"}}", name);
	int ret = parse_message(msg, strlen(msg), &p);
	printf("config with a %u byte peer name -> %d, peer name length now %zu\n", name_len, ret, strlen(get_peer_name(&p)));

#ifdef WRAP
	armed = 1;
#endif
	static const char garbage[] = "this is not JSON";
	ret = parse_message(garbage, strlen(garbage), &p);
	printf("non-JSON message -> %d (logged via log_peer_err)\n", ret);
#ifdef WRAP
	armed = 0;
	if (violations) return 1;
#endif
	extern char last_log[];
	printf("logged: \"%.60s%s\" (%zu bytes)\n", last_log, strlen(last_log) > 60 ? "..." : "", strlen(last_log));
	if (strlen(last_log) >= 100) { printf("FAIL: more than the log buffer was produced\n"); return 1; }
	printf("OK\n");
	return 0;
}
