#!/bin/bash
# usage: run.sh <source tree>   exit 0 = defect absent, 1 = defect shown
HERE=$(cd "$(dirname "$0")" && pwd)
. "$HERE/../common/core.sh" "$1"
REST="$SRC/base64.c $SRC/buffered_socket.c $SRC/compression.c $SRC/http-parser/http_parser.c $SRC/http_connection.c
 $SRC/http_server.c $SRC/sha1/sha1.c $SRC/socket_peer.c $SRC/websocket.c $SRC/websocket_peer.c
 $SRC/linux/jet_endian.c $SRC/linux/random.c $SRC/linux/timer_linux.c $SRC/posix/socket.c
 $SRC/zlib/adler32.c $SRC/zlib/deflate.c $SRC/zlib/inffast.c $SRC/zlib/inflate.c $SRC/zlib/inftrees.c $SRC/zlib/trees.c $SRC/zlib/zutil.c"
gcc $CFLAGS_BASE -DNO_GZIP -o "$WORK/a2" "$HERE/harness.c" "$COMMON/stubs.c" $CORE $REST -lm || exit 2
"$WORK/a2"
