/*
 * A2 is-localhost-af-unix
 *
 * #includes the real src/linux/linux_io.c to reach the static accept_common()/is_localhost() and lets the real
 * accept_common() accept one connection on an AF_UNIX listening socket (abstract name private to this test, created
 * the same way create_server_unix_domain_socket() does) and - as control - one on a 127.0.0.1 TCP socket (ephemeral port).
 * The peer_function records the is_local_connection flag that the daemon would hand to init_socket_peer().
 */
#include "linux/linux_io.c"

#include <sys/wait.h>

static int seen_local = -1;

static void record(struct io_event *ev, int fd, bool is_local_connection)
{
	(void)ev;
	seen_local = is_local_connection ? 1 : 0;
	close(fd);
}

static int classify(int listen_fd, int client_fd)
{
	(void)client_fd;
	struct io_event ev;
	memset(&ev, 0, sizeof(ev));
	ev.sock = listen_fd;
	seen_local = -1;
	accept_common(&ev, record); /* returns on EAGAIN because listen_fd is non blocking */
	return seen_local;
}

int main(void)
{
	int fail = 0;
	char name[64];
	snprintf(name, sizeof(name), "/replayA/a2.%d", (int)getpid());

	/* --- unix domain socket, same construction as the daemon's UDS listener --- */
	int l = create_server_unix_domain_socket(name);
	if (l < 0) { fprintf(stderr, "cannot create AF_UNIX listener\n"); return 2; }
	struct sockaddr_un sa;
	memset(&sa, 0, sizeof(sa));
	sa.sun_family = AF_UNIX;
	strncpy(&sa.sun_path[1], name, sizeof(sa.sun_path) - 2);
	int c = socket(AF_UNIX, SOCK_STREAM, 0);
	if (connect(c, (struct sockaddr *)&sa, 1 + strlen(name) + sizeof(sa.sun_family)) < 0) { perror("connect unix"); return 2; }
	int r = classify(l, c);
	printf("connection accepted on AF_UNIX listener : is_local_connection = %d\n", r);
	if (r != 1) {
		printf("FAIL: a unix-domain-socket peer is classified as NOT local "
		       "(with CONFIG_ALLOW_ADD_ONLY_FROM_LOCALHOST its \"add\" is refused)\n");
		fail = 1;
	}
	close(c); close(l);

	/* --- a bound (named) unix client: sun_path bytes overlay sin6_addr, must still be local --- */
	l = create_server_unix_domain_socket(name);
	c = socket(AF_UNIX, SOCK_STREAM, 0);
	struct sockaddr_un ca;
	memset(&ca, 0, sizeof(ca));
	ca.sun_family = AF_UNIX;
	snprintf(&ca.sun_path[1], sizeof(ca.sun_path) - 1, "/replayA/a2-client.%d", (int)getpid());
	bind(c, (struct sockaddr *)&ca, sizeof(ca.sun_family) + 1 + strlen(&ca.sun_path[1]));
	if (connect(c, (struct sockaddr *)&sa, 1 + strlen(name) + sizeof(sa.sun_family)) < 0) { perror("connect unix"); return 2; }
	r = classify(l, c);
	printf("named AF_UNIX client                    : is_local_connection = %d\n", r);
	if (r != 1) fail = 1;
	close(c); close(l);

	/* --- control: TCP 127.0.0.1 --- */
	l = socket(AF_INET, SOCK_STREAM, 0);
	struct sockaddr_in in;
	memset(&in, 0, sizeof(in));
	in.sin_family = AF_INET;
	in.sin_addr.s_addr = htonl(INADDR_LOOPBACK);
	in.sin_port = 0;
	if (bind(l, (struct sockaddr *)&in, sizeof(in)) < 0 || listen(l, 1) < 0) { perror("tcp"); return 2; }
	set_fd_non_blocking(l);
	socklen_t len = sizeof(in);
	getsockname(l, (struct sockaddr *)&in, &len);
	c = socket(AF_INET, SOCK_STREAM, 0);
	if (connect(c, (struct sockaddr *)&in, sizeof(in)) < 0) { perror("connect tcp"); return 2; }
	r = classify(l, c);
	printf("connection accepted on 127.0.0.1 (control): is_local_connection = %d\n", r);
	if (r != 1) { printf("FAIL: control failed\n"); fail = 1; }
	close(c); close(l);

	/* --- control: a non-loopback IPv4 / IPv6 address must stay non local --- */
	struct sockaddr_storage ss;
	memset(&ss, 0, sizeof(ss));
	((struct sockaddr_in *)&ss)->sin_family = AF_INET;
	((struct sockaddr_in *)&ss)->sin_addr.s_addr = htonl(0xc0a80001);
	if (is_localhost(&ss)) { printf("FAIL: 192.168.0.1 classified local\n"); fail = 1; }
	memset(&ss, 0, sizeof(ss));
	((struct sockaddr_in6 *)&ss)->sin6_family = AF_INET6;
	((struct sockaddr_in6 *)&ss)->sin6_addr.s6_addr[0] = 0x20;
	if (is_localhost(&ss)) { printf("FAIL: 2000:: classified local\n"); fail = 1; }
	memset(&ss, 0, sizeof(ss));
	((struct sockaddr_in6 *)&ss)->sin6_family = AF_INET6;
	((struct sockaddr_in6 *)&ss)->sin6_addr.s6_addr[15] = 1;
	if (!is_localhost(&ss)) { printf("FAIL: ::1 classified non local\n"); fail = 1; }

	if (!fail) printf("OK\n");
	return fail;
}
