#!/bin/bash
# usage: run.sh <source tree>   exit 0 = defect absent, 1 = defect shown
HERE=$(cd "$(dirname "$0")" && pwd)
. "$HERE/../common/core.sh" "$1"
gcc $CFLAGS_BASE -o "$WORK/a1" "$HERE/harness.c" "$COMMON/stubs.c" $CORE "$SRC/socket_peer.c" "$SRC/linux/jet_endian.c" \
    "$SRC/linux/timer_linux.c" "$SRC/posix/socket.c" -lm || exit 2
"$WORK/a1"
