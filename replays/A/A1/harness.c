/*
 * A1 peer-groups-uninit
 *
 * Links the real socket_peer.c / peer.c / groups.c / element.c / parse.c ... and walks the very same path the daemon
 * takes for a new raw/unix socket connection (linux_io.c handle_new_jet_connection):
 *     peer = alloc_jet_peer();  init_socket_peer(peer, &br, is_local);
 * with a credential database loaded (groups.c: all_groups != NULL), on a heap that is not fresh (M_PERTURB, which is
 * exactly what MALLOC_PERTURB_ does; a long running daemon re-uses freed chunks all the time).
 *
 * Expected: a peer that never sent "authenticate" is member of no group: its fetch/set/call_groups are 0 and a "set"
 * on a state that is restricted to setGroups ["admin"] is refused ("request not authorized").
 */
#include <malloc.h>
#include <stdio.h>
#include <stdlib.h>
#include <string.h>
#include <arpa/inet.h>

#include "alloc.h"
#include "buffered_reader.h"
#include "groups.h"
#include "parse.h"
#include "peer.h"
#include "socket_peer.h"
#include "table.h"
#include "json/cJSON.h"

static char sent[8][1024];
static int n_sent;

static int fake_read_exactly(void *this_ptr, size_t num, read_handler handler, void *ctx)
{
	(void)this_ptr; (void)num; (void)handler; (void)ctx;
	return 0;
}

static int fake_writev(void *this_ptr, struct socket_io_vector *iov, unsigned int count)
{
	(void)this_ptr;
	char *dst = sent[n_sent++ % 8];
	size_t off = 0;
	for (unsigned int i = 1; i < count; i++) { /* iov[0] is the 4 byte length prefix */
		memcpy(dst + off, iov[i].iov_base, iov[i].iov_len);
		off += iov[i].iov_len;
	}
	dst[off] = 0;
	return 0;
}

static int fake_close(void *this_ptr) { (void)this_ptr; return 0; }

static enum eventloop_return fake_add(const void *this_ptr, const struct io_event *ev)
{
	(void)this_ptr; (void)ev;
	return EL_CONTINUE_LOOP;
}
static void fake_remove(void *this_ptr, const struct io_event *ev) { (void)this_ptr; (void)ev; }
static struct eventloop loop = {.add = fake_add, .remove = fake_remove};
static struct buffered_socket bs;

static struct socket_peer *new_socket_peer(void)
{
	struct socket_peer *sp = alloc_jet_peer();
	if (sp == NULL) { fprintf(stderr, "alloc_jet_peer failed\n"); exit(2); }
	struct buffered_reader br;
	memset(&br, 0, sizeof(br));
	bs.ev.loop = &loop;
	br.this_ptr = &bs;
	br.read_exactly = fake_read_exactly;
	br.writev = fake_writev;
	br.close = fake_close;
	init_socket_peer(sp, &br, true);
	return sp;
}

int main(void)
{
	int fail = 0;
	init_parser();
	element_hashtable_create();

	/* what posix/auth_file.c load_passwd_data() does with a password file that knows group "admin" */
	create_groups();
	cJSON *g = cJSON_Parse("[\"admin\"]");
	add_groups(g);

	/* from now on malloc()ed memory is not zero, like on any heap that has been in use for a while */
	mallopt(M_PERTURB, 0x5a);

	struct socket_peer *owner = new_socket_peer();
	struct socket_peer *intruder = new_socket_peer();

	printf("fresh unauthenticated socket peer: fetch_groups=0x%x set_groups=0x%x call_groups=0x%x\n",
	       intruder->peer.fetch_groups, intruder->peer.set_groups, intruder->peer.call_groups);
	if (intruder->peer.fetch_groups != 0 || intruder->peer.set_groups != 0 || intruder->peer.call_groups != 0) {
		printf("FAIL: unauthenticated peer carries indeterminate group membership\n");
		fail = 1;
	}

	static const char add[] = "{\"id\":1,\"method\":\"add\",\"params\":{\"path\":\"secret\",\"value\":1,"
	                          "\"access\":{\"fetchGroups\":[\"admin\"],\"setGroups\":[\"admin\"]}}}";
	parse_message(add, strlen(add), &owner->peer);
	printf("owner add     -> %s\n", sent[(n_sent - 1) % 8]);

	n_sent = 0;
	static const char set[] = "{\"id\":7,\"method\":\"set\",\"params\":{\"path\":\"secret\",\"value\":666}}";
	parse_message(set, strlen(set), &intruder->peer);
	int routed = 0;
	for (int i = 0; i < n_sent; i++) {
		printf("after set  [%d] -> %s\n", i, sent[i]);
		if (strstr(sent[i], "\"method\":\"secret\"") != NULL) routed = 1;
	}
	if (routed) {
		printf("FAIL: \"set\" of an unauthenticated peer on a setGroups-protected state was routed to the owner\n");
		fail = 1;
	} else if (n_sent != 1 || strstr(sent[0], "request not authorized") == NULL) {
		printf("FAIL: expected exactly one 'request not authorized' error\n");
		fail = 1;
	}

	cJSON_Delete(g);
	if (!fail) printf("OK: unauthenticated peer has no groups and is refused\n");
	return fail;
}
