/*
 * A10 numeric-id-lossy
 *
 * Real core TUs, recording transport. JSON-RPC: the response id must be the request id. JSON numbers are not
 * restricted to C ints.
 *  part 1: direct responses (success + error) for ids 1, 1.5, -0.25, 2147483648, 3000000000, 1e+20
 *  part 2: relayed response of a routed call with id 1.5
 *  part 3: fetch ids 1.5 and 1.25 are different fetches (fetch.c ids_equal)
 */
#include <math.h>
#include "tpeer.h"

static int fail;

static double last_id(struct tpeer *tp, int *is_number)
{
	double v = NAN;
	*is_number = 0;
	cJSON *j = cJSON_Parse(tp->sent[tp->n_sent - 1]);
	if (j != NULL) {
		cJSON *id = cJSON_GetObjectItem(j, "id");
		if (id != NULL && id->type == cJSON_Number) {
			v = id->valuedouble;
			*is_number = 1;
		}
		cJSON_Delete(j);
	}
	return v;
}

static void check_id(struct tpeer *tp, const char *what, const char *id_text)
{
	int is_number;
	double want = strtod(id_text, NULL);
	double got = last_id(tp, &is_number);
	if (!is_number || got != want) {
		printf("FAIL: %s: request id %s, response id %.17g\n", what, id_text, got);
		fail = 1;
	}
}

int main(void)
{
	static const char *ids[] = {"1", "1.5", "-0.25", "2147483648", "3000000000", "1e+20"};
	char msg[300];
	tp_setup();
	struct tpeer *A = tp_new("A");
	struct tpeer *B = tp_new("B");
	tp_recv(B, "{\"id\":\"b\",\"method\":\"add\",\"params\":{\"path\":\"m\"}}");

	printf("-- part 1: direct responses\n");
	for (unsigned int i = 0; i < sizeof(ids) / sizeof(ids[0]); i++) {
		snprintf(msg, sizeof(msg), "{\"id\":%s,\"method\":\"config\",\"params\":{}}", ids[i]);
		A->n_sent = 0;
		tp_recv(A, msg);
		check_id(A, "success response", ids[i]);
		snprintf(msg, sizeof(msg), "{\"id\":%s,\"method\":\"nosuchmethod\",\"params\":{}}", ids[i]);
		A->n_sent = 0;
		tp_recv(A, msg);
		check_id(A, "error response", ids[i]);
	}

	printf("-- part 2: relayed response of a routed call\n");
	char rid[200];
	A->n_sent = 0;
	tp_recv(A, "{\"id\":1.5,\"method\":\"call\",\"params\":{\"path\":\"m\"}}");
	tp_last_id(B, rid, sizeof(rid));
	snprintf(msg, sizeof(msg), "{\"id\":\"%s\",\"result\":\"done\"}", rid);
	tp_recv(B, msg);
	if (A->n_sent != 1) { printf("harness problem: no relayed response\n"); return 2; }
	check_id(A, "relayed response", "1.5");

	printf("-- part 3: numeric fetch ids 1.5 and 1.25\n");
	A->n_sent = 0;
	tp_recv(A, "{\"id\":10,\"method\":\"fetch\",\"params\":{\"id\":1.5,\"path\":{\"equals\":\"a\"}}}");
	tp_recv(A, "{\"id\":11,\"method\":\"fetch\",\"params\":{\"id\":1.25,\"path\":{\"equals\":\"b\"}}}");
	if (strstr(A->sent[A->n_sent - 1], "\"result\":true") == NULL) {
		printf("FAIL: fetch id 1.25 refused because fetch id 1.5 exists (compared as ints)\n");
		fail = 1;
	}
	tp_recv(A, "{\"id\":12,\"method\":\"unfetch\",\"params\":{\"id\":1.25}}");
	tp_recv(A, "{\"id\":13,\"method\":\"unfetch\",\"params\":{\"id\":1.5}}");
	if (strstr(A->sent[A->n_sent - 1], "\"result\":true") == NULL) {
		printf("FAIL: unfetch 1.5 failed: 'unfetch 1.25' removed the wrong fetch or the fetch was never distinct\n");
		fail = 1;
	}
	tp_recv(A, "{\"id\":14,\"method\":\"fetch\",\"params\":{\"id\":3000000000,\"path\":{\"equals\":\"a\"}}}");
	tp_recv(A, "{\"id\":15,\"method\":\"fetch\",\"params\":{\"id\":4000000000,\"path\":{\"equals\":\"b\"}}}");
	if (strstr(A->sent[A->n_sent - 1], "\"result\":true") == NULL) {
		printf("FAIL: fetch id 4000000000 refused because fetch id 3000000000 exists (both saturate to INT_MAX)\n");
		fail = 1;
	}
	/* equal ids must still collide */
	tp_recv(A, "{\"id\":16,\"method\":\"fetch\",\"params\":{\"id\":3000000000,\"path\":{\"equals\":\"c\"}}}");
	if (strstr(A->sent[A->n_sent - 1], "fetch id already in use") == NULL) {
		printf("FAIL: duplicate fetch id accepted\n");
		fail = 1;
	}

	printf(fail ? "FAIL\n" : "OK: ids are echoed unchanged\n");
	return fail;
}
