/* C2: change_state() mutates the element, then reports an error when notifying a subscriber fails. */
#include "harness.h"
#include "element.h"

static char *value_of(struct tpeer *asker, const char *path)
{
	/* read the state back through the real "get" request */
	char req[256];
	h_clear(asker);
	snprintf(req, sizeof(req), "{\"id\":99,\"method\":\"get\",\"params\":{\"path\":{\"equals\":\"%s\"}}}", path);
	h_req(asker, req);
	if (asker->nmsg != 1) return NULL;
	cJSON *r = cJSON_Parse(asker->msg[0]);
	cJSON *res = cJSON_GetObjectItem(r, "result");
	cJSON *first = res ? cJSON_GetArrayItem(res, 0) : NULL;
	cJSON *v = first ? cJSON_GetObjectItem(first, "value") : NULL;
	char *out = v ? cJSON_PrintUnformatted(v) : NULL;
	char *copy = out ? strdup(out) : NULL;
	if (out) cJSON_free(out);
	cJSON_Delete(r);
	return copy;
}

int main(void)
{
	struct tpeer owner, sub, reader;
	init_parser();
	element_hashtable_create();
	h_init_peer(&owner, "owner");
	h_init_peer(&sub, "subscriber");
	h_init_peer(&reader, "reader");

	h_req(&owner, "{\"id\":1,\"method\":\"add\",\"params\":{\"path\":\"a/state\",\"value\":1}}");
	h_req(&sub, "{\"id\":2,\"method\":\"fetch\",\"params\":{\"id\":\"f\",\"path\":{\"startsWith\":\"a/\"}}}");

	char *before = value_of(&reader, "a/state");
	printf("value before change: %s\n", before);

	/* the subscriber's transport now fails (full write buffer / dead socket) */
	sub.fail_sends = 1;
	h_clear(&owner);
	h_req(&owner, "{\"id\":3,\"method\":\"change\",\"params\":{\"path\":\"a/state\",\"value\":2}}");
	sub.fail_sends = 0;

	int got_error = h_count(&owner, "\"error\"") == 1;
	char *after = value_of(&reader, "a/state");
	printf("owner's change request answered with %s; value after: %s\n", got_error ? "ERROR" : "success", after);

	int rc = 0;
	if (got_error && strcmp(before, after) != 0) {
		printf("DEFECT SHOWN: request answered with an error, but the value changed from %s to %s\n", before, after);
		rc = 1;
	} else if (!got_error && strcmp(after, "2") == 0) {
		printf("OK: change applied and answered with success (subscriber's transport failure is not the owner's error)\n");
	} else if (got_error && strcmp(before, after) == 0) {
		printf("OK: error answered and value left untouched\n");
	} else {
		printf("UNEXPECTED outcome\n");
		rc = 2;
	}
	return rc;
}
