/* C1: word fast paths of utf8_checker.c accept overlong lead bytes (C0/C1) that the
 * byte-wise checker rejects.  Differential test: every entry point must agree with
 * cjet_is_byte_sequence_valid() on the same bytes. */
#include <stdio.h>
#include <stdint.h>
#include <string.h>
#include <stdlib.h>
#include "utf8_checker.h"

static int bad = 0;

static bool by_bytes(const uint8_t *b, size_t n)
{
	struct cjet_utf8_checker c;
	cjet_init_checker(&c);
	return cjet_is_byte_sequence_valid(&c, b, n, true);
}
static bool by_w32(const uint8_t *b, size_t n)
{
	uint32_t w[16];
	struct cjet_utf8_checker c;
	memcpy(w, b, n);
	cjet_init_checker(&c);
	return cjet_is_word_sequence_valid(&c, w, n / 4, true);
}
static bool by_w64(const uint8_t *b, size_t n)
{
	uint64_t w[8];
	struct cjet_utf8_checker c;
	memcpy(w, b, n);
	cjet_init_checker(&c);
	return cjet_is_word64_sequence_valid(&c, w, n / 8, true);
}
static bool by_auto(const uint8_t *b, size_t n)
{
	/* 8-aligned start => pre_length 8 bytes go byte-wise, the rest through the 64-bit words */
	static uint64_t store[16];
	uint8_t *buf = (uint8_t *)store;
	struct cjet_utf8_checker c;
	memset(buf, 'a', 8);
	memcpy(buf + 8, b, n);
	cjet_init_checker(&c);
	return cjet_is_word_sequence_valid_auto_alligned(&c, buf, n + 8, true);
}

static void show(const char *what, const uint8_t *b, size_t n, bool ref, bool got)
{
	printf("%-46s bytes:", what);
	for (size_t i = 0; i < n; i++) printf(" %02X", b[i]);
	printf("  byte-wise=%s word=%s%s\n", ref ? "valid" : "INVALID", got ? "valid" : "INVALID",
	       ref == got ? "" : "   <-- MISMATCH");
	if (ref != got) bad++;
}

int main(void)
{
	static const uint8_t t1[4] = {0xC0, 0x80, 0xC2, 0x80};              /* overlong NUL + U+0080 */
	static const uint8_t t2[4] = {0xC2, 0x80, 0xC1, 0xBF};              /* U+0080 + overlong 0x7F */
	static const uint8_t t3[8] = {0xC0, 0x80, 0xC0, 0x80, 0xC1, 0x80, 0xC2, 0x80};
	static const uint8_t t4[8] = {0xC2, 0x80, 0xC2, 0x80, 0xC2, 0x80, 0xC2, 0x80}; /* valid control */
	static const uint8_t t5[4] = {0xC2, 0x80, 0xC2, 0x80};                            /* valid control */

	show("cjet_is_word_sequence_valid", t1, 4, by_bytes(t1, 4), by_w32(t1, 4));
	show("cjet_is_word_sequence_valid", t2, 4, by_bytes(t2, 4), by_w32(t2, 4));
	show("cjet_is_word_sequence_valid", t5, 4, by_bytes(t5, 4), by_w32(t5, 4));
	show("cjet_is_word64_sequence_valid", t3, 8, by_bytes(t3, 8), by_w64(t3, 8));
	show("cjet_is_word64_sequence_valid", t4, 8, by_bytes(t4, 8), by_w64(t4, 8));
	show("cjet_is_word_sequence_valid_auto_alligned", t3, 8, by_bytes(t3, 8), by_auto(t3, 8));

	/* exhaustive differential over all words made of two 2-byte-shaped sequences
	 * (lead 0xC0..0xDF, continuation 0x80..0xBF) and random words */
	long mism32 = 0, mism64 = 0;
	for (unsigned l0 = 0xC0; l0 <= 0xDF; l0++)
		for (unsigned l1 = 0xC0; l1 <= 0xDF; l1++)
			for (unsigned c0 = 0x80; c0 <= 0xBF; c0 += 0x3F)
				for (unsigned c1 = 0x80; c1 <= 0xBF; c1 += 0x3F) {
					uint8_t b[8] = {l0, c0, l1, c1, l1, c1, l0, c0};
					if (by_bytes(b, 4) != by_w32(b, 4)) mism32++;
					if (by_bytes(b, 8) != by_w64(b, 8)) mism64++;
				}
	srand(1);
	for (long i = 0; i < 2000000; i++) {
		uint8_t b[8];
		for (int k = 0; k < 8; k++) {
			int r = rand();
			/* bias towards interesting bytes */
			switch (r & 3) {
			case 0: b[k] = (r >> 8) & 0x7F; break;
			case 1: b[k] = 0x80 | ((r >> 8) & 0x3F); break;
			case 2: b[k] = 0xC0 | ((r >> 8) & 0x1F); break;
			default: b[k] = (r >> 8) & 0xFF; break;
			}
		}
		if (by_bytes(b, 4) != by_w32(b, 4)) mism32++;
		if (by_bytes(b, 8) != by_w64(b, 8)) mism64++;
	}
	printf("differential: %ld mismatching 32-bit words, %ld mismatching 64-bit words\n", mism32, mism64);
	if (mism32 || mism64) bad++;

	if (bad) { printf("DEFECT SHOWN: word fast path disagrees with the byte-wise checker\n"); return 1; }
	printf("OK: all entry points agree with the byte-wise checker\n");
	return 0;
}
