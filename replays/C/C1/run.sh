#!/bin/sh
# usage: run.sh <cjet source tree>;  exit 0 = defect absent, 1 = defect shown
HERE=$(cd "$(dirname "$0")" && pwd)
T=$(mktemp -d)
gcc -std=gnu99 -g -O1 -fsanitize=address,undefined -I"$1/src" "$1/src/utf8_checker.c" "$HERE/demo.c" -o "$T/demo" || exit 2
"$T/demo"; rc=$?
rm -rf "$T"
exit $rc
