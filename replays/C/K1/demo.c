/* K1: a fetch request that is answered with an ERROR must leave no fetch behind.
 * For every allocation N made while the fetch request is processed, let exactly allocation N fail. Whenever the answer is an
 * error, (a) a later change of a matching state must not be notified under the refused fetch id, and (b) the same fetch id must
 * be free for a new attempt. */
#include <unistd.h>
#include "harness.h"
#include "failalloc.h"
#include "element.h"

int main(void)
{
	setvbuf(stdout, NULL, _IONBF, 0);
	init_parser();
	if (element_hashtable_create() < 0) return 2;
	struct tpeer owner;
	h_init_peer(&owner, "owner");
	h_req(&owner, "{\"id\":1,\"method\":\"add\",\"params\":{\"path\":\"plant/a\",\"value\":1}}");
	h_req(&owner, "{\"id\":2,\"method\":\"add\",\"params\":{\"path\":\"plant/b\",\"value\":2}}");
	h_req(&owner, "{\"id\":3,\"method\":\"add\",\"params\":{\"path\":\"plant/c\",\"value\":3}}");
	int bad = 0, refused = 0;
	for (long n = 1; n < 400; n++) {
		struct tpeer fetcher;
		h_init_peer(&fetcher, "fetcher");
		fa_reset(n);
		int ret = parse_message("{\"id\":7,\"method\":\"fetch\",\"params\":{\"id\":\"f\",\"path\":{\"startsWith\":\"plant\"}}}", 78, &fetcher.peer);
		long used = fa_count;
		fa_off();
		int answered_error = h_count(&fetcher, "\"error\"") > 0 && h_count(&fetcher, "\"id\":7") > 0;
		if (ret == 0 && answered_error) {
			refused++;
			h_clear(&fetcher);
			h_clear(&owner);
			h_req(&owner, "{\"id\":9,\"method\":\"change\",\"params\":{\"path\":\"plant/a\",\"value\":10}}");
			h_req(&owner, "{\"id\":9,\"method\":\"change\",\"params\":{\"path\":\"plant/c\",\"value\":30}}");
			int notified = h_count(&fetcher, "\"method\":\"f\"");
			h_clear(&fetcher);
			h_req(&fetcher, "{\"id\":8,\"method\":\"fetch\",\"params\":{\"id\":\"f\",\"path\":{\"startsWith\":\"plant\"}}}");
			int in_use = h_count(&fetcher, "already in use");
			if (notified || in_use) {
				printf("allocation %ld fails -> fetch answered with an error, but: %d notification(s) under the refused id afterwards; "
				       "a new fetch with the same id is %s\n", n, notified, in_use ? "refused: \"fetch id already in use\"" : "accepted");
				bad = 1;
			}
		}
		free_peer_resources(&fetcher.peer);
		if (used < n) { printf("the fetch request makes %ld allocations; all single faults tried, %d of them end in an error answer\n", used, refused); break; }
	}
	printf(bad ? "DEFECT SHOWN\n" : "OK\n");
	return bad;
}
