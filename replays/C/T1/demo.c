/* T1: utf8_checker.h: a checker is initialised once by its user; the validator re-arms it after every rejection.  All entry points do
 * so when a text marked complete ends inside a character - except cjet_is_text_valid(), which returns false and leaves the checker in
 * the middle of that character.  The next text on the same checker is then judged as the continuation of the old one: the
 * well-formed text "A" is rejected.  The verdict must not depend on what was validated before, nor on the entry point used. */
#include <stdio.h>
#include <string.h>
#include "utf8_checker.h"

int main(void)
{
	int bad = 0;
	struct cjet_utf8_checker c;
	cjet_init_checker(&c);
	bool r1 = cjet_is_text_valid(&c, "\xC2", 1, true);
	bool r2 = cjet_is_text_valid(&c, "A", 1, true);
	printf("text entry : \"\\xC2\" complete -> %s ; then \"A\" complete -> %s\n", r1 ? "valid" : "invalid", r2 ? "valid" : "INVALID");
	struct cjet_utf8_checker d;
	cjet_init_checker(&d);
	bool s1 = cjet_is_byte_sequence_valid(&d, (const uint8_t *)"\xC2", 1, true);
	bool s2 = cjet_is_byte_sequence_valid(&d, (const uint8_t *)"A", 1, true);
	printf("byte entry : \"\\xC2\" complete -> %s ; then \"A\" complete -> %s\n", s1 ? "valid" : "invalid", s2 ? "valid" : "INVALID");
	if (r1 || s1) { printf("UNEXPECTED: a truncated text was accepted\n"); return 2; }
	if (!r2 || !s2 || r2 != s2) { printf("DEFECT SHOWN: the verdict for \"A\" depends on the text validated before it (and on the entry point)\n"); bad = 1; }
	else printf("OK\n");
	return bad;
}
