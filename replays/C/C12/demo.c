/* C12: error paths of the permessage-deflate wrappers in compression.c leak their temporary buffers.
 * One scenario per process. malloc/calloc/realloc/free as called from the project objects (compression.c, zlib) are
 * wrapped by a tracker; after free_compression() nothing allocated during the scenario may be left.
 * (LeakSanitizer alone misses most of these: the lost blocks stay "reachable" through z_stream.next_in/next_out.) */
#include "harness.h"
#include "failalloc.h"
#include "websocket.h"
#include "compression.h"
#include "zlib/zlib.h"

static int delivered = -1;
static enum websocket_callback_return on_text(struct websocket *s, char *msg, size_t len)
{
	(void)s; (void)msg;
	delivered = (int)len;
	return WS_OK;
}
static enum websocket_callback_return on_frame(struct websocket *s, char *msg, size_t len, bool last)
{
	(void)s; (void)msg; (void)last;
	delivered = (int)len;
	return WS_OK;
}
static void on_error(struct websocket *s) { (void)s; }

static struct websocket ws;

static void setup(bool client_no_context_takeover)
{
	websocket_init(&ws, NULL, true, on_error, "jet");
	ws.extension_compression.compression_level = 2;           /* what init_http_connection2(.., 2) would give */
	ws.extension_compression.client_max_window_bits = 15;
	ws.extension_compression.server_max_window_bits = 15;
	ws.extension_compression.client_no_context_takeover = client_no_context_takeover;
	alloc_compression(&ws);
	ws.extension_compression.accepted = true;
}

int main(int argc, char **argv)
{
	int scenario = argc > 1 ? atoi(argv[1]) : 1;
	enum websocket_callback_return r = WS_OK;
	int expect_ok = 0, bad = 0;
	setvbuf(stdout, NULL, _IONBF, 0);
	size_t base_bytes = fa_live_bytes();
	int base_blocks = fa_live_blocks();

	switch (scenario) {
	case 1: {
		char garbage[64];
		memset(garbage, 0xFF, sizeof garbage);              /* BTYPE=11: invalid deflate block -> Z_DATA_ERROR */
		setup(false);
		printf("scenario 1: compressed text message with an invalid deflate stream (64 bytes)\n");
		r = text_received_comp(true, &ws, garbage, sizeof garbage, on_text);
		break;
	}
	case 2: {
		char nothing[1];
		setup(false);
		printf("scenario 2: compressed text message with EMPTY payload (valid: 00 00 ff ff is appended -> empty message)\n");
		r = text_received_comp(true, &ws, nothing, 0, on_text);
		expect_ok = 1;
		break;
	}
	case 3: {
		char payload[] = {0x4a, 0x4c, 0x4a, 0x06, 0x00};    /* deflate of "abc" with sync flush, tail removed */
		setup(false);
		printf("scenario 3: valid compressed message, but the allocation of the output buffer fails\n");
		fa_reset(2);                                         /* #1 = in, #2 = out */
		r = text_received_comp(true, &ws, payload, sizeof payload, on_text);
		fa_off();
		break;
	}
	case 4: {
		/* final deflate block followed by extra bytes; with client_no_context_takeover inflate(Z_FINISH) stops at
		 * the end of the stream and leaves input unconsumed */
		uint8_t buf[64];
		z_stream d;
		memset(&d, 0, sizeof d);
		deflateInit2(&d, Z_DEFAULT_COMPRESSION, Z_DEFLATED, -15, 8, Z_DEFAULT_STRATEGY);
		d.next_in = (uint8_t *)"hello"; d.avail_in = 5; d.next_out = buf; d.avail_out = sizeof buf;
		deflate(&d, Z_FINISH);
		size_t n = sizeof buf - d.avail_out;
		deflateEnd(&d);
		memset(buf + n, 0x55, 8); n += 8;
		setup(true);
		printf("scenario 4: finished deflate stream followed by 8 surplus bytes (\"not all data is decompressed\")\n");
		r = text_received_comp(true, &ws, (char *)buf, n, on_text);
		break;
	}
	case 5: {
		char garbage[64];
		memset(garbage, 0xFF, sizeof garbage);
		setup(false);
		printf("scenario 5: fragmented compressed message (2 frames) with an invalid deflate stream\n");
		r = text_frame_received_comp(true, &ws, garbage, 32, false, on_frame);
		if (r == WS_OK) r = text_frame_received_comp(true, &ws, garbage + 32, 32, true, on_frame);
		break;
	}
	}
	printf("  wrapper returned %s, message delivered: %s\n", r == WS_OK ? "WS_OK" : r == WS_ERROR ? "WS_ERROR" : "WS_CLOSED", delivered >= 0 ? "yes" : "no");
	/* what websocket_close() does for an accepted extension */
	free_compression(&ws);
	if (expect_ok && r != WS_OK) {
		printf("  DEFECT: a valid empty compressed message is rejected (20*length == 0 sized output buffer)\n");
		bad = 1;
	}
	if (fa_live_blocks() != base_blocks) {
		printf("  DEFECT: %d block(s), %zu bytes allocated by the library during the message were never freed\n",
		       fa_live_blocks() - base_blocks, fa_live_bytes() - base_bytes);
		fa_list();
		bad = 1;
	}
	return bad;
}
