#!/bin/sh
# usage: run.sh <cjet source tree>;  exit 0 = defect absent, 1 = defect shown
HERE=$(cd "$(dirname "$0")" && pwd)
T=$(mktemp -d)
"$HERE/../common/build_full.sh" "$1" "$T/demo" "$HERE/demo.c" -DFA_TRACK -Wl,--wrap=free,--wrap=realloc || exit 2
rc=0
for s in 1 2 3 4 5; do
	ASAN_OPTIONS=detect_leaks=0 "$T/demo" $s > "$T/out" 2>&1; r=$?
	grep -v "^    #[2-9]\|^    #1[0-9]\|^$\|^=====\|sha1.c" "$T/out" | grep -v "libsanitizer" | sed 's/^/  /'
	if [ $r -ne 0 ]; then echo "  => scenario $s: DEFECT SHOWN"; rc=1; else echo "  => scenario $s: clean"; fi
done
rm -rf "$T"
exit $rc
