#!/bin/sh
# usage: run.sh <cjet source tree>;  exit 0 = defect absent, 1 = defect shown
HERE=$(cd "$(dirname "$0")" && pwd)
T=$(mktemp -d)
"$HERE/../common/build_core.sh" "$1" "$T/demo" "$HERE/demo.c" || exit 2
rc=0
ASAN_OPTIONS=detect_leaks=0 "$T/demo" "$1/src/tests/input_data/passwd_std.json" "$T/passwd.json" || rc=1
rm -rf "$T"
exit $rc
