/* F4: "afterwards the new password authenticates and the old one does not ... the file holds either the old or the new credential
 * set, never neither".  crypt() of libxcrypt does not return NULL on failure but the failure token "*0" (or "*1"), with errno set:
 * a new password longer than 512 bytes is such a failure.  change_password() tests the result for NULL only, stores "*0" as the
 * account's hash, writes it to the file and answers success: neither the new nor the old password authenticates any more, in
 * memory and on disk.  The raw port's 512-byte message limit of the cmake default hides this; the qbs build of the project
 * configures 262144 bytes (qbs/modules/generateCjetConfig), and any message size above ~600 bytes will do. */
#include <unistd.h>
#include <errno.h>
#include "harness.h"
#include "authenticate.h"
#include "jet_random.h"

static int copy_file(const char *from, const char *to)
{
	FILE *f = fopen(from, "rb");
	if (!f) return -1;
	FILE *g = fopen(to, "wb");
	char buf[4096];
	size_t n;
	while ((n = fread(buf, 1, sizeof buf, f)) > 0) fwrite(buf, 1, n, g);
	fclose(f);
	fclose(g);
	return 0;
}

static int auth(const char *user, const char *pw)
{
	char u[64], p[1024];
	snprintf(u, sizeof u, "%s", user);
	snprintf(p, sizeof p, "%s", pw);
	return credentials_ok(u, p) != NULL;
}

int main(int argc, char **argv)
{
	setvbuf(stdout, NULL, _IONBF, 0);
	if (argc < 3) return 2;
	init_parser();
	init_random();
	if (copy_file(argv[1], argv[2]) < 0) return 2;
	if (load_passwd_data(argv[2]) < 0) { printf("load failed\n"); return 2; }
	if (!auth("john", "doe")) { printf("UNEXPECTED: control login failed\n"); return 2; }

	struct tpeer john;
	h_init_peer(&john, "john");
	char ju[] = "john";
	static char longpw[601], keep[601];
	memset(longpw, 'x', 600);
	memcpy(keep, longpw, sizeof keep);
	john.peer.user_name = ju;
	cJSON *request = cJSON_Parse("{\"id\":1}");
	cJSON *resp = change_password(&john.peer, request, ju, longpw);
	int is_error = resp == NULL || cJSON_GetObjectItem(resp, "error") != NULL;
	printf("john changes his password to one of 600 characters -> %s\n", is_error ? "error answer" : "SUCCESS answer");
	cJSON_Delete(resp);
	cJSON_Delete(request);
	int new_ok = auth("john", keep), old_ok = auth("john", "doe");
	printf("  right afterwards: new password %s, old password %s\n", new_ok ? "accepted" : "REFUSED", old_ok ? "accepted" : "REFUSED");
	free_passwd_data();
	if (load_passwd_data(argv[2]) < 0) { printf("reload failed\n"); return 2; }
	int new_ok2 = auth("john", keep), old_ok2 = auth("john", "doe");
	printf("  after a reload of the file: new password %s, old password %s\n", new_ok2 ? "accepted" : "REFUSED", old_ok2 ? "accepted" : "REFUSED");
	free_passwd_data();
	int bad = 0;
	if (!is_error && !new_ok) { printf("DEFECT: the change was answered with success, the new password does not authenticate\n"); bad = 1; }
	if (!new_ok && !old_ok) { printf("DEFECT: neither the old nor the new password authenticates (in memory)\n"); bad = 1; }
	if (!new_ok2 && !old_ok2) { printf("DEFECT: neither the old nor the new password authenticates (credential file)\n"); bad = 1; }
	if (is_error && (!old_ok || !old_ok2)) { printf("DEFECT: a refused change took the old password away\n"); bad = 1; }
	printf(bad ? "DEFECT SHOWN\n" : "OK\n");
	return bad;
}
