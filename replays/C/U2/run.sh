#!/bin/sh
# usage: run.sh <cjet source tree>;  exit 0 = defect absent, 1 = defect shown
HERE=$(cd "$(dirname "$0")" && pwd)
T=$(mktemp -d)
SAN="-fsanitize=shift -fno-sanitize-recover=shift" "$HERE/../common/build_core.sh" "$1" "$T/demo" "$HERE/demo.c" || exit 2
"$T/demo" "$T/passwd.json" > "$T/out" 2>&1; rc=$?
grep -E "runtime error|32 groups|mask|OK:|refused" "$T/out"
rm -rf "$T"
[ $rc -eq 0 ] && exit 0
[ $rc -eq 2 ] && exit 2
echo "DEFECT SHOWN: undefined behaviour executed while the group mask was computed (exit status $rc)"
exit 1
