/* U2: with 32 access groups configured (the limit the daemon itself enforces: one bit per group in a 32-bit mask), computing the mask
 * of the 32nd group executes undefined behaviour: get_groups() does groups |= (1 << j) with an int literal, and 1 << 31 does not
 * fit an int. Built with -fsanitize=shift -fno-sanitize-recover, an authenticate of a user in that group stops the daemon. */
#include <unistd.h>
#include "harness.h"
#include "authenticate.h"
#include "groups.h"

int main(int argc, char **argv)
{
	setvbuf(stdout, NULL, _IONBF, 0);
	if (argc < 2) return 2;
	init_parser();
	FILE *f = fopen(argv[1], "w");
	if (!f) return 2;
	fprintf(f, "{\"users\":{");
	for (int i = 0; i < 32; i++) {
		fprintf(f, "%s\"user%d\":{\"password\":\"$6$QieAoprju2Gf$WwQCVJeZ7YBUK42QG4Idx8DstfUpaFwjSNDrtbUmsDFtg7/to2sx1ClJRqR051.sJ2uquembKq6O6BweUfpzs1\","
		        "\"auth\":{\"fetchGroups\":[\"group%d\"],\"setGroups\":[],\"callGroups\":[]}}", i ? "," : "", i, i);
	}
	fprintf(f, "}}");
	fclose(f);
	if (load_passwd_data(argv[1]) < 0) { printf("a password file with 32 groups is refused\n"); return 2; }
	struct tpeer p;
	h_init_peer(&p, "user31");
	printf("32 groups loaded; user31 (member of the 32nd group) authenticates ...\n");
	h_req(&p, "{\"id\":1,\"method\":\"authenticate\",\"params\":{\"user\":\"user31\",\"password\":\"doe\"}}");
	printf("fetch group mask of the peer: 0x%08x\n", (unsigned)p.peer.fetch_groups);
	printf("OK: no undefined shift executed\n");
	return 0;
}
