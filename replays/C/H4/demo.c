/* H4: RFC 6455 4.2.1: the server's part of the handshake requires an |Upgrade| header field containing the value "websocket"
 * (case-insensitive).  cjet never looks at the value: parser->upgrade only needs SOME Upgrade header plus "Connection: upgrade", so an
 * upgrade to another protocol (Upgrade: h2c) that happens to carry websocket headers is answered with 101 Switching Protocols and a
 * jet peer is created - an exchange that is no valid websocket upgrade must be answered with an error status or closed. */
#include <unistd.h>
#include <fcntl.h>
#include <signal.h>
#include <sys/socket.h>
#include "harness.h"
#include "buffered_socket.h"
#include "http_connection.h"
#include "http_server.h"
#include "websocket.h"
#include "websocket_peer.h"
#include "sha1/sha1.h"
#include "base64.h"

static int handshake(const char *title, const char *request, int expect_101)
{
	static const struct url_handler handler[] = {{
		.request_target = "/api/jet/",
		.create = alloc_websocket_peer,
		.on_header_field = websocket_upgrade_on_header_field,
		.on_header_value = websocket_upgrade_on_header_value,
		.on_headers_complete = websocket_upgrade_on_headers_complete,
	}};
	static struct http_server server;
	server.ev.loop = &h_loop;
	server.handler = handler;
	server.num_handlers = 1;

	int sv[2];
	socketpair(AF_UNIX, SOCK_STREAM, 0, sv);
	fcntl(sv[0], F_SETFL, fcntl(sv[0], F_GETFL) | O_NONBLOCK);
	fcntl(sv[1], F_SETFL, fcntl(sv[1], F_GETFL) | O_NONBLOCK);
	/* mirror of linux_io.c:handle_http() */
	struct http_connection *connection = alloc_http_connection();
	struct buffered_socket *bs = buffered_socket_acquire();
	buffered_socket_init(bs, sv[0], &h_loop, free_connection, connection);
	struct buffered_reader br;
	br.this_ptr = bs;
	br.close = buffered_socket_close;
	br.read_exactly = buffered_socket_read_exactly;
	br.read_until = buffered_socket_read_until;
	br.set_error_handler = buffered_socket_set_error;
	br.writev = buffered_socket_writev;
	init_http_connection(connection, &server, &br, true);

	printf("%s\n", title);
	if (write(sv[1], request, strlen(request)) < 0) return 2;
	enum eventloop_return r = bs->ev.read_function(&bs->ev);
	char buf[512];
	ssize_t n = read(sv[1], buf, sizeof(buf) - 1);
	buf[n > 0 ? n : 0] = 0;
	char *eol = strstr(buf, "\r\n");
	char *acc = strstr(buf, "Sec-WebSocket-Accept: ");
	printf("  server answered: %.*s\n", eol ? (int)(eol - buf) : 20, n > 0 ? buf : "(nothing)");
	if (acc) printf("  %.50s\n", acc);
	int got_101 = strncmp(buf, "HTTP/1.1 101", 12) == 0;
	printf("  peers registered afterwards: %d, connection %s\n", get_number_of_peers(), r == EL_EVENT_REMOVED ? "closed by server" : "kept open");
	if (got_101 && !expect_101) {
		/* what is the digest made of? */
		uint8_t zero[SEC_WEB_SOCKET_KEY_LENGTH + SEC_WEB_SOCKET_GUID_LENGTH] = {0}, sha[SHA1HashSize], b64[29] = {0};
		struct SHA1Context c;
		SHA1Reset(&c); SHA1Input(&c, zero, sizeof zero); SHA1Result(&c, sha);
		b64_encode_buffer(sha, SHA1HashSize, b64);
		printf("  base64(SHA1(60 zero bytes)) = %.28s  -> %s\n", b64, (acc && !strncmp(acc + 22, (char *)b64, 28)) ? "that IS the accept value sent: digest over a key that was never received" : "differs");
	}
	if (r != EL_EVENT_REMOVED) {   /* hang up */
		close(sv[1]);
		bs->ev.read_function(&bs->ev);
	} else {
		close(sv[1]);
	}
	return got_101 != expect_101;
}

int main(void)
{
	setvbuf(stdout, NULL, _IONBF, 0);
	signal(SIGPIPE, SIG_IGN);
	init_parser();
#define REQ(up) "GET /api/jet/ HTTP/1.1\r\nHost: localhost\r\nUpgrade: " up "\r\nConnection: Upgrade\r\n" \
		"Sec-WebSocket-Key: dGhlIHNhbXBsZSBub25jZQ==\r\nSec-WebSocket-Version: 13\r\nSec-WebSocket-Protocol: jet\r\n\r\n"
	int bad = 0;
	bad |= handshake("Upgrade: websocket (control):", REQ("websocket"), 1);
	bad |= handshake("Upgrade: WebSocket (control, other spelling):", REQ("WebSocket"), 1);
	bad |= handshake("Upgrade: foo, websocket (control, list):", REQ("foo, websocket"), 1);
	if (bad) { printf("UNEXPECTED: a control handshake was not accepted\n"); return 2; }
	int r = 0;
	r |= handshake("Upgrade: h2c:", REQ("h2c"), 0);
	r |= handshake("Upgrade: websocketx:", REQ("websocketx"), 0);
	if (r) { printf("DEFECT SHOWN: an upgrade to a protocol other than websocket is answered with 101 and becomes a jet peer\n"); return 1; }
	printf("OK\n");
	return 0;
}
