#!/bin/sh
# usage: run.sh <cjet source tree>;  exit 0 = defect absent, 1 = defect shown
HERE=$(cd "$(dirname "$0")" && pwd)
T=$(mktemp -d)
"$HERE/../common/build_full.sh" "$1" "$T/demo" "$HERE/demo.c" || exit 2
rc=0
ASAN_OPTIONS=detect_leaks=0:handle_segv=0:handle_sigbus=0 "$T/demo" jet || rc=1
ASAN_OPTIONS=detect_leaks=0:handle_segv=0:handle_sigbus=0 "$T/demo" ws || rc=1
rm -rf "$T"
exit $rc
