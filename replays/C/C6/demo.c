/* C6: init_peer()'s result is ignored by init_socket_peer()/init_websocket_peer(); on_url ignores create()'s result.
 * The harness mirrors linux_io.c:handle_new_jet_connection()/handle_http() line by line over a socketpair, with the
 * one allocation inside add_routing_table() failing, then lets the client hang up. */
#include <unistd.h>
#include <fcntl.h>
#include <signal.h>
#include <sys/socket.h>
#include "harness.h"
#include "failalloc.h"
#include "buffered_socket.h"
#include "socket_peer.h"
#include "http_connection.h"
#include "http_server.h"
#include "websocket.h"
#include "websocket_peer.h"

static const char *stage = "";
static void on_segv(int sig)
{
	char buf[256];
	int n = snprintf(buf, sizeof buf, "DEFECT SHOWN: signal %d (crash) while: %s\n", sig, stage);
	write(1, buf, n);
	_exit(1);
}

static void fill_reader(struct buffered_reader *br, struct buffered_socket *bs)
{
	br->this_ptr = bs;
	br->close = buffered_socket_close;
	br->read_exactly = buffered_socket_read_exactly;
	br->read_until = buffered_socket_read_until;
	br->set_error_handler = buffered_socket_set_error;
	br->writev = buffered_socket_writev;
}

static void mkpair(int sv[2])
{
	socketpair(AF_UNIX, SOCK_STREAM, 0, sv);
	fcntl(sv[0], F_SETFL, fcntl(sv[0], F_GETFL) | O_NONBLOCK);
}

/* works with "void init_socket_peer()" (pinned code) and with an int-returning fixed version */
#define INIT_SOCKET_PEER(p, br, l) __builtin_choose_expr( \
	__builtin_types_compatible_p(__typeof__(init_socket_peer(p, br, l)), void), \
	(init_socket_peer(p, br, l), 0), init_socket_peer(p, br, l))

static int jet_connection(void)
{
	int sv[2];
	mkpair(sv);
	printf("raw jet connection; the allocation in add_routing_table() fails\n");
	/* --- mirror of handle_new_jet_connection() --- */
	struct socket_peer *peer = alloc_jet_peer();
	struct buffered_socket *bs = buffered_socket_acquire();
	buffered_socket_init(bs, sv[0], &h_loop, free_peer_on_error, peer);
	struct buffered_reader br;
	fill_reader(&br, bs);
	fa_reset(1);
	stage = "init_socket_peer";
	int ret = INIT_SOCKET_PEER(peer, &br, true);
	fa_off();
	if (ret < 0) {
		printf("  init_socket_peer reported the failure, connection dropped by the acceptor\n");
		buffered_socket_release(bs);
		cjet_free(peer);
		close(sv[0]);
		close(sv[1]);
		return 0;
	}
	printf("  init_socket_peer gave no error; number of peers = %d, peer->routing_table = %p\n", get_number_of_peers(), peer->peer.routing_table);
	stage = "client hangs up -> read_msg_length(len 0) -> free_peer_resources()";
	printf("  %s\n", stage);
	close(sv[1]);
	bs->ev.read_function(&bs->ev);
	return 0;
}

static int ws_connection(void)
{
	int sv[2];
	mkpair(sv);
	printf("http/websocket connection; the allocation in add_routing_table() fails\n");
	static const struct url_handler handler[] = {{
		.request_target = "/api/jet/",
		.create = alloc_websocket_peer,
		.on_header_field = websocket_upgrade_on_header_field,
		.on_header_value = websocket_upgrade_on_header_value,
		.on_headers_complete = websocket_upgrade_on_headers_complete,
	}};
	static struct http_server server;
	server.ev.loop = &h_loop;
	server.handler = handler;
	server.num_handlers = 1;
	/* --- mirror of handle_http() --- */
	struct http_connection *connection = alloc_http_connection();
	struct buffered_socket *bs = buffered_socket_acquire();
	buffered_socket_init(bs, sv[0], &h_loop, free_connection, connection);
	struct buffered_reader br;
	fill_reader(&br, bs);
	init_http_connection(connection, &server, &br, true);

	static const char start_line[] = "GET /api/jet/ HTTP/1.1\r\n";
	write(sv[1], start_line, sizeof(start_line) - 1);
	/* allocation 1 = struct websocket_peer, allocation 2 = routing table */
	fa_reset(2);
	stage = "request line -> on_url -> alloc_websocket_peer()";
	int peers_before = get_number_of_peers();
	enum eventloop_return r = bs->ev.read_function(&bs->ev);
	fa_off();
	if (r == EL_EVENT_REMOVED) {
		char buf[200];
		int n = read(sv[1], buf, sizeof(buf) - 1);
		buf[n > 0 ? n : 0] = 0;
		printf("  connection was closed by the server after create() failed; client got: %.40s\n", buf);
		printf("  peers registered: %d (before %d)\n", get_number_of_peers(), peers_before);
		close(sv[1]);
		return get_number_of_peers() != peers_before;
	}
	printf("  create() failed but the request goes on; number of peers = %d\n", get_number_of_peers());
	stage = "client hangs up -> websocket_read_header_line(len 0) -> free_websocket_peer -> free_peer_resources()";
	printf("  %s\n", stage);
	close(sv[1]);
	bs->ev.read_function(&bs->ev);
	return 0;
}

int main(int argc, char **argv)
{
	setvbuf(stdout, NULL, _IONBF, 0);
	signal(SIGSEGV, on_segv);
	signal(SIGBUS, on_segv);
	init_parser();
	element_hashtable_create();
	size_t heap = cjet_get_alloc_size();
	int rc = (argc > 1 && argv[1][0] == 'w') ? ws_connection() : jet_connection();
	if (rc) { printf("DEFECT SHOWN\n"); return 1; }
	if (cjet_get_alloc_size() != heap) { printf("DEFECT: %zu bytes leaked\n", cjet_get_alloc_size() - heap); return 1; }
	printf("OK: failure handled, nothing leaked\n");
	return 0;
}
