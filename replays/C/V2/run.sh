#!/bin/sh
# usage: run.sh <cjet source tree>;  exit 0 = defect absent, 1 = defect shown
HERE=$(cd "$(dirname "$0")" && pwd)
T=$(mktemp -d)
"$HERE/../common/build_core.sh" "$1" "$T/demo" "$HERE/demo.c" -Wl,--wrap=snprintf || exit 2
ASAN_OPTIONS=detect_leaks=0 "$T/demo"; rc=$?
rm -rf "$T"
exit $rc
