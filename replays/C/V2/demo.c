/* V2: a request id may be a number.  When such a set/call is routed to the owner of the element, router.c builds the routed id with
 * snprintf("%s_%x_%p", origin_request_id->valuestring, ...) - and valuestring of a number is NULL.  A null pointer for %s is undefined
 * behaviour (C11 7.21.6.1p8); glibc happens to print "(null)".  Any client reaches it with {"id": 7, "method": "set", ...} on a state
 * of another peer.  The harness wraps snprintf() and looks at the argument the real code passes for a leading %s. */
#include <stdarg.h>
#include <unistd.h>
#include "harness.h"
#include "element.h"

static int null_for_s;
int __wrap_snprintf(char *buf, size_t n, const char *fmt, ...)
{
	va_list ap, aq;
	va_start(ap, fmt);
	va_copy(aq, ap);
	if (fmt[0] == '%' && fmt[1] == 's') {
		const char *first = va_arg(aq, const char *);
		if (first == NULL) {
			null_for_s++;
			printf("  snprintf(\"%s\", NULL, ...) called by the daemon code\n", fmt);
		}
	}
	va_end(aq);
	int r = vsnprintf(buf, n, fmt, ap);
	va_end(ap);
	return r;
}

int main(void)
{
	setvbuf(stdout, NULL, _IONBF, 0);
	init_parser();
	if (element_hashtable_create() < 0) return 2;
	struct tpeer owner, caller;
	h_init_peer(&owner, "owner");
	h_init_peer(&caller, "caller");
	static const char add[] = "{\"id\":1,\"method\":\"add\",\"params\":{\"path\":\"x\",\"value\":1}}";
	if (parse_message(add, sizeof(add) - 1, &owner.peer) != 0 || h_count(&owner, "\"result\":true") == 0) { printf("UNEXPECTED: add failed\n"); return 2; }
	h_clear(&owner);
	static const char set[] = "{\"id\":7,\"method\":\"set\",\"params\":{\"path\":\"x\",\"value\":2}}";
	printf("caller sends %s\n", set);
	int r = parse_message(set, sizeof(set) - 1, &caller.peer);
	printf("  -> parse_message() = %d, routed to the owner: %s\n", r, owner.nmsg > 0 ? owner.msg[owner.nmsg - 1] : "(nothing)");
	if (null_for_s) { printf("DEFECT SHOWN: a null pointer is passed for %%s (%d call(s)) - undefined behaviour on a request any client can send\n", null_for_s); return 1; }
	printf("OK\n");
	return 0;
}
