/* N1: numbers must come back as they were accepted.
 * (a) C02: a request whose id is the integer 9007199254740991 (2^53 - 1, exactly representable) must be answered with an equal id;
 * (b) C01: a state changed to 0.30000000000000004 must be reported to a fetcher with that value, not with another double (0.3).
 * cJSON's print_number() keeps the 15-digit rendering when it reads back "equal enough" (relative DBL_EPSILON), not when it reads
 * back equal. */
#include <unistd.h>
#include <stdlib.h>
#include "harness.h"
#include "element.h"

static double number_after(const char *msg, const char *key)
{
	const char *p = strstr(msg, key);
	return p ? strtod(p + strlen(key), NULL) : -1.0;
}

int main(void)
{
	setvbuf(stdout, NULL, _IONBF, 0);
	init_parser();
	if (element_hashtable_create() < 0) return 2;
	int bad = 0;
	struct tpeer a, f;
	h_init_peer(&a, "owner");
	h_init_peer(&f, "fetcher");

	h_req(&a, "{\"id\":9007199254740991,\"method\":\"config\",\"params\":{}}");
	double id = a.nmsg ? number_after(a.msg[a.nmsg - 1], "\"id\":") : -1.0;
	printf("request id 9007199254740991 -> answered with id %.17g (%s)\n", id, id == 9007199254740991.0 ? "equal" : "NOT EQUAL");
	if (id != 9007199254740991.0) bad = 1;

	h_req(&a, "{\"id\":1,\"method\":\"add\",\"params\":{\"path\":\"t\",\"value\":1}}");
	h_req(&f, "{\"id\":1,\"method\":\"fetch\",\"params\":{\"id\":\"f\",\"path\":{\"equals\":\"t\"}}}");
	h_clear(&f);
	h_req(&a, "{\"id\":2,\"method\":\"change\",\"params\":{\"path\":\"t\",\"value\":0.30000000000000004}}");
	double v = f.nmsg ? number_after(f.msg[f.nmsg - 1], "\"value\":") : -1.0;
	printf("state changed to 0.30000000000000004 -> fetcher is told %.17g (%s)\n", v, v == 0.30000000000000004 ? "the accepted value" : "ANOTHER VALUE");
	if (v != 0.30000000000000004) bad = 1;

	printf(bad ? "DEFECT SHOWN\n" : "OK\n");
	return bad;
}
