/* S1: "a termination signal closes every connection, releases everything". The shutdown sequence of the daemon is
 * run loop returns -> destroy_all_peers() (linux_io.c:run_jet). A connection on the HTTP/websocket port is a peer only once its
 * request line has been read and matched; until then it is an http_connection + buffered_socket that no list knows.
 * A client that has connected and sent half a request line is therefore left behind at shutdown: descriptor open, memory held.
 * Control: a raw jet connection in the same situation is a peer from the start and is closed. */
#include <unistd.h>
#include <fcntl.h>
#include <signal.h>
#include <sys/socket.h>
#include "harness.h"
#include "alloc.h"
/* the real accept handlers and the real shutdown sequence are static functions of linux_io.c: take the whole unit in */
#include "linux/linux_io.c"

static int fake_run(void *this_ptr, const int *go) { (void)this_ptr; (void)go; return 0; }   /* the loop returns at once: SIGTERM */
static struct eventloop loop = { NULL, NULL, NULL, fake_run, h_add, h_remove };

static int fd_open(int fd) { return fcntl(fd, F_GETFD) != -1; }

int main(void)
{
	setvbuf(stdout, NULL, _IONBF, 0);
	signal(SIGPIPE, SIG_IGN);
	init_parser();
	static const struct url_handler handler[] = {{
		.request_target = "/api/jet/",
		.create = alloc_websocket_peer,
		.on_header_field = websocket_upgrade_on_header_field,
		.on_header_value = websocket_upgrade_on_header_value,
		.on_headers_complete = websocket_upgrade_on_headers_complete,
	}};
	static struct http_server server;
	server.ev.loop = &loop;
	server.handler = handler;
	server.num_handlers = 1;
	static struct io_event jet_listener;
	jet_listener.loop = &loop;
	size_t base = cjet_get_alloc_size();

	/* a raw jet connection that has sent half a message, accepted by the real handle_new_jet_connection() */
	int jv[2];
	socketpair(AF_UNIX, SOCK_STREAM, 0, jv);
	handle_new_jet_connection(&jet_listener, jv[0], true);
	(void)write(jv[1], "\0\0", 2);

	/* a connection of the HTTP port that has sent half a request line, accepted by the real handle_http() */
	int hv[2];
	socketpair(AF_UNIX, SOCK_STREAM, 0, hv);
	handle_http(&server.ev, hv[0], true);
	(void)write(hv[1], "GET /api/je", 11);

	printf("before shutdown: jet descriptor %s, http descriptor %s, accounted heap %zu bytes above the baseline, peers %d\n",
	       fd_open(jv[0]) ? "open" : "closed", fd_open(hv[0]) ? "open" : "closed", cjet_get_alloc_size() - base, get_number_of_peers());
	struct cmdline_config config = { .run_foreground = true, .user_name = NULL };
	run_jet(&loop, &config);  /* the real thing: runs the (fake) loop, which returns, then shuts down */
	size_t left = cjet_get_alloc_size() - base;
	printf("after  shutdown: jet descriptor %s, http descriptor %s, accounted heap %zu bytes above the baseline, peers %d\n",
	       fd_open(jv[0]) ? "OPEN" : "closed", fd_open(hv[0]) ? "OPEN" : "closed", left, get_number_of_peers());
	int bad = fd_open(hv[0]) || fd_open(jv[0]) || left != 0;
	printf(bad ? "DEFECT SHOWN: the shutdown sequence leaves a connection of the HTTP port behind\n" : "OK\n");
	return bad;
}
