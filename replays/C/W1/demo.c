/* W1: send_buffer() (the backlog flush of buffered_socket.c) returns -1 on a hard write error (ENOBUFS, ENOMEM - errors that raise no
 * epoll error event) without moving the unsent rest to the start of the write buffer, although it has already taken the sent part
 * off to_write.  When the frame was generated on behalf of ANOTHER peer (fetch notification, routed answer, shutdown answer) the caller
 * only logs the failure and the connection stays: the next flush starts at the buffer start again, re-sends bytes that are already
 * out and drops the tail - the peer sees part of a frame followed by other data.  Real buffered_socket.c, scripted socket layer (as in
 * the project's own buffered_socket_test): short write of 40, flush takes 20 more, then ENOBUFS; later a second frame. */
#include <errno.h>
#include <stdarg.h>
#include <stdint.h>
#include <stdio.h>
#include <stdlib.h>
#include <string.h>

#include "buffered_socket.h"
#include "eventloop.h"
#include "log.h"
#include "socket.h"

void log_err(const char *format, ...) { (void)format; }
void log_warn(const char *format, ...) { (void)format; }
void log_info(const char *format, ...) { (void)format; }

static unsigned char wire[4096];
static size_t wire_len;
static int script[16];  /* >0: accept that many bytes, 0: accept all, -1: EAGAIN, -2: ENOBUFS */
static int script_pos;

cjet_ssize_t socket_read(socket_type sock, void *buf, size_t count)
{
	(void)sock; (void)buf; (void)count;
	errno = EAGAIN;
	return -1;
}
int socket_close(socket_type sock) { (void)sock; return 0; }
enum cjet_system_error get_socket_error(void) { return errno; }
const char *get_socket_error_msg(enum cjet_system_error err) { return strerror(err); }

cjet_ssize_t socket_writev_with_prefix(socket_type sock, void *buf, size_t len, struct socket_io_vector *io_vec, unsigned int count)
{
	(void)sock;
	int what = script[script_pos++];
	if (what == -1) { errno = EAGAIN; return -1; }
	if (what == -2) { errno = ENOBUFS; return -1; }
	size_t budget = (what == 0) ? (size_t)-1 : (size_t)what;
	size_t done = 0;
	size_t n = len < budget ? len : budget;
	memcpy(wire + wire_len, buf, n); wire_len += n; done += n; budget -= n;
	for (unsigned int i = 0; (i < count) && (budget > 0); i++) {
		n = io_vec[i].iov_len < budget ? io_vec[i].iov_len : budget;
		memcpy(wire + wire_len, io_vec[i].iov_base, n); wire_len += n; done += n; budget -= n;
	}
	return (cjet_ssize_t)done;
}

static enum eventloop_return fake_add(const void *t, const struct io_event *ev) { (void)t; (void)ev; return EL_CONTINUE_LOOP; }
static void fake_remove(void *t, const struct io_event *ev) { (void)t; (void)ev; }
static int closed;
static void on_error(void *ctx) { (void)ctx; closed = 1; }

int main(void)
{
	struct eventloop loop;
	memset(&loop, 0, sizeof(loop));
	loop.add = fake_add;
	loop.remove = fake_remove;
	struct buffered_socket *bs = malloc(sizeof(*bs));
	buffered_socket_init(bs, 5, &loop, on_error, NULL);

	char a[100], b[50];
	for (int i = 0; i < 100; i++) a[i] = (char)('a' + i % 26);
	memset(b, 'B', sizeof(b));
	struct socket_io_vector v;

	/* frame A for this peer is generated while ANOTHER peer is served (fetch notification, routed answer):
	 * short write (40), flush takes 20 more, then the kernel says ENOBUFS. */
	int s1[] = {40, 20, -2};
	memcpy(script, s1, sizeof(s1));
	v.iov_base = a; v.iov_len = sizeof(a);
	int ret_a = buffered_socket_writev(bs, &v, 1);
	printf("frame A: buffered_socket_writev() = %d, %zu bytes on the wire, to_write = %zu, error callback called: %d\n", ret_a, wire_len,
	       bs->to_write, closed);
	/* notify_fetching_peer()/format_and_send_response() callers log and go on; the connection stays. */

	/* later: frame B for the same peer, the socket takes everything */
	script_pos = 0;
	script[0] = 0;
	v.iov_base = b; v.iov_len = sizeof(b);
	int ret_b = buffered_socket_writev(bs, &v, 1);
	printf("frame B: buffered_socket_writev() = %d, %zu bytes on the wire, to_write = %zu\n", ret_b, wire_len, bs->to_write);

	unsigned char expect[150];
	memcpy(expect, a, 100);
	memcpy(expect + 100, b, 50);
	int ok = (wire_len == 150) && (memcmp(wire, expect, 150) == 0);
	if (!ok && !closed) {
		size_t k = 0;
		while ((k < wire_len) && (k < 150) && (wire[k] == expect[k])) k++;
		printf("wire differs from A+B at offset %zu: bytes %zu.. of A were sent twice / the tail of A is lost; connection still open\n", k, k - 20);
		printf("DEFECT SHOWN: the byte stream of a connection that stays open is not the concatenation of whole frames\n");
		return 1;
	}
	printf("OK\n");
	return 0;
}
