#!/bin/sh
# usage: run.sh <cjet source tree>;  exit 0 = defect absent, 1 = defect shown
HERE=$(cd "$(dirname "$0")" && pwd)
SRC=$(cd "$1" && pwd)
T=$(mktemp -d)
cmake -S "$SRC" -B "$T/cfg" -G Ninja -DFEATURE_POST_BUILD_UNITTEST=OFF > "$T/cmake.log" 2>&1 || { cat "$T/cmake.log"; rm -rf "$T"; exit 2; }
gcc -std=gnu99 -D_GNU_SOURCE -g -O0 -w -I"$SRC/src" -I"$T/cfg/src" "$HERE/demo.c" "$SRC/src/buffered_socket.c" "$SRC/src/alloc.c" "$SRC/src/linux/jet_string.c" "$SRC/src/posix/jet_string.c" -o "$T/demo" || { rm -rf "$T"; exit 2; }
"$T/demo"; rc=$?
rm -rf "$T"
exit $rc
