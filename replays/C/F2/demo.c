/* F2: a password change that is answered with an ERROR (the credential file could not be replaced) must not take effect:
 * neither at once in memory, nor later on disk when somebody else's change rewrites the file. */
#include <unistd.h>
#include <errno.h>
#include "harness.h"
#include "authenticate.h"
#include "jet_random.h"

int __real_rename(const char *a, const char *b);
static int fail_rename;
int __wrap_rename(const char *a, const char *b)
{
	if (fail_rename) { errno = EBUSY; return -1; }
	return __real_rename(a, b);
}

static int copy_file(const char *from, const char *to)
{
	FILE *f = fopen(from, "rb");
	if (!f) return -1;
	FILE *g = fopen(to, "wb");
	char buf[4096];
	size_t n;
	while ((n = fread(buf, 1, sizeof buf, f)) > 0) fwrite(buf, 1, n, g);
	fclose(f);
	fclose(g);
	return 0;
}

static int auth(const char *user, const char *pw)
{
	char u[64], p[64];
	snprintf(u, sizeof u, "%s", user);
	snprintf(p, sizeof p, "%s", pw);
	return credentials_ok(u, p) != NULL;
}

int main(int argc, char **argv)
{
	setvbuf(stdout, NULL, _IONBF, 0);
	if (argc < 3) return 2;
	init_parser();
	init_random();
	if (copy_file(argv[1], argv[2]) < 0) return 2;
	if (load_passwd_data(argv[2]) < 0) { printf("load failed\n"); return 2; }
	int bad = 0;

	struct tpeer john;
	h_init_peer(&john, "john");
	char ju[] = "john", jp[] = "newsecret";
	john.peer.user_name = ju;
	cJSON *request = cJSON_Parse("{\"id\":1}");
	fail_rename = 1;
	cJSON *resp = change_password(&john.peer, request, ju, jp);
	fail_rename = 0;
	int is_error = resp == NULL || cJSON_GetObjectItem(resp, "error") != NULL;
	printf("john changes his password while rename() fails -> %s\n", is_error ? "error answer" : "SUCCESS answer");
	cJSON_Delete(resp);
	if (!is_error) { printf("unexpected: the change was not refused\n"); return 2; }
	int new_ok = auth("john", "newsecret"), old_ok = auth("john", "doe");
	printf("  right afterwards: new password %s, old password %s\n", new_ok ? "ACCEPTED" : "refused", old_ok ? "accepted" : "REFUSED");
	if (new_ok || !old_ok) { printf("DEFECT: the refused change is effective in memory\n"); bad = 1; }

	/* somebody else changes a password successfully: the file is rewritten from the in-memory database */
	struct tpeer adm;
	h_init_peer(&adm, "admin");
	char au[] = "john-admin", ap[] = "adminsecret";
	adm.peer.user_name = au;
	resp = change_password(&adm.peer, request, au, ap);
	int adm_error = resp == NULL || cJSON_GetObjectItem(resp, "error") != NULL;
	printf("john-admin changes his own password (file system healthy) -> %s\n", adm_error ? "error answer" : "success answer");
	cJSON_Delete(resp);
	free_passwd_data();
	if (load_passwd_data(argv[2]) < 0) { printf("reload failed\n"); return 2; }
	new_ok = auth("john", "newsecret"); old_ok = auth("john", "doe");
	printf("  after a reload of the file: john's new password %s, old password %s\n", new_ok ? "ACCEPTED" : "refused", old_ok ? "accepted" : "REFUSED");
	if (new_ok || !old_ok) { printf("DEFECT: the change that was answered with an error ended up on disk\n"); bad = 1; }
	cJSON_Delete(request);
	free_passwd_data();
	printf(bad ? "DEFECT SHOWN\n" : "OK\n");
	return bad;
}
