/* C3: add_element_to_peer() sends "add" events before it knows that the add will succeed. */
#include "harness.h"
#include "element.h"
#include "generated/cjet_config.h"

static int bad = 0;

/* every path for which `t` saw an "add" event must either exist or have been followed by "remove" */
static void check_events(struct tpeer *t, const char *path)
{
	char needle_add[128], needle_rem[128];
	snprintf(needle_add, sizeof needle_add, "\"path\":\"%s\",\"event\":\"add\"", path);
	snprintf(needle_rem, sizeof needle_rem, "\"path\":\"%s\",\"event\":\"remove\"", path);
	int adds = h_count(t, needle_add), rems = h_count(t, needle_rem);
	int exists = element_table_get(path) != NULL;
	printf("  %s: path %s exists=%d, saw add=%d remove=%d\n", t->tag, path, exists, adds, rems);
	if (!exists && adds != rems) {
		printf("  DEFECT: %s was told \"add\" for %s, which does not exist, and never got \"remove\"\n", t->tag, path);
		bad = 1;
	}
}

int main(int argc, char **argv)
{
	int scenario = argc > 1 ? atoi(argv[1]) : 1;
	struct tpeer s1, s2, owner;
	init_parser();
	element_hashtable_create();
	h_init_peer(&s1, "sub1");
	h_init_peer(&s2, "sub2");
	h_init_peer(&owner, "owner");
	h_req(&s1, "{\"id\":1,\"method\":\"fetch\",\"params\":{\"id\":\"f1\",\"path\":{\"startsWith\":\"a/\"}}}");
	h_req(&s2, "{\"id\":1,\"method\":\"fetch\",\"params\":{\"id\":\"f2\",\"path\":{\"startsWith\":\"a/\"}}}");

	if (scenario == 1) {
		printf("scenario 1: the second subscriber's send fails while the element is being added\n");
		s2.fail_sends = 1;
		h_req(&owner, "{\"id\":2,\"method\":\"add\",\"params\":{\"path\":\"a/x\",\"value\":1}}");
		s2.fail_sends = 0;
		printf("  owner got %s\n", h_count(&owner, "\"error\"") ? "ERROR" : "success");
		if (h_count(&owner, "\"error\"")) {
			check_events(&s1, "a/x");
			check_events(&s2, "a/x");
		}
		/* make sure nothing dangles: exercise the tables again */
		h_req(&owner, "{\"id\":3,\"method\":\"add\",\"params\":{\"path\":\"a/x\",\"value\":2}}");
		h_req(&owner, "{\"id\":4,\"method\":\"change\",\"params\":{\"path\":\"a/x\",\"value\":3}}");
		h_req(&s1, "{\"id\":5,\"method\":\"unfetch\",\"params\":{\"id\":\"f1\"}}");
		h_req(&owner, "{\"id\":6,\"method\":\"remove\",\"params\":{\"path\":\"a/x\"}}");
	} else {
		printf("scenario 2: element table full (CONFIG_ELEMENT_TABLE_ORDER = %d)\n", (int)CONFIG_ELEMENT_TABLE_ORDER);
		for (int i = 0; i < 40; i++) {
			char req[200], path[32];
			snprintf(path, sizeof path, "a/%d", i);
			snprintf(req, sizeof req, "{\"id\":%d,\"method\":\"add\",\"params\":{\"path\":\"%s\",\"value\":%d}}", 10 + i, path, i);
			h_clear(&owner);
			h_req(&owner, req);
			if (h_count(&owner, "element table full")) {
				printf("  owner got ERROR \"element table full\" for %s\n", path);
				check_events(&s1, path);
				check_events(&s2, path);
				break;
			}
		}
	}
	free_peer_resources(&owner.peer);
	free_peer_resources(&s2.peer);
	free_peer_resources(&s1.peer);
	if (bad) { printf("DEFECT SHOWN\n"); return 1; }
	printf("OK\n");
	return 0;
}
