#!/bin/sh
# usage: run.sh <cjet source tree>;  exit 0 = defect absent, 1 = defect shown
HERE=$(cd "$(dirname "$0")" && pwd)
T=$(mktemp -d)
"$HERE/../common/build_core.sh" "$1" "$T/demo" "$HERE/demo.c" || exit 2
GEN="$HERE/gen_small" "$HERE/../common/build_core.sh" "$1" "$T/demo_small" "$HERE/demo.c" || exit 2
rc=0
ASAN_OPTIONS=detect_leaks=0 "$T/demo" 1 || rc=1
ASAN_OPTIONS=detect_leaks=0 "$T/demo_small" 2 || rc=1
rm -rf "$T"
exit $rc
