/* C7: sweep a single allocation failure over create_error_response() and report leaks / memory errors.
 * Failures that hit the key copy inside cJSON_AddItemToObject() are the C8 class and reported separately. */
#include "harness.h"
#include "response.h"
#include "failalloc.h"

cJSON_bool __real_cJSON_AddItemToObject(cJSON *object, const char *string, cJSON *item);
static int additem_failed;
static const char *additem_key;
cJSON_bool __wrap_cJSON_AddItemToObject(cJSON *object, const char *string, cJSON *item)
{
	cJSON_bool r = __real_cJSON_AddItemToObject(object, string, item);
	if (!r && object != NULL && item != NULL) { additem_failed = 1; additem_key = string; }
	return r;
}

int main(void)
{
	struct tpeer p;
	int c7 = 0, c8 = 0;
	init_parser();
	h_init_peer(&p, "peer");
	cJSON *id = cJSON_CreateNumber(7);

	for (long n = 1;; n++) {
		size_t before = cjet_get_alloc_size();
		additem_failed = 0;
		fa_reset(n);
		cJSON *resp = create_error_response(&p.peer, id, INVALID_PARAMS, "reason", "some text");
		long seen = fa_count;
		fa_off();
		if (seen < n) {
			char *s = cJSON_PrintUnformatted(resp);
			printf("(no failure, %ld allocations) -> %s\n", seen, s);
			cJSON_free(s);
			cJSON_Delete(resp);
			break;
		}
		char *s = resp ? cJSON_PrintUnformatted(resp) : NULL;
		printf("allocation #%2ld fails: returns %s", n, s ? s : "NULL");
		if (s) cJSON_free(s);
		cJSON_Delete(resp);   /* ASan reports here if the tree holds freed nodes / double free */
		size_t after = cjet_get_alloc_size();
		if (after != before) {
			if (additem_failed) {
				printf("   [C8 class: key copy of \"%s\" failed] LEAK %zu bytes", additem_key, after - before);
				c8++;
			} else {
				printf("   LEAK %zu bytes (error-object ladder, C7)", after - before);
				c7++;
			}
		} else if (additem_failed) {
			printf("   [C8 class: key copy of \"%s\" failed]", additem_key);
			c8++;
		}
		printf("\n");
	}
	cJSON_Delete(id);
	printf("summary: %d leaking failure points in the create_error_object ladder (C7), %d key-copy failure points (C8 class)\n", c7, c8);
	if (c7) { printf("DEFECT SHOWN\n"); return 1; }
	printf("OK: no leak in the error-object ladder\n");
	return 0;
}
