/* T2: the auto-aligned entry point validates an input of 8 bytes or more in three pieces (head, aligned middle, tail) and AND-s their
 * verdicts - it goes on validating after a piece has been rejected.  is_byte_valid() re-arms the checker at the rejected byte, but
 * the following pieces run on and can leave it in the middle of a character.  For a fragment that is not the last one
 * (is_complete == false) nothing re-arms it then: the next text on that checker, a plain "A", is rejected.  The byte-wise entry point,
 * fed the same bytes, stops at the rejection and leaves a re-armed checker: the two presentations disagree about the next text. */
#include <stdio.h>
#include <string.h>
#include <stdint.h>
#include "utf8_checker.h"

int main(void)
{
	static uint8_t buf[32] __attribute__((aligned(8)));
	memset(buf, 'x', 24);
	buf[0] = 0xFF;      /* invalid: rejected in the first piece */
	buf[23] = 0xC2;     /* lead byte at the very end: leaves a character open */
	struct cjet_utf8_checker c, d;
	cjet_init_checker(&c);
	bool r1 = cjet_is_word_sequence_valid_auto_alligned(&c, buf + 1 - 1, 24, false);
	bool r2 = cjet_is_word_sequence_valid_auto_alligned(&c, "A", 1, true);
	printf("auto-aligned entry: fragment (ff ... c2) -> %s ; then \"A\" complete -> %s\n", r1 ? "valid" : "invalid", r2 ? "valid" : "INVALID");
	cjet_init_checker(&d);
	bool s1 = cjet_is_byte_sequence_valid(&d, buf, 24, false);
	bool s2 = cjet_is_byte_sequence_valid(&d, (const uint8_t *)"A", 1, true);
	printf("byte entry        : fragment (ff ... c2) -> %s ; then \"A\" complete -> %s\n", s1 ? "valid" : "invalid", s2 ? "valid" : "INVALID");
	if (r1 || s1) { printf("UNEXPECTED: the invalid fragment was accepted\n"); return 2; }
	if (r2 != s2 || !r2) { printf("DEFECT SHOWN: after a rejected fragment the two entry points disagree about the next text\n"); return 1; }
	printf("OK\n");
	return 0;
}
