#!/bin/sh
# usage: run.sh <cjet source tree>;  exit 0 = defect absent, 1 = defect shown
HERE=$(cd "$(dirname "$0")" && pwd)
T=$(mktemp -d)
gcc -std=gnu99 -g -O0 -w -I"$1/src" "$HERE/demo.c" "$1/src/utf8_checker.c" -o "$T/demo" || { rm -rf "$T"; exit 2; }
"$T/demo"; rc=$?
rm -rf "$T"
exit $rc
