/* C10: posix/auth_file.c write_user_data(): truncate-then-write-in-place and a broken short-write loop.
 * write(2)/ftruncate(2)/rename(2)/fsync(2) as called from auth_file.c are interposed with --wrap; the wrappers do the
 * real syscall (optionally short / failing) and look at the LIVE credential file at every step. */
#include <unistd.h>
#include <errno.h>
#include <fcntl.h>
#include <sys/stat.h>
#include "harness.h"
#include "authenticate.h"
#include "jet_random.h"

ssize_t __real_write(int fd, const void *buf, size_t n);
int __real_ftruncate(int fd, off_t len);

static char live_path[512];
static int mode;             /* 1 = short writes, 2 = second write fails with ENOSPC, 0 = pass through */
static int nwrites;
static int torn_states;      /* number of observation points at which the live file was neither old nor new */
static int tracing;

static char *slurp(const char *path, long *size)
{
	FILE *f = fopen(path, "rb");
	if (!f) { *size = -1; return NULL; }
	fseek(f, 0, SEEK_END); *size = ftell(f); fseek(f, 0, SEEK_SET);
	char *b = calloc(1, *size + 1);
	if (fread(b, 1, *size, f) != (size_t)*size) { }
	fclose(f);
	return b;
}

/* the live file is usable if it is complete JSON that contains a password for john */
static int live_file_ok(long *size)
{
	char *b = slurp(live_path, size);
	int ok = 0;
	if (b) {
		const char *end = NULL;
		cJSON *j = cJSON_ParseWithOpts(b, &end, 0);
		if (j) {
			cJSON *users = cJSON_GetObjectItem(j, "users");
			cJSON *john = users ? cJSON_GetObjectItem(users, "john") : NULL;
			cJSON *pw = john ? cJSON_GetObjectItem(john, "password") : NULL;
			while (end && (*end == '\n' || *end == ' ')) end++;
			ok = pw && pw->type == cJSON_String && end && *end == '\0';
			cJSON_Delete(j);
		}
		free(b);
	}
	return ok;
}

static void observe(const char *when)
{
	long size;
	if (!tracing) return;
	int ok = live_file_ok(&size);
	printf("    %-34s live file: %5ld bytes, %s\n", when, size, ok ? "complete credential set" : "NEITHER OLD NOR NEW (unusable)");
	if (!ok) torn_states++;
}

int __wrap_ftruncate(int fd, off_t len)
{
	int r = __real_ftruncate(fd, len);
	observe("after ftruncate(fd, 0)");
	return r;
}

ssize_t __wrap_write(int fd, const void *buf, size_t n)
{
	if (!tracing) return __real_write(fd, buf, n);
	nwrites++;
	if (mode == 2 && nwrites == 2) {
		observe("write #2 fails with ENOSPC");
		errno = ENOSPC;
		return -1;
	}
	size_t todo = n;
	if (mode == 1 && n > 300) todo = 300;               /* a legal short write */
	if (mode == 2 && nwrites == 1 && n > 300) todo = 300;
	ssize_t r = __real_write(fd, buf, todo);
	char what[64];
	snprintf(what, sizeof what, "after write #%d (%zd of %zu bytes)", nwrites, r, n);
	observe(what);
	return r;
}

static int copy_file(const char *from, const char *to)
{
	long size;
	char *b = slurp(from, &size);
	if (!b) return -1;
	FILE *f = fopen(to, "wb");
	fwrite(b, 1, size, f);
	fclose(f);
	free(b);
	return 0;
}

int main(int argc, char **argv)
{
	setvbuf(stdout, NULL, _IONBF, 0);
	if (argc < 4) return 2;
	mode = atoi(argv[1]);
	snprintf(live_path, sizeof live_path, "%s", argv[3]);
	if (copy_file(argv[2], live_path) < 0) { printf("cannot copy %s\n", argv[2]); return 2; }
	init_parser();
	init_random();
	if (load_passwd_data(live_path) < 0) { printf("load_passwd_data failed\n"); return 2; }
	long old_size;
	char *old_content = slurp(live_path, &old_size);

	struct tpeer p;
	h_init_peer(&p, "john");
	char user[] = "john", pw[] = "secret";
	p.peer.user_name = user;
	cJSON *request = cJSON_Parse("{\"id\":1}");
	printf(mode == 1 ? "change_password with write(2) returning short counts (300 bytes per call)\n"
	                 : "change_password with write #1 short and write #2 failing with ENOSPC\n");
	tracing = 1;
	cJSON *resp = change_password(&p.peer, request, user, pw);
	tracing = 0;
	char *r = cJSON_PrintUnformatted(resp);
	int is_error = cJSON_GetObjectItem(resp, "error") != NULL;
	printf("  response: %s\n", r);

	long size;
	int ok = live_file_ok(&size);
	char *new_content = slurp(live_path, &size);
	int unchanged = new_content && size == old_size && memcmp(new_content, old_content, size) == 0;
	printf("  final live file: %ld bytes, %s%s\n", size, ok ? "complete credential set" : "CORRUPT / not parseable", unchanged ? " (unchanged old content)" : "");

	int bad = 0;
	if (!ok) { printf("  DEFECT: credential file is corrupt after change_password\n"); bad = 1; }
	if (is_error && !unchanged) { printf("  DEFECT: request answered with an error but the file is no longer the old one\n"); bad = 1; }
	if (torn_states) { printf("  DEFECT: at %d point(s) a crash would have left neither the old nor the new credential set on disk\n", torn_states); bad = 1; }
	if (ok && !is_error) {
		/* the new password must work after a reload */
		p.peer.user_name = NULL;
		free_passwd_data();
		load_passwd_data(live_path);
		char pw2[] = "secret";
		if (credentials_ok("john", pw2) == NULL) { printf("  DEFECT: new password not accepted after reload\n"); bad = 1; }
	}
	if (bad) { printf("DEFECT SHOWN\n"); return 1; }
	printf("OK\n");
	return 0;
}
