/* V1: an empty PONG (or an empty message of any kind) is handed down as (NULL, 0); pong_received() of the daemon's own websocket peer
 * does memcpy(buffer, msg, len) with it.  memcpy() with a null pointer is undefined behaviour even for length 0 (C11 7.24.1p2; glibc
 * declares both pointers nonnull, so the compiler may assume msg != NULL afterwards).  Shown with UBSan on the real code: handshake,
 * then the six bytes 8A 80 m m m m (FIN, PONG, masked, length 0). */
#include <unistd.h>
#include <fcntl.h>
#include <signal.h>
#include <sys/socket.h>
#include "harness.h"
#include "buffered_socket.h"
#include "http_connection.h"
#include "http_server.h"
#include "websocket.h"
#include "websocket_peer.h"

int main(void)
{
	setvbuf(stdout, NULL, _IONBF, 0);
	signal(SIGPIPE, SIG_IGN);
	init_parser();
	static const struct url_handler handler[] = {{
		.request_target = "/api/jet/",
		.create = alloc_websocket_peer,
		.on_header_field = websocket_upgrade_on_header_field,
		.on_header_value = websocket_upgrade_on_header_value,
		.on_headers_complete = websocket_upgrade_on_headers_complete,
	}};
	static struct http_server server;
	server.ev.loop = &h_loop;
	server.handler = handler;
	server.num_handlers = 1;

	int sv[2];
	socketpair(AF_UNIX, SOCK_STREAM, 0, sv);
	fcntl(sv[0], F_SETFL, fcntl(sv[0], F_GETFL) | O_NONBLOCK);
	fcntl(sv[1], F_SETFL, fcntl(sv[1], F_GETFL) | O_NONBLOCK);
	/* mirror of linux_io.c:handle_http() */
	struct http_connection *connection = alloc_http_connection();
	struct buffered_socket *bs = buffered_socket_acquire();
	buffered_socket_init(bs, sv[0], &h_loop, free_connection, connection);
	struct buffered_reader br;
	br.this_ptr = bs;
	br.close = buffered_socket_close;
	br.read_exactly = buffered_socket_read_exactly;
	br.read_until = buffered_socket_read_until;
	br.set_error_handler = buffered_socket_set_error;
	br.writev = buffered_socket_writev;
	init_http_connection(connection, &server, &br, true);

	static const char request[] = "GET /api/jet/ HTTP/1.1\r\nHost: localhost\r\nUpgrade: websocket\r\nConnection: Upgrade\r\n"
		"Sec-WebSocket-Key: dGhlIHNhbXBsZSBub25jZQ==\r\nSec-WebSocket-Version: 13\r\nSec-WebSocket-Protocol: jet\r\n\r\n";
	if (write(sv[1], request, strlen(request)) < 0) return 2;
	bs->ev.read_function(&bs->ev);
	char buf[512];
	ssize_t n = read(sv[1], buf, sizeof(buf) - 1);
	if (n < 12 || strncmp(buf, "HTTP/1.1 101", 12) != 0) { printf("UNEXPECTED: no 101\n"); return 2; }
	printf("upgraded; sending an empty masked PONG (8a 80 + mask)\n");
	static const unsigned char pong[] = {0x8a, 0x80, 0x11, 0x22, 0x33, 0x44};
	if (write(sv[1], pong, sizeof(pong)) < 0) return 2;
	bs->ev.read_function(&bs->ev);   /* UBSan (-fno-sanitize-recover) ends the process here when memcpy is given NULL */
	printf("the daemon code processed the frame without undefined behaviour\nOK\n");
	return 0;
}
