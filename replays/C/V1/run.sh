#!/bin/sh
# usage: run.sh <cjet source tree>;  exit 0 = defect absent, 1 = defect shown (UBSan: null pointer passed to memcpy)
HERE=$(cd "$(dirname "$0")" && pwd)
T=$(mktemp -d)
SAN="-fsanitize=address,undefined -fno-sanitize-recover=undefined" "$HERE/../common/build_full.sh" "$1" "$T/demo" "$HERE/demo.c" || exit 2
ASAN_OPTIONS=detect_leaks=0 UBSAN_OPTIONS=print_stacktrace=1 "$T/demo" > "$T/out" 2>&1; rc=$?
cat "$T/out" | head -20
rm -rf "$T"
if [ $rc -eq 0 ]; then exit 0; fi
echo "DEFECT SHOWN: undefined behaviour while processing an empty PONG"
exit 1
