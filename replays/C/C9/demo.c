/* C9: an allocation failure while forwarding the owner's reply closes the OWNER's connection.
 * Two real socket_peers over socketpairs (real buffered_socket.c / socket_peer.c / parse.c / router.c), no-op event
 * loop; the harness fires the read events itself. */
#include <unistd.h>
#include <fcntl.h>
#include <errno.h>
#include <arpa/inet.h>
#include <sys/socket.h>
#include "harness.h"
#include "failalloc.h"
#include "buffered_socket.h"
#include "socket_peer.h"
#include "element.h"

/* fail the first allocation made inside the next cJSON_Duplicate() called from another TU (router.c) */
cJSON *__real_cJSON_Duplicate(const cJSON *item, cJSON_bool recurse);
static int arm_duplicate_failure;
cJSON *__wrap_cJSON_Duplicate(const cJSON *item, cJSON_bool recurse)
{
	if (arm_duplicate_failure) {
		arm_duplicate_failure = 0;
		fa_reset(1);
		cJSON *r = __real_cJSON_Duplicate(item, recurse);
		fa_off();
		printf("    (allocation inside cJSON_Duplicate() of the reply failed -> %p)\n", (void *)r);
		return r;
	}
	return __real_cJSON_Duplicate(item, recurse);
}

struct conn { int client; struct buffered_socket *bs; struct socket_peer *peer; const char *tag; };

static void connect_peer(struct conn *c, const char *tag)
{
	int sv[2];
	socketpair(AF_UNIX, SOCK_STREAM, 0, sv);
	fcntl(sv[0], F_SETFL, fcntl(sv[0], F_GETFL) | O_NONBLOCK);
	fcntl(sv[1], F_SETFL, fcntl(sv[1], F_GETFL) | O_NONBLOCK);
	c->client = sv[1];
	c->tag = tag;
	/* mirror of linux_io.c:handle_new_jet_connection() */
	c->peer = alloc_jet_peer();
	c->bs = buffered_socket_acquire();
	buffered_socket_init(c->bs, sv[0], &h_loop, free_peer_on_error, c->peer);
	struct buffered_reader br;
	br.this_ptr = c->bs;
	br.close = buffered_socket_close;
	br.read_exactly = buffered_socket_read_exactly;
	br.read_until = buffered_socket_read_until;
	br.set_error_handler = buffered_socket_set_error;
	br.writev = buffered_socket_writev;
	init_socket_peer(c->peer, &br, true);
}

static enum eventloop_return client_sends(struct conn *c, const char *json)
{
	uint32_t len = htonl(strlen(json));
	printf("  [%s] -> %s\n", c->tag, json);
	write(c->client, &len, 4);
	write(c->client, json, strlen(json));
	return c->bs->ev.read_function(&c->bs->ev);   /* what the epoll loop would do */
}

/* returns 1 and the message, 0 if nothing there, -1 on EOF */
static int client_reads(struct conn *c, char *buf, size_t size)
{
	uint32_t len;
	ssize_t n = read(c->client, &len, 4);
	if (n == 0) return -1;
	if (n < 0) return 0;
	len = ntohl(len);
	if (len >= size) len = size - 1;
	n = read(c->client, buf, len);
	buf[n > 0 ? n : 0] = 0;
	printf("    [%s] <- %s\n", c->tag, buf);
	return 1;
}

int main(void)
{
	struct conn owner, requester;
	char buf[512], rid[128] = "";
	setvbuf(stdout, NULL, _IONBF, 0);
	init_parser();
	element_hashtable_create();
	connect_peer(&owner, "owner");
	connect_peer(&requester, "requester");

	client_sends(&owner, "{\"id\":1,\"method\":\"add\",\"params\":{\"path\":\"a/x\",\"value\":1}}");
	client_reads(&owner, buf, sizeof buf);
	client_sends(&requester, "{\"id\":7,\"method\":\"set\",\"params\":{\"path\":\"a/x\",\"value\":2}}");
	if (client_reads(&owner, buf, sizeof buf) == 1) {
		cJSON *m = cJSON_Parse(buf);
		snprintf(rid, sizeof rid, "%s", cJSON_GetObjectItem(m, "id")->valuestring);
		cJSON_Delete(m);
	}
	printf("peers connected: %d; owner now answers the routed request, the copy of its reply cannot be allocated\n", get_number_of_peers());
	snprintf(buf, sizeof buf, "{\"id\":\"%s\",\"result\":true}", rid);
	arm_duplicate_failure = 1;
	enum eventloop_return r = client_sends(&owner, buf);

	int owner_eof = client_reads(&owner, buf, sizeof buf) == -1;
	int req_answer = client_reads(&requester, buf, sizeof buf) == 1;
	printf("after the reply: peers connected: %d, owner's read event returned %s, owner's socket %s, state a/x %s, requester %s\n",
	       get_number_of_peers(), r == EL_EVENT_REMOVED ? "EL_EVENT_REMOVED" : "EL_CONTINUE_LOOP",
	       owner_eof ? "CLOSED BY SERVER" : "open", element_table_get("a/x") ? "exists" : "REMOVED",
	       req_answer ? "got an answer" : "got NO answer");
	if (owner_eof || get_number_of_peers() != 2) {
		printf("DEFECT SHOWN: the owner (a third party that merely replied) was disconnected and its states dropped\n");
		return 1;
	}
	if (!req_answer) { printf("DEFECT: requester never gets an answer (timer already destroyed)\n"); return 1; }
	printf("OK: owner stays connected, requester got an error answer\n");
	return 0;
}
