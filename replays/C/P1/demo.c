/* P1: "a path names at most one element; add succeeds exactly when the path is free; requests on unknown paths are refused".
 * JSON strings may contain the escape \u0000. The bundled cJSON decodes it into a 0 byte inside a C string, so everything behind it
 * is invisible to cjet: "x", "x\u0000one" and "x\u0000two" are three different paths for the client and one for the daemon.
 * Accepted outcome: the daemon refuses such a message as a whole (it cannot carry the string), or treats the paths as distinct. */
#include <unistd.h>
#include "harness.h"
#include "element.h"

static int req(struct tpeer *t, const char *json)
{
	int before = t->nmsg;
	int ret = parse_message(json, strlen(json), &t->peer);
	printf("  [%s] %s\n      -> %s%s\n", t->tag, json, ret < 0 ? "message refused (the connection would be closed)" : "", t->nmsg > before ? t->msg[t->nmsg - 1] : "");
	return ret;
}

int main(void)
{
	setvbuf(stdout, NULL, _IONBF, 0);
	init_parser();
	if (element_hashtable_create() < 0) return 2;
	struct tpeer a, b;
	h_init_peer(&a, "A");
	h_init_peer(&b, "B");
	int bad = 0;
	int r1 = req(&a, "{\"id\":1,\"method\":\"add\",\"params\":{\"path\":\"x\\u0000one\",\"value\":1}}");
	int added = r1 == 0 && h_count(&a, "\"result\":true") > 0;
	if (added) {
		h_clear(&b);
		int r2 = req(&b, "{\"id\":2,\"method\":\"add\",\"params\":{\"path\":\"x\\u0000two\",\"value\":2}}");
		if (r2 == 0 && h_count(&b, "exists") > 0) { printf("  => a FREE path is refused as existing\n"); bad = 1; }
		h_clear(&a);
		int r3 = req(&a, "{\"id\":3,\"method\":\"change\",\"params\":{\"path\":\"x\\u0000whatever\",\"value\":3}}");
		if (r3 == 0 && h_count(&a, "\"result\":true") > 0) { printf("  => a change on an UNKNOWN path succeeds\n"); bad = 1; }
		h_clear(&a);
		int r4 = req(&a, "{\"id\":4,\"method\":\"remove\",\"params\":{\"path\":\"x\\u0000zzz\"}}");
		if (r4 == 0 && h_count(&a, "\"result\":true") > 0) { printf("  => a remove of an UNKNOWN path succeeds\n"); bad = 1; }
	}
	printf(bad ? "DEFECT SHOWN\n" : "OK\n");
	return bad;
}
