/* Failure-injecting allocator: link with -Wl,--wrap=malloc,--wrap=calloc.
 * Only references from the linked objects (alloc.c, cJSON.c, ...) are wrapped,
 * libc internals are untouched. */
#include <stddef.h>
#include "failalloc.h"

void *__real_malloc(size_t);
void *__real_calloc(size_t, size_t);

long fa_count = 0;      /* allocations seen since fa_reset() */
long fa_fail_at = 0;    /* fail the fa_fail_at-th allocation (1-based), 0 = never */
long fa_fail_from = 0;  /* fail every allocation with index >= fa_fail_from, 0 = never */
int fa_active = 0;

void fa_reset(long fail_at) { fa_count = 0; fa_fail_at = fail_at; fa_fail_from = 0; fa_active = 1; }
void fa_off(void) { fa_active = 0; fa_fail_at = 0; fa_fail_from = 0; }

static int should_fail(void)
{
	if (!fa_active) return 0;
	fa_count++;
	if (fa_fail_at && fa_count == fa_fail_at) return 1;
	if (fa_fail_from && fa_count >= fa_fail_from) return 1;
	return 0;
}

#ifdef FA_TRACK
static void fa_add(void *p, size_t n);
#else
#define fa_add(p, n) ((void)0)
#endif
void *__wrap_malloc(size_t n) { if (should_fail()) return NULL; void *p = __real_malloc(n); fa_add(p, n); return p; }
void *__wrap_calloc(size_t a, size_t b) { if (should_fail()) return NULL; void *p = __real_calloc(a, b); fa_add(p, a * b); return p; }

#ifdef FA_TRACK
/* optional live-allocation tracker: link additionally with -Wl,--wrap=free,--wrap=realloc -DFA_TRACK */
void *__real_realloc(void *, size_t);
void __real_free(void *);
#define FA_MAX 8192
static struct { void *p; size_t n; } fa_tab[FA_MAX];
static void fa_add(void *p, size_t n) { if (!p) return; for (int i = 0; i < FA_MAX; i++) if (!fa_tab[i].p) { fa_tab[i].p = p; fa_tab[i].n = n; return; } }
static void fa_del(void *p) { if (!p) return; for (int i = 0; i < FA_MAX; i++) if (fa_tab[i].p == p) { fa_tab[i].p = 0; return; } }
size_t fa_live_bytes(void) { size_t s = 0; for (int i = 0; i < FA_MAX; i++) if (fa_tab[i].p) s += fa_tab[i].n; return s; }
int fa_live_blocks(void) { int c = 0; for (int i = 0; i < FA_MAX; i++) if (fa_tab[i].p) c++; return c; }
void fa_list(void) { for (int i = 0; i < FA_MAX; i++) if (fa_tab[i].p) __builtin_printf("      still allocated: %zu bytes at %p\n", fa_tab[i].n, fa_tab[i].p); }
void fa_forget_all(void) { for (int i = 0; i < FA_MAX; i++) fa_tab[i].p = 0; }
void *__wrap_malloc_tracked(size_t n);
void *__wrap_realloc(void *p, size_t n)
{
	if (should_fail()) return NULL;
	void *q = __real_realloc(p, n);
	if (q || n == 0) fa_del(p);
	fa_add(q, n);
	return q;
}
void __wrap_free(void *p) { fa_del(p); __real_free(p); }
#endif
