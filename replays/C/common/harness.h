/* Shared harness helpers: fake event loop + recording peers. */
#ifndef HARNESS_H
#define HARNESS_H
#include <stdio.h>
#include <stdlib.h>
#include <string.h>
#include <stdbool.h>
#include "alloc.h"
#include "eventloop.h"
#include "peer.h"
#include "parse.h"
#include "table.h"
#include "json/cJSON.h"

static enum eventloop_return h_add(const void *t, const struct io_event *ev) { (void)t; (void)ev; return EL_CONTINUE_LOOP; }
static void h_remove(void *t, const struct io_event *ev) { (void)t; (void)ev; }
static struct eventloop h_loop = { NULL, NULL, NULL, NULL, h_add, h_remove };

#define H_MAXMSG 64
struct tpeer {
	struct peer peer;            /* must be first */
	const char *tag;
	int fail_sends;              /* !=0: send_message returns -1 */
	const char *fail_if_contains;/* fail only messages containing this */
	int nmsg;
	char *msg[H_MAXMSG];
};

static int h_send(const struct peer *p, char *rendered, size_t len)
{
	struct tpeer *t = (struct tpeer *)(uintptr_t)p;
	(void)len;
	if (t->fail_sends && (t->fail_if_contains == NULL || strstr(rendered, t->fail_if_contains) != NULL)) {
		printf("    [%s] send FAILS for: %s\n", t->tag, rendered);
		return -1;
	}
	printf("    [%s] <- %s\n", t->tag, rendered);
	if (t->nmsg < H_MAXMSG) t->msg[t->nmsg++] = strdup(rendered);
	return 0;
}
static void h_close(struct peer *p) { (void)p; }

static int h_init_peer(struct tpeer *t, const char *tag)
{
	memset(t, 0, sizeof(*t));
	t->tag = tag;
	t->peer.send_message = h_send;
	t->peer.close = h_close;
	return init_peer(&t->peer, true, &h_loop);
}
static void h_clear(struct tpeer *t) { for (int i = 0; i < t->nmsg; i++) free(t->msg[i]); t->nmsg = 0; }
static int h_count(const struct tpeer *t, const char *needle)
{
	int n = 0;
	for (int i = 0; i < t->nmsg; i++) if (strstr(t->msg[i], needle)) n++;
	return n;
}
static int h_req(struct tpeer *t, const char *json)
{
	printf("  [%s] -> %s\n", t->tag, json);
	return parse_message(json, strlen(json), &t->peer);
}
#endif
