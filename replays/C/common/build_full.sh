#!/bin/sh
# usage: build_full.sh <srctree> <outbin> <harness.c> [extra cc args...]
# Links every real daemon translation unit except posix/main.c, linux/linux_io.c and linux/eventloop_epoll.c.
set -e
SRC=$1/src; OUT=$2; H=$3; shift 3
COMMON=$(cd "$(dirname "$0")" && pwd)
GEN=${GEN:-$COMMON}
ALL="alloc.c authenticate.c base64.c buffered_socket.c compression.c config.c element.c fetch.c groups.c
 http-parser/http_parser.c http_connection.c http_server.c info.c jet_string.c json/cJSON.c parse.c peer.c
 response.c router.c sha1/sha1.c socket_peer.c table.c timer.c utf8_checker.c websocket.c websocket_peer.c
 linux/jet_endian.c linux/jet_string.c linux/random.c linux/timer_linux.c
 posix/auth_file.c posix/jet_string.c posix/log.c posix/socket.c
 zlib/adler32.c zlib/deflate.c zlib/inffast.c zlib/inflate.c zlib/inftrees.c zlib/trees.c zlib/zutil.c"
FILES=""
for f in $ALL; do FILES="$FILES $SRC/$f"; done
${CC:-gcc} -std=gnu99 -D_GNU_SOURCE -DNO_GZIP -g -O0 -fno-omit-frame-pointer ${SAN--fsanitize=address,undefined} \
  -I"$GEN" -I"$SRC" -I"$COMMON" -w \
  $FILES "$COMMON/failalloc.c" "$H" -Wl,--wrap=malloc,--wrap=calloc "$@" -lcrypt -lm -o "$OUT"
