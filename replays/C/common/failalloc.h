#ifndef FAILALLOC_H
#define FAILALLOC_H
extern long fa_count, fa_fail_at, fa_fail_from;
extern int fa_active;
void fa_reset(long fail_at);
void fa_off(void);
/* only with -DFA_TRACK and -Wl,--wrap=free,--wrap=realloc */
size_t fa_live_bytes(void);
int fa_live_blocks(void);
void fa_list(void);
void fa_forget_all(void);
#endif
