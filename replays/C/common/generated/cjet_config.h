/*
 *The MIT License (MIT)
 *
 * Copyright (c) <2014> <Stephan Gatzka>
 *
 * Permission is hereby granted, free of charge, to any person obtaining
 * a copy of this software and associated documentation files (the
 * "Software"), to deal in the Software without restriction, including
 * without limitation the rights to use, copy, modify, merge, publish,
 * distribute, sublicense, and/or sell copies of the Software, and to
 * permit persons to whom the Software is furnished to do so, subject to
 * the following conditions:
 *
 * The above copyright notice and this permission notice shall be
 * included in all copies or substantial portions of the Software.
 *
 * THE SOFTWARE IS PROVIDED "AS IS", WITHOUT WARRANTY OF ANY KIND,
 * EXPRESS OR IMPLIED, INCLUDING BUT NOT LIMITED TO THE WARRANTIES OF
 * MERCHANTABILITY, FITNESS FOR A PARTICULAR PURPOSE AND
 * NONINFRINGEMENT. IN NO EVENT SHALL THE AUTHORS OR COPYRIGHT HOLDERS
 * BE LIABLE FOR ANY CLAIM, DAMAGES OR OTHER LIABILITY, WHETHER IN AN
 * ACTION OF CONTRACT, TORT OR OTHERWISE, ARISING FROM, OUT OF OR IN
 * CONNECTION WITH THE SOFTWARE OR THE USE OR OTHER DEALINGS IN THE
 * SOFTWARE.
 */

#ifndef CJET_CONFIG_H
#define CJET_CONFIG_H

#include <stdbool.h>
#include <stddef.h>

enum {CONFIG_JET_PORT = 23122};
enum {CONFIG_JETWS_PORT = 23123};
enum {CONFIG_LISTEN_BACKLOG = 40};

enum {CONFIG_CHECK_JSON_LENGTH = 0};

/*
 * It is somehow beneficial if this size is 32 bit aligned.
 */
enum {CONFIG_MAX_MESSAGE_SIZE = 512};
enum {CONFIG_MAX_WRITE_BUFFER_SIZE = 5120};

/*
 * This parameter configures the maximum amount of states that can be
 * handled in a jet. The number of states is 2^ELEMENT_TABLE_ORDER.
 */
enum {CONFIG_ELEMENT_TABLE_ORDER = 13};

/*
 * This parameter configures the maximum ongoing routed messages per
 * peer.
 */
enum {CONFIG_ROUTING_TABLE_ORDER = 6};

enum {CONFIG_INITIAL_FETCH_TABLE_SIZE = 4};

/*
 * This parameter configures the default timeout of routed messages if
 * not specified otherwise.
 */
static const double CONFIG_ROUTED_MESSAGES_TIMEOUT = 5.0;

/*
 * This parameter configures how many matchers are allowed in a single fetch expression.
 */
enum {CONFIG_MAX_NUMBERS_OF_MATCHERS_IN_FETCH = 12};

/*
 * This parameter configures if "add" of states or methods is only allowed from localhost peers.
 */
static const bool CONFIG_ALLOW_ADD_ONLY_FROM_LOCALHOST = false;

/*
 * This parameter configures how much memory cjet might allocate from heap
 */
static const size_t CONFIG_MAX_HEAPSIZE_IN_KBYTE = 20480;

#endif
