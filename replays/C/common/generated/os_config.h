/*
 *The MIT License (MIT)
 *
 * Copyright (c) <2014> <Stephan Gatzka>
 *
 * Permission is hereby granted, free of charge, to any person obtaining
 * a copy of this software and associated documentation files (the
 * "Software"), to deal in the Software without restriction, including
 * without limitation the rights to use, copy, modify, merge, publish,
 * distribute, sublicense, and/or sell copies of the Software, and to
 * permit persons to whom the Software is furnished to do so, subject to
 * the following conditions:
 *
 * The above copyright notice and this permission notice shall be
 * included in all copies or substantial portions of the Software.
 *
 * THE SOFTWARE IS PROVIDED "AS IS", WITHOUT WARRANTY OF ANY KIND,
 * EXPRESS OR IMPLIED, INCLUDING BUT NOT LIMITED TO THE WARRANTIES OF
 * MERCHANTABILITY, FITNESS FOR A PARTICULAR PURPOSE AND
 * NONINFRINGEMENT. IN NO EVENT SHALL THE AUTHORS OR COPYRIGHT HOLDERS
 * BE LIABLE FOR ANY CLAIM, DAMAGES OR OTHER LIABILITY, WHETHER IN AN
 * ACTION OF CONTRACT, TORT OR OTHERWISE, ARISING FROM, OUT OF OR IN
 * CONNECTION WITH THE SOFTWARE OR THE USE OR OTHER DEALINGS IN THE
 * SOFTWARE.
 */

#ifndef CJET_LINUX_CONFIG_H
#define CJET_LINUX_CONFIG_H

/* Linux specific configs */

enum {CONFIG_MAX_EPOLL_EVENTS = 10};

#define UDS_FILE "/var/run/jet.socket"
#define WEBSOCKET_PATH "/api/jet/"

typedef int socket_type;

#endif
