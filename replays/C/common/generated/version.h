#ifndef CJET_VERSION_H
#define CJET_VERSION_H

#define CJET_VERSION "1.10.0" "-harness"

static const char CJET_NAME[] = "cjet";

#endif
