#!/bin/sh
# usage: build_core.sh <srctree> <outbin> <harness.c> [extra cc args...]
# Links the real, unmodified core translation units of <srctree>/src with the harness.
set -e
SRC=$1/src; OUT=$2; H=$3; shift 3
COMMON=$(cd "$(dirname "$0")" && pwd)
GEN=${GEN:-$COMMON}
CORE="alloc.c authenticate.c config.c element.c fetch.c groups.c info.c jet_string.c json/cJSON.c
 linux/jet_string.c parse.c peer.c posix/jet_string.c response.c router.c table.c timer.c
 linux/timer_linux.c linux/random.c posix/socket.c posix/auth_file.c posix/log.c"
FILES=""
for f in $CORE; do FILES="$FILES $SRC/$f"; done
${CC:-gcc} -std=gnu99 -D_GNU_SOURCE -g -O0 -fno-omit-frame-pointer ${SAN--fsanitize=address,undefined} \
  -I"$GEN" -I"$SRC" -I"$COMMON" -w \
  $FILES "$COMMON/failalloc.c" "$H" -Wl,--wrap=malloc,--wrap=calloc "$@" -lcrypt -lm -o "$OUT"
