/* H2: what the daemon does with a connection's input must not depend on how readiness events are grouped.
 * A peer on the local (AF_UNIX) socket sends its last message and closes. If the daemon looks at the socket between the two,
 * it sees EPOLLIN, processes the message, and sees the hang-up later. If both have happened before the daemon looks, epoll reports
 * EPOLLIN|EPOLLHUP in ONE entry - and handle_events() treats every entry with a bit besides IN/OUT as an error without reading.
 * Real eventloop_epoll.c, buffered_socket.c, socket_peer.c and jet core; AF_UNIX socketpairs as in the local listener. */
#include <unistd.h>
#include <signal.h>
#include <fcntl.h>
#include <errno.h>
#include <arpa/inet.h>
#include <sys/socket.h>
#include "harness.h"
#include "buffered_socket.h"
#include "socket_peer.h"
#include "element.h"
#include "linux/eventloop_epoll.h"

static struct eventloop_epoll eloop = {
	.epoll_fd = 0,
	.loop = {.this_ptr = &eloop, .init = eventloop_epoll_init, .destroy = eventloop_epoll_destroy, .run = eventloop_epoll_run,
	         .add = eventloop_epoll_add, .remove = eventloop_epoll_remove},
};

struct conn { int client; struct buffered_socket *bs; struct socket_peer *peer; const char *tag; };

static void connect_peer(struct conn *c, const char *tag)
{
	int sv[2];
	socketpair(AF_UNIX, SOCK_STREAM, 0, sv);
	fcntl(sv[0], F_SETFL, fcntl(sv[0], F_GETFL) | O_NONBLOCK);
	fcntl(sv[1], F_SETFL, fcntl(sv[1], F_GETFL) | O_NONBLOCK);
	c->client = sv[1];
	c->tag = tag;
	/* mirror of linux_io.c:handle_new_jet_connection() */
	c->peer = alloc_jet_peer();
	c->bs = buffered_socket_acquire();
	buffered_socket_init(c->bs, sv[0], &eloop.loop, free_peer_on_error, c->peer);
	struct buffered_reader br;
	br.this_ptr = c->bs;
	br.close = buffered_socket_close;
	br.read_exactly = buffered_socket_read_exactly;
	br.read_until = buffered_socket_read_until;
	br.set_error_handler = buffered_socket_set_error;
	br.writev = buffered_socket_writev;
	init_socket_peer(c->peer, &br, true);
}

static void client_sends(struct conn *c, const char *json)
{
	uint32_t len = htonl(strlen(json));
	write(c->client, &len, 4);
	write(c->client, json, strlen(json));
}

/* one look of the daemon at its sockets: a pipe registered with the loop stops it after the batch that is ready now */
static int go_ahead;
static int stop_pipe[2];
static enum eventloop_return stop_read(struct io_event *ev)
{
	char b[8];
	(void)read(ev->sock, b, sizeof b);
	go_ahead = 0;
	return EL_CONTINUE_LOOP;
}
static enum eventloop_return stop_err(struct io_event *ev) { (void)ev; return EL_CONTINUE_LOOP; }
static struct io_event stop_ev;
static void daemon_looks(void)
{
	go_ahead = 1;
	(void)write(stop_pipe[1], "x", 1);
	eloop.loop.run(eloop.loop.this_ptr, &go_ahead);
}

static int collect(struct conn *c, char *out, size_t size)
{
	size_t used = 0;
	out[0] = 0;
	for (;;) {
		uint32_t len;
		ssize_t n = read(c->client, &len, 4);
		if (n != 4) break;
		len = ntohl(len);
		char buf[2048];
		if (len >= sizeof buf) len = sizeof buf - 1;
		n = read(c->client, buf, len);
		buf[n > 0 ? n : 0] = 0;
		const char *ev = strstr(buf, "\"event\":\"");
		if (ev) {
			char name[16] = "";
			sscanf(ev + 9, "%15[a-z]", name);
			const char *val = strstr(buf, "\"value\":");
			used += snprintf(out + used, size - used, "%s%s%.12s ", name, val ? ":" : "", val ? val + 8 : "");
		}
	}
	return (int)used;
}

static void scenario(int look_between, char *seen, size_t size)
{
	struct conn fetcher, owner;
	connect_peer(&fetcher, "fetcher");
	connect_peer(&owner, "owner");
	client_sends(&fetcher, "{\"id\":1,\"method\":\"fetch\",\"params\":{\"id\":\"f\",\"path\":{\"startsWith\":\"demo\"}}}");
	daemon_looks();
	client_sends(&owner, "{\"id\":1,\"method\":\"add\",\"params\":{\"path\":\"demo/state\",\"value\":1}}");
	daemon_looks();
	client_sends(&owner, "{\"id\":2,\"method\":\"change\",\"params\":{\"path\":\"demo/state\",\"value\":2}}");
	if (look_between) daemon_looks();
	close(owner.client);              /* the owner is done and leaves */
	daemon_looks();
	daemon_looks();
	collect(&fetcher, seen, size);
	close(fetcher.client);
	daemon_looks();
}

int main(void)
{
	setvbuf(stdout, NULL, _IONBF, 0);
	signal(SIGPIPE, SIG_IGN);   /* as the daemon does */
	init_parser();
	if (element_hashtable_create() < 0) return 2;
	if (eloop.loop.init(eloop.loop.this_ptr) < 0) return 2;
	if (pipe(stop_pipe) < 0) return 2;
	fcntl(stop_pipe[0], F_SETFL, O_NONBLOCK);
	stop_ev.loop = &eloop.loop;
	stop_ev.sock = stop_pipe[0];
	stop_ev.read_function = stop_read;
	stop_ev.write_function = NULL;
	stop_ev.error_function = stop_err;
	if (eloop.loop.add(eloop.loop.this_ptr, &stop_ev) == EL_ABORT_LOOP) return 2;

	char a[512], b[512];
	scenario(1, a, sizeof a);
	scenario(0, b, sizeof b);
	printf("owner: add(1), change(2), close.  What the fetcher is told:\n");
	printf("  daemon looks between the last message and the close : %s\n", a);
	printf("  last message and close are seen in one look          : %s\n", b);
	int bad = strcmp(a, b) != 0;
	printf(bad ? "DEFECT SHOWN: the same bytes, grouped differently into readiness events, give different output\n" : "OK\n");
	return bad;
}
