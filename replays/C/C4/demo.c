/* C4: a subscriber whose send fails makes later subscribers miss change/remove/add events. */
#include "harness.h"
#include "element.h"

static int bad = 0;
static void expect(struct tpeer *t, const char *needle, const char *what)
{
	int n = h_count(t, needle);
	printf("  %s %s: %s\n", t->tag, what, n ? "received" : "MISSED");
	if (!n) bad = 1;
}

int main(void)
{
	struct tpeer slow, good, owner;
	init_parser();
	element_hashtable_create();
	h_init_peer(&slow, "slow");
	h_init_peer(&good, "good");
	h_init_peer(&owner, "owner");

	h_req(&owner, "{\"id\":1,\"method\":\"add\",\"params\":{\"path\":\"a/x\",\"value\":1}}");
	h_req(&owner, "{\"id\":2,\"method\":\"add\",\"params\":{\"path\":\"a/z\",\"value\":1}}");
	h_req(&slow, "{\"id\":1,\"method\":\"fetch\",\"params\":{\"id\":\"fs\",\"path\":{\"startsWith\":\"a/\"}}}");
	h_req(&good, "{\"id\":1,\"method\":\"fetch\",\"params\":{\"id\":\"fg\",\"path\":{\"startsWith\":\"a/\"}}}");

	printf("the 'slow' peer stops accepting data (send_message returns -1), 'good' is fine\n");
	slow.fail_sends = 1;

	h_req(&owner, "{\"id\":3,\"method\":\"change\",\"params\":{\"path\":\"a/x\",\"value\":2}}");
	expect(&good, "\"path\":\"a/x\",\"event\":\"change\",\"value\":2", "change event for a/x");

	h_clear(&owner);
	h_req(&owner, "{\"id\":4,\"method\":\"remove\",\"params\":{\"path\":\"a/x\"}}");
	printf("  owner's remove answered with %s, a/x exists=%d\n", h_count(&owner, "\"result\":true") ? "success" : "error", element_table_get("a/x") != NULL);
	expect(&good, "\"path\":\"a/x\",\"event\":\"remove\"", "remove event for a/x");

	printf("owner disconnects (remove_all_elements_from_peer)\n");
	free_peer_resources(&owner.peer);
	expect(&good, "\"path\":\"a/z\",\"event\":\"remove\"", "remove event for a/z");

	free_peer_resources(&good.peer);
	free_peer_resources(&slow.peer);
	if (bad) { printf("DEFECT SHOWN: a failing subscriber made another subscriber miss events\n"); return 1; }
	printf("OK: the healthy subscriber got every event\n");
	return 0;
}
