/* C5: get_elements() does not check cJSON_CreateArray(): sweep a single allocation failure over a "get" request. */
#include "harness.h"
#include "element.h"
#include "failalloc.h"

/* learn which allocation belongs to get_elements()'s cJSON_CreateArray(): linked with --wrap=cJSON_CreateArray,
 * the wrapper only records the allocation counter and calls the real function. */
cJSON *__real_cJSON_CreateArray(void);
static long create_array_alloc_index;
cJSON *__wrap_cJSON_CreateArray(void)
{
	create_array_alloc_index = fa_count + 1;
	return __real_cJSON_CreateArray();
}

int main(void)
{
	struct tpeer owner, asker;
	int bad = 0;
	init_parser();
	element_hashtable_create();
	h_init_peer(&owner, "owner");
	h_init_peer(&asker, "asker");
	h_req(&owner, "{\"id\":1,\"method\":\"add\",\"params\":{\"path\":\"a/x\",\"value\":1}}");
	h_req(&owner, "{\"id\":2,\"method\":\"add\",\"params\":{\"path\":\"a/y\",\"value\":2}}");

	static const char get[] = "{\"id\":7,\"method\":\"get\",\"params\":{\"path\":{\"startsWith\":\"a/\"}}}";
	/* dry run to learn the index */
	fa_reset(0);
	h_req(&asker, get);
	fa_off();
	long target = create_array_alloc_index;
	printf("cJSON_CreateArray() in get_elements() is allocation #%ld of the request\n", target);
	int sweep = getenv("SWEEP") != NULL;

	for (long n = sweep ? 1 : target; sweep || n == target; n++) {
		size_t before = cjet_get_alloc_size();
		h_clear(&asker);
		printf("--- allocation #%ld fails\n", n);
		fa_reset(n);
		int ret = h_req(&asker, get);
		long seen = fa_count;
		fa_off();
		size_t after = cjet_get_alloc_size();
		if (seen < n) { printf("    (request needs only %ld allocations, sweep finished)\n", seen); break; }
		if (after != before) {
			printf("    DEFECT: %zu bytes leaked (heap %zu -> %zu)\n", after - before, before, after);
			bad = 1;
		}
		if (ret == 0 && asker.nmsg == 1) {
			cJSON *r = cJSON_Parse(asker.msg[0]);
			int has_result = cJSON_GetObjectItem(r, "result") != NULL;
			int has_error = cJSON_GetObjectItem(r, "error") != NULL;
			cJSON *res = cJSON_GetObjectItem(r, "result");
			if (!has_result && !has_error) {
				printf("    DEFECT: response carries neither \"result\" nor \"error\": %s\n", asker.msg[0]);
				bad = 1;
			} else if (has_result && cJSON_GetArraySize(res) != 2) {
				printf("    DEFECT: success response with incomplete result: %s\n", asker.msg[0]);
				bad = 1;
			}
			cJSON_Delete(r);
		}
	}
	if (bad) { printf("DEFECT SHOWN\n"); return 1; }
	printf("OK: every single allocation failure yields no response, an error response, or a complete result; no leak\n");
	return 0;
}
