#!/bin/sh
# usage: run.sh <cjet source tree>;  exit 0 = defect absent, 1 = defect shown
HERE=$(cd "$(dirname "$0")" && pwd)
T=$(mktemp -d)
"$HERE/../common/build_core.sh" "$1" "$T/demo" "$HERE/demo.c" -Wl,--wrap=cJSON_AddItemToObject,--wrap=cJSON_Delete || exit 2
ASAN_OPTIONS=detect_leaks=0 "$T/demo" > "$T/out" 2>&1; rc=$?
grep -v '^    \[' "$T/out"
rm -rf "$T"
exit $rc
