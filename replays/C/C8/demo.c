/* C8: results of cJSON_AddItemToObject() are ignored. The (non constant-string) variant copies the key with an
 * allocation; if that fails the item is NOT taken over: it leaks and the message goes out without that member.
 * Sweep a single allocation failure over several requests; every message that is sent must be identical to a message
 * of the failure-free run or be a well formed error response, and the heap must return to its old size. */
#include "harness.h"
#include "element.h"
#include "failalloc.h"

cJSON_bool __real_cJSON_AddItemToObject(cJSON *object, const char *string, cJSON *item);
static int additem_failed;
static char additem_key[64];
static cJSON *failed_item;       /* the caller still owns it after a failed add ... */
static int failed_item_deleted;  /* ... and has to delete it */
void __real_cJSON_Delete(cJSON *c);
void __wrap_cJSON_Delete(cJSON *c)
{
	if (c != NULL && c == failed_item) failed_item_deleted = 1;
	__real_cJSON_Delete(c);
}
cJSON_bool __wrap_cJSON_AddItemToObject(cJSON *object, const char *string, cJSON *item)
{
	cJSON_bool r = __real_cJSON_AddItemToObject(object, string, item);
	if (!r && object != NULL) { additem_failed = item ? 1 : 2; failed_item = item; snprintf(additem_key, sizeof additem_key, "%s", string); }
	return r;
}

static struct tpeer owner, sub, asker;
static struct tpeer *all[] = {&owner, &sub, &asker};
static int defects = 0;

static int wellformed_error(const char *m)
{
	cJSON *r = cJSON_Parse(m);
	cJSON *e = cJSON_GetObjectItem(r, "error");
	int ok = r && cJSON_GetObjectItem(r, "id") && e && cJSON_GetObjectItem(e, "message") && cJSON_GetObjectItem(e, "code");
	cJSON_Delete(r);
	return ok;
}

static void sweep(struct tpeer *from, const char *req)
{
	char *ref[16]; int nref = 0;
	for (int i = 0; i < 3; i++) h_clear(all[i]);
	printf("=== %s\n", req);
	parse_message(req, strlen(req), &from->peer);
	for (int i = 0; i < 3; i++) for (int k = 0; k < all[i]->nmsg; k++) ref[nref++] = strdup(all[i]->msg[k]);

	for (long n = 1;; n++) {
		for (int i = 0; i < 3; i++) h_clear(all[i]);
		size_t before = cjet_get_alloc_size();
		additem_failed = 0; failed_item = NULL; failed_item_deleted = 0;
		fa_reset(n);
		parse_message(req, strlen(req), &from->peer);
		long seen = fa_count;
		fa_off();
		if (seen < n) break;
		size_t after = cjet_get_alloc_size();
		int bad_msg = 0;
		const char *bad = NULL;
		for (int i = 0; i < 3; i++) for (int k = 0; k < all[i]->nmsg; k++) {
			const char *m = all[i]->msg[k];
			int known = 0;
			for (int r = 0; r < nref; r++) if (!strcmp(ref[r], m)) known = 1;
			if (!known && !wellformed_error(m)) { bad_msg++; bad = m; }
		}
		int item_leaked = (additem_failed == 1) && !failed_item_deleted;
		failed_item = NULL;
		if (additem_failed && (bad_msg || item_leaked)) {
			if (additem_failed == 1) printf("  alloc #%2ld: key copy of \"%s\" failed in cJSON_AddItemToObject:", n, additem_key);
			else printf("  alloc #%2ld: cJSON_AddItemToObject(.., \"%s\", NULL) result ignored:", n, additem_key);
			if (bad_msg) printf(" SENT MUTILATED %s", bad);
			if (item_leaked) printf("  ITEM NEVER FREED (heap +%zd bytes)", (ssize_t)(after - before));
			printf("\n");
			defects++;
		} else if (bad_msg || after != before) {
			printf("  alloc #%2ld: (other cause, not counted here: C5/C7/overwritten response) %s%s leak=%zd\n", n, bad_msg ? "mutilated message " : "", bad_msg ? bad : "", (ssize_t)(after - before));
		}
	}
	for (int r = 0; r < nref; r++) free(ref[r]);
}

int main(void)
{
	setvbuf(stdout, NULL, _IONBF, 0);
	init_parser();
	element_hashtable_create();
	h_init_peer(&owner, "owner");
	h_init_peer(&sub, "sub");
	h_init_peer(&asker, "asker");
	/* silence the per message trace of the harness */
	parse_message("{\"id\":1,\"method\":\"add\",\"params\":{\"path\":\"a/x\",\"value\":1}}", 57, &owner.peer);
	parse_message("{\"id\":2,\"method\":\"fetch\",\"params\":{\"id\":\"f\",\"path\":{\"startsWith\":\"a/\"}}}", 71, &sub.peer);

	sweep(&owner, "{\"id\":3,\"method\":\"change\",\"params\":{\"path\":\"a/x\",\"value\":2}}");
	sweep(&asker, "{\"id\":4,\"method\":\"get\",\"params\":{\"path\":{\"startsWith\":\"a/\"}}}");
	sweep(&asker, "{\"id\":5,\"method\":\"info\"}");
	sweep(&asker, "{\"id\":6,\"method\":\"nonsense\"}");

	printf("%d failure points where an ignored cJSON_AddItemToObject() result leaks the item and/or mutilates a message\n", defects);
	if (defects) { printf("DEFECT SHOWN\n"); return 1; }
	printf("OK\n");
	return 0;
}
