/* F1: change_password() with a single failing allocation between crypt() and write_user_data():
 * for every allocation N made during the call, let exactly allocation N fail. Whenever the request is answered with
 * a result (success), the new password must authenticate and the old one must not - in memory and after a reload. */
#include <unistd.h>
#include "harness.h"
#include "failalloc.h"
#include "authenticate.h"
#include "jet_random.h"

static int copy_file(const char *from, const char *to)
{
	FILE *f = fopen(from, "rb");
	if (!f) return -1;
	FILE *g = fopen(to, "wb");
	char buf[4096];
	size_t n;
	while ((n = fread(buf, 1, sizeof buf, f)) > 0) fwrite(buf, 1, n, g);
	fclose(f);
	fclose(g);
	return 0;
}

int main(int argc, char **argv)
{
	setvbuf(stdout, NULL, _IONBF, 0);
	if (argc < 3) return 2;
	init_parser();
	init_random();
	int bad = 0;
	for (long n = 1; n < 60; n++) {
		if (copy_file(argv[1], argv[2]) < 0) return 2;
		if (load_passwd_data(argv[2]) < 0) { printf("load failed\n"); return 2; }
		struct tpeer p;
		h_init_peer(&p, "john");
		char user[] = "john", pw[] = "newsecret";
		p.peer.user_name = user;
		cJSON *request = cJSON_Parse("{\"id\":1}");
		fa_reset(n);
		cJSON *resp = change_password(&p.peer, request, user, pw);
		long used = fa_count;
		fa_off();
		int is_error = resp == NULL || cJSON_GetObjectItem(resp, "error") != NULL;
		if (!is_error) {
			char a[] = "newsecret", b[] = "doe";
			const cJSON *g1 = credentials_ok("john", a);
			const cJSON *g2 = credentials_ok("john", b);   /* "doe" is the old password of john in passwd_std.json */
			free_passwd_data();
			load_passwd_data(argv[2]);
			char c[] = "newsecret";
			const cJSON *g3 = credentials_ok("john", c);
			if (g1 == NULL || g2 != NULL || g3 == NULL) {
				printf("  allocation %ld fails: answered SUCCESS, but new password %s in memory, old password %s, new password %s after reload\n",
				       n, g1 ? "works" : "REFUSED", g2 ? "STILL WORKS" : "refused", g3 ? "works" : "REFUSED");
				bad = 1;
			}
		}
		cJSON_Delete(resp);
		cJSON_Delete(request);
		free_passwd_data();
		if (used < n) { printf("change_password makes %ld allocations; all single faults tried\n", used); break; }
	}
	if (bad) { printf("DEFECT SHOWN\n"); return 1; }
	printf("OK\n");
	return 0;
}
