/* F3: the credential file must be loadable whatever its length is. load_passwd_data() maps the file and parses the mapping as
 * a C string; a file whose size is a multiple of the page size has no NUL inside its mapping, so the parser runs past it.
 * Where the kernel places the mapping is not in the daemon's hands: here mmap() is wrapped so that an inaccessible page follows
 * the mapping (a placement the kernel is free to choose, e.g. below a guard page or at the top of a hole). */
#include <unistd.h>
#include <signal.h>
#include <sys/mman.h>
#include <sys/wait.h>
#include "harness.h"
#include "authenticate.h"
#include "jet_random.h"

void *__real_mmap(void *addr, size_t length, int prot, int flags, int fd, off_t offset);
void *__wrap_mmap(void *addr, size_t length, int prot, int flags, int fd, off_t offset)
{
	long ps = sysconf(_SC_PAGESIZE);
	if (fd < 0 || length == 0) return __real_mmap(addr, length, prot, flags, fd, offset);
	size_t pages = (length + (size_t)ps - 1) / (size_t)ps;
	char *area = __real_mmap(NULL, (pages + 1) * (size_t)ps, PROT_NONE, MAP_PRIVATE | MAP_ANONYMOUS, -1, 0);
	if (area == MAP_FAILED) return MAP_FAILED;
	return __real_mmap(area, length, prot, flags | MAP_FIXED, fd, offset);
}

static int write_file_of_size(const char *path, size_t size)
{
	/* what write_user_data() produces for such a database: unformatted JSON, one user more whose name pads to the size */
	const char *head = "{\"users\":{\"john\":{\"password\":\"$6$QieAoprju2Gf$WwQCVJeZ7YBUK42QG4Idx8DstfUpaFwjSNDrtbUmsDFtg7/to2sx1ClJRqR051.sJ2uquembKq6O6BweUfpzs1\",\"auth\":{\"fetchGroups\":[\"users\",\"public\"],\"setGroups\":[\"users\"],\"callGroups\":[\"users\"]}},\"";
	const char *tail = "\":{\"password\":\"x\",\"auth\":{\"fetchGroups\":[],\"setGroups\":[],\"callGroups\":[]}}}}";
	size_t fixed = strlen(head) + strlen(tail);
	if (size <= fixed) return -1;
	FILE *f = fopen(path, "wb");
	if (!f) return -1;
	fputs(head, f);
	for (size_t i = 0; i < size - fixed; i++) fputc('u', f);
	fputs(tail, f);
	fclose(f);
	return 0;
}

static int try_load(const char *path)
{
	pid_t pid = fork();
	if (pid == 0) {
		init_parser();
		int r = load_passwd_data(path);
		if (r < 0) _exit(3);
		init_random();
		char u[] = "john", p[] = "doe";
		_exit(credentials_ok(u, p) != NULL ? 0 : 4);
	}
	int st = 0;
	waitpid(pid, &st, 0);
	if (WIFSIGNALED(st)) return -WTERMSIG(st);
	return WEXITSTATUS(st);
}

int main(int argc, char **argv)
{
	setvbuf(stdout, NULL, _IONBF, 0);
	if (argc < 2) return 2;
	long ps = sysconf(_SC_PAGESIZE);
	int bad = 0;
	size_t sizes[] = {(size_t)ps - 1, (size_t)ps, (size_t)ps + 1, 2 * (size_t)ps};
	for (unsigned i = 0; i < sizeof sizes / sizeof sizes[0]; i++) {
		if (write_file_of_size(argv[1], sizes[i]) < 0) return 2;
		int r = try_load(argv[1]);
		if (r < 0)
			printf("credential file of %zu bytes (valid JSON): loading it kills the daemon with signal %d\n", sizes[i], -r);
		else
			printf("credential file of %zu bytes (valid JSON): %s\n", sizes[i], r == 0 ? "loaded, john authenticates" : (r == 3 ? "load refused" : (r == 4 ? "loaded, but john does not authenticate" : "loading it kills the daemon (sanitizer abort)")));
		if (r != 0) bad = 1;
	}
	printf(bad ? "DEFECT SHOWN\n" : "OK\n");
	return bad;
}
