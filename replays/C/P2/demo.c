/* P2: the same aliasing as P1 through a RAW 0 byte.  Messages are length-delimited (4-byte prefix / websocket frame), so a 0 byte can
 * stand between the quotes of a JSON string; RFC 8259 wants control characters escaped, but the bundled parse_string() copies every
 * byte below 0x20 as it is.  Inside the daemon paths are C strings: "x", "x<NUL>one" and "x<NUL>two" name one element.
 * Accepted outcome: the daemon refuses such a message as a whole, or treats the paths as distinct. */
#include <unistd.h>
#include "harness.h"
#include "element.h"

static int req(struct tpeer *t, const char *json, size_t len)
{
	int before = t->nmsg;
	int ret = parse_message(json, len, &t->peer);
	printf("  [%s] ", t->tag);
	for (size_t i = 0; i < len; i++) { if (json[i]) putchar(json[i]); else fputs("<NUL>", stdout); }
	printf("\n      -> %s%s\n", ret < 0 ? "message refused (the connection would be closed)" : "", t->nmsg > before ? t->msg[t->nmsg - 1] : "");
	return ret;
}
#define REQ(t, lit) req(t, lit, sizeof(lit) - 1)

int main(void)
{
	setvbuf(stdout, NULL, _IONBF, 0);
	init_parser();
	if (element_hashtable_create() < 0) return 2;
	struct tpeer a, b;
	h_init_peer(&a, "A");
	h_init_peer(&b, "B");
	int bad = 0;
	int r1 = REQ(&a, "{\"id\":1,\"method\":\"add\",\"params\":{\"path\":\"x\",\"value\":1}}");
	if (r1 != 0 || h_count(&a, "\"result\":true") == 0) { printf("UNEXPECTED: control add failed\n"); return 2; }
	h_clear(&b);
	int r2 = REQ(&b, "{\"id\":2,\"method\":\"add\",\"params\":{\"path\":\"x\0one\",\"value\":2}}");
	if (r2 == 0 && h_count(&b, "exists") > 0) { printf("  => a FREE path is refused as existing\n"); bad = 1; }
	h_clear(&a);
	int r3 = REQ(&a, "{\"id\":3,\"method\":\"remove\",\"params\":{\"path\":\"x\0two\"}}");
	if (r3 == 0 && h_count(&a, "\"result\":true") > 0) { printf("  => a remove of an UNKNOWN path succeeds (and deletes x)\n"); bad = 1; }
	printf(bad ? "DEFECT SHOWN\n" : "OK\n");
	return bad;
}
