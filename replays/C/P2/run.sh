#!/bin/sh
# usage: run.sh <cjet source tree>;  exit 0 = defect absent, 1 = defect shown
HERE=$(cd "$(dirname "$0")" && pwd)
T=$(mktemp -d)
"$HERE/../common/build_core.sh" "$1" "$T/demo" "$HERE/demo.c" || exit 2
ASAN_OPTIONS=detect_leaks=0 "$T/demo" 2>&1 | grep -v "^    \[\|^  \[A\] ->\|^  \[B\] ->"; rc=$(ASAN_OPTIONS=detect_leaks=0 "$T/demo" >/dev/null 2>&1; echo $?)
rm -rf "$T"
exit $rc
