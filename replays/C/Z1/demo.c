/* Z1: a connection whose registration with the event loop fails (epoll_ctl ADD: ENOMEM, or ENOSPC at max_user_watches) must not
 * stay behind. The HTTP handler notices the failure (init_http_connection() reports it, handle_http() releases everything). The raw
 * jet handler does not: init_socket_peer() ignores the result of its first read_exactly(), so handle_new_jet_connection() returns
 * with a peer that is counted and linked, whose descriptor is open and never polled - it can never end.
 * The real handlers of linux_io.c are used; only the event loop's add() is made to fail. */
#include <unistd.h>
#include <fcntl.h>
#include <signal.h>
#include <sys/socket.h>
#include "harness.h"
#include "alloc.h"
#include "linux/linux_io.c"

static enum eventloop_return failing_add(const void *t, const struct io_event *ev) { (void)t; (void)ev; return EL_ABORT_LOOP; }
static struct eventloop loop = { NULL, NULL, NULL, NULL, failing_add, h_remove };

static int fd_open(int fd) { return fcntl(fd, F_GETFD) != -1; }

int main(void)
{
	setvbuf(stdout, NULL, _IONBF, 0);
	signal(SIGPIPE, SIG_IGN);
	init_parser();
	static const struct url_handler handler[] = {{
		.request_target = "/api/jet/",
		.create = alloc_websocket_peer,
		.on_header_field = websocket_upgrade_on_header_field,
		.on_header_value = websocket_upgrade_on_header_value,
		.on_headers_complete = websocket_upgrade_on_headers_complete,
	}};
	static struct http_server server;
	server.ev.loop = &loop;
	server.handler = handler;
	server.num_handlers = 1;
	static struct io_event jet_listener;
	jet_listener.loop = &loop;
	size_t base = cjet_get_alloc_size();
	int bad = 0;

	int hv[2];
	socketpair(AF_UNIX, SOCK_STREAM, 0, hv);
	handle_http(&server.ev, hv[0], true);
	printf("HTTP port, registration fails   : descriptor %s, accounted heap +%zu, peers %d\n",
	       fd_open(hv[0]) ? "OPEN" : "closed", cjet_get_alloc_size() - base, get_number_of_peers());
	if (fd_open(hv[0]) || cjet_get_alloc_size() != base) bad = 1;

	int jv[2];
	socketpair(AF_UNIX, SOCK_STREAM, 0, jv);
	handle_new_jet_connection(&jet_listener, jv[0], true);
	printf("raw jet port, registration fails: descriptor %s, accounted heap +%zu, peers %d\n",
	       fd_open(jv[0]) ? "OPEN" : "closed", cjet_get_alloc_size() - base, get_number_of_peers());
	if (fd_open(jv[0]) || cjet_get_alloc_size() != base || get_number_of_peers() != 0) bad = 1;

	printf(bad ? "DEFECT SHOWN: a connection that could not be registered with the event loop stays behind\n" : "OK\n");
	return bad;
}
