#!/bin/sh
# usage: run.sh <cjet source tree>; exit 0 = defect absent, 1 = defect shown
HERE=$(cd "$(dirname "$0")" && pwd)
T=$(mktemp -d)
mkdir -p "$T/inc"
# hashtable.h includes alloc.h and compiler.h; only the barrier macro of compiler.h is needed
printf '#include <stddef.h>\n' > "$T/inc/alloc.h"
gcc -std=gnu99 -g -O1 -fsanitize=address,undefined -I"$T/inc" -I"$1/src" "$HERE/demo.c" -o "$T/demo" 2>"$T/cc.log" || { cat "$T/cc.log"; rm -rf "$T"; exit 2; }
ASAN_OPTIONS=detect_leaks=0 "$T/demo"; rc=$?
rm -rf "$T"
exit $rc
