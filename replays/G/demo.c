/* G1 (C17): a refused insertion must leave the table as it was.
 * hashtable_put() that has to displace entries and finally gives up (HASHTABLE_FULL) leaves the last vacated slot with a
 * stale key: no lookup finds it (its hop bit is gone) but every later probe takes it for occupied - a slot is lost.
 * Table A: fill, put(Y).            Table B: fill, put(X) -> FULL, put(Y).   Both must give the same result for Y. */
#include <stdio.h>
#include <stdlib.h>
#include <stdint.h>
#include <string.h>
#define cjet_malloc malloc
#define cjet_free free
#include "hashtable.h"

#define ORDER 7
DECLARE_HASHTABLE_UINT32(T, ORDER, 1)

static uint32_t next_candidate = 1;
/* a fresh key whose home bucket is `home` */
static uint32_t key_with_home(uint32_t home)
{
	for (;;) {
		uint32_t k = next_candidate++;
		if (hs_hash32(k, ORDER) == home) return k;
	}
}

static uint32_t home0[32], k32, rest[30], X, Y;

static struct hashtable_uint32_t *fill(void)
{
	struct hashtable_uint32_t *t = HASHTABLE_CREATE(T);
	struct value_T v = { { NULL } };
	for (int i = 0; i < 32; i++) { v.vals[0] = &home0[i]; if (HASHTABLE_PUT(T, t, home0[i], v, NULL) != HASHTABLE_SUCCESS) exit(2); }
	v.vals[0] = &k32; if (HASHTABLE_PUT(T, t, k32, v, NULL) != HASHTABLE_SUCCESS) exit(2);
	for (int i = 0; i < 30; i++) { v.vals[0] = &rest[i]; if (HASHTABLE_PUT(T, t, rest[i], v, NULL) != HASHTABLE_SUCCESS) exit(2); }
	return t;
}

static int occupied_looking(struct hashtable_uint32_t *t)
{
	int n = 0;
	for (uint32_t i = 0; i < (1u << ORDER); i++) if (t[i].key != (uint32_t)HASHTABLE_INVALIDENTRY) n++;
	return n;
}

static int reachable(struct hashtable_uint32_t *t)
{
	int n = 0;
	for (uint32_t i = 0; i < (1u << ORDER); i++) n += __builtin_popcount(t[i].hop_info);
	return n;
}

int main(void)
{
	for (int i = 0; i < 32; i++) home0[i] = key_with_home(0);      /* slots 0..31, all in bucket 0 */
	k32 = key_with_home(32);                                      /* slot 32 */
	for (int i = 0; i < 30; i++) rest[i] = key_with_home(33 + i);  /* slots 33..62 */
	X = key_with_home(0);
	Y = key_with_home(1);
	struct value_T v = { { &Y } };

	struct hashtable_uint32_t *a = fill();
	int ra = HASHTABLE_PUT(T, a, Y, v, NULL);
	printf("table A: 63 entries, put(Y, home bucket 1) -> %s\n", ra == HASHTABLE_SUCCESS ? "SUCCESS" : "FULL");

	struct hashtable_uint32_t *b = fill();
	int rx = HASHTABLE_PUT(T, b, X, v, NULL);
	printf("table B: 63 entries, put(X, home bucket 0) -> %s; slots that look occupied: %d, entries reachable through hop bits: %d\n",
	       rx == HASHTABLE_SUCCESS ? "SUCCESS" : "FULL (refused)", occupied_looking(b), reachable(b));
	int rb = HASHTABLE_PUT(T, b, Y, v, NULL);
	printf("table B: put(Y, home bucket 1) -> %s\n", rb == HASHTABLE_SUCCESS ? "SUCCESS" : "FULL");
	int bad = 0;
	if (rx != HASHTABLE_SUCCESS && occupied_looking(b) - (rb == HASHTABLE_SUCCESS) != reachable(b) - (rb == HASHTABLE_SUCCESS)) {
		printf("DEFECT: after the refused insertion a slot holds a key that no lookup can reach (lost slot)\n");
		bad = 1;
	}
	if (rx != HASHTABLE_SUCCESS && ra != rb) {
		printf("DEFECT: the refused insertion of X changed the outcome of the following insertion of Y\n");
		bad = 1;
	}
	/* every key that was stored is still found, with its value */
	for (int i = 0; i < 32; i++) { struct value_T g; if (HASHTABLE_GET(T, b, home0[i], &g) != HASHTABLE_SUCCESS || g.vals[0] != &home0[i]) { printf("DEFECT: key lost\n"); bad = 1; } }
	struct value_T g;
	if (HASHTABLE_GET(T, b, k32, &g) != HASHTABLE_SUCCESS || g.vals[0] != &k32) { printf("DEFECT: displaced key lost\n"); bad = 1; }
	printf(bad ? "DEFECT SHOWN\n" : "OK\n");
	return bad;
}
