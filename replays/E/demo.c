/*
 * C19 replays E1..E4: memory safety of the permessage-deflate receive/send paths of src/compression.c.
 * usage: demo <scenario>; exit 0 = behaved (message delivered unchanged or refused with WS_ERROR), ASan abort otherwise.
 */
#include <stdbool.h>
#include <stdint.h>
#include <stdio.h>
#include <stdlib.h>
#include <string.h>
#include <stdarg.h>

#include "compression.h"
#include "websocket.h"
#include "zlib.h"

void log_err(const char *format, ...) { (void)format; }
void log_warn(const char *format, ...) { (void)format; }
void log_info(const char *format, ...) { (void)format; }

static uint8_t collected[1 << 16];
static size_t collected_len;
static bool complete;

static enum websocket_callback_return bin_frame_cb(struct websocket *s, uint8_t *msg, size_t length, bool is_last)
{
	(void)s;
	if (collected_len + length <= sizeof(collected)) {
		memcpy(collected + collected_len, msg, length);
		collected_len += length;
	}
	if (is_last) complete = true;
	return WS_OK;
}

static enum websocket_callback_return bin_msg_cb(struct websocket *s, uint8_t *msg, size_t length)
{
	return bin_frame_cb(s, msg, length, true);
}

static void ws_setup(struct websocket *ws)
{
	memset(ws, 0, sizeof(*ws));
	ws->extension_compression.name = "permessage-deflate";
	ws->extension_compression.compression_level = 2;
	ws->extension_compression.client_max_window_bits = 15;
	ws->extension_compression.client_no_context_takeover = false;
	ws->extension_compression.server_max_window_bits = 12;
	ws->extension_compression.server_no_context_takeover = false;
	ws->extension_compression.dummy_ptr = &ws->extension_compression.strm_private_comp;
	ws->extension_compression.strm_comp = &ws->extension_compression.dummy_ptr;
	alloc_compression(ws);
	ws->extension_compression.accepted = true;
}

static size_t client_compress(z_stream *c, const uint8_t *src, size_t len, uint8_t *dst, size_t cap)
{
	c->next_in = (Bytef *)src;
	c->avail_in = len;
	c->next_out = dst;
	c->avail_out = cap;
	int ret = deflate(c, Z_SYNC_FLUSH);
	if (ret != Z_OK || c->avail_in != 0 || c->avail_out == 0) {
		fprintf(stderr, "demo: client deflate failed\n");
		exit(2);
	}
	return cap - c->avail_out - 4;
}

static uint8_t plain[4000];
static uint8_t comp[8000];

int main(int argc, char **argv)
{
	int scenario = argc > 1 ? atoi(argv[1]) : 1;
	struct websocket ws;
	z_stream c;
	memset(&c, 0, sizeof(c));
	deflateInit2(&c, Z_DEFAULT_COMPRESSION, Z_DEFLATED, -15, 8, Z_DEFAULT_STRATEGY);
	ws_setup(&ws);
	srand(7);
	for (size_t i = 0; i < sizeof(plain); i++) plain[i] = (uint8_t)rand();   /* incompressible: compressed size ~ plain size */
	size_t clen = client_compress(&c, plain, sizeof(plain), comp, sizeof(comp));
	enum websocket_callback_return r;

	switch (scenario) {
	case 1: {
		/* E1: first fragment of 1 byte, second (not final) fragment of 3000 bytes, rest final */
		uint8_t *f1 = malloc(1); memcpy(f1, comp, 1);
		r = binary_frame_received_comp(true, &ws, f1, 1, false, bin_frame_cb);
		free(f1);
		if (r != WS_OK) { printf("E1: first fragment refused\n"); return 0; }
		uint8_t *f2 = malloc(3000); memcpy(f2, comp + 1, 3000);
		r = binary_frame_received_comp(true, &ws, f2, 3000, false, bin_frame_cb);
		free(f2);
		if (r != WS_OK) { printf("E1: second fragment refused\n"); return 0; }
		size_t rest = clen - 3001;
		uint8_t *f3 = malloc(rest); memcpy(f3, comp + 3001, rest);
		r = binary_frame_received_comp(true, &ws, f3, rest, true, bin_frame_cb);
		free(f3);
		if (r == WS_OK && complete && collected_len == sizeof(plain) && memcmp(collected, plain, sizeof(plain)) == 0) {
			printf("E1: message reassembled unchanged\n");
			return 0;
		}
		printf("E1: message broken (r=%d, len=%zu)\n", (int)r, collected_len);
		return 1;
	}
	case 2: {
		/* E2: corrupt unfragmented message is refused; a following fragmented message must not touch freed memory */
		uint8_t *bad = malloc(64);
		memset(bad, 0xff, 64);   /* reserved block type: inflate data error */
		r = binary_received_comp(true, &ws, bad, 64, bin_msg_cb);
		free(bad);
		printf("E2: corrupt message -> %s\n", r == WS_ERROR ? "WS_ERROR" : "accepted");
		uint8_t *f1 = malloc(10); memcpy(f1, comp, 10);
		r = binary_frame_received_comp(true, &ws, f1, 10, false, bin_frame_cb);
		free(f1);
		uint8_t *f2 = malloc(10); memcpy(f2, comp + 10, 10);
		r = binary_frame_received_comp(true, &ws, f2, 10, true, bin_frame_cb);
		free(f2);
		printf("E2: following fragmented message -> %d (no memory error)\n", (int)r);
		return 0;
	}
	case 3: {
		/* E3: fragmented message whose fragments are all empty */
		uint8_t dummy[1] = {0};
		r = binary_frame_received_comp(true, &ws, dummy, 0, false, bin_frame_cb);
		r = binary_frame_received_comp(true, &ws, dummy, 0, true, bin_frame_cb);
		printf("E3: empty fragmented message -> %d (no memory error)\n", (int)r);
		return 0;
	}
	case 4: {
		/* E4: one-byte payload compressed by the server side into the 2*length buffer send_frame() provides */
		uint8_t src[1] = { 'x' };
		uint8_t *dest = malloc(2);
		int have = websocket_compress(&ws, dest, src, 1);
		printf("E4: websocket_compress(1 byte) -> %d\n", have);
		free(dest);
		if (have < 0) { printf("E4: refused\n"); return 0; }
		if (have > 2) { printf("E4: claims %d bytes in a 2 byte buffer\n", have); return 1; }
		return 0;
	}
	}
	return 0;
}
