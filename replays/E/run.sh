#!/bin/sh
# usage: run.sh <cjet source tree> ; exit 0: all scenarios behave, 1: at least one memory error / broken message
SRC=$(cd "$1" && pwd)
HERE=$(cd "$(dirname "$0")" && pwd)
WORK=$(mktemp -d /tmp/c19e.XXXXXX)
trap 'rm -rf "$WORK"' EXIT
cmake -S "$SRC" -B "$WORK/b" -G Ninja -DFEATURE_POST_BUILD_UNITTEST=OFF >"$WORK/cmake.log" 2>&1 || { cat "$WORK/cmake.log"; exit 3; }
Z="$SRC/src/zlib"
gcc -std=gnu99 -g -O1 -fsanitize=address -fno-omit-frame-pointer \
    -D_DEFAULT_SOURCE=1 -D_BSD_SOURCE=1 -DNO_GZIP \
    -I"$SRC/src" -I"$WORK/b/src" -I"$Z" \
    "$HERE/demo.c" "$SRC/src/compression.c" \
    "$Z/adler32.c" "$Z/deflate.c" "$Z/inffast.c" "$Z/inflate.c" "$Z/inftrees.c" "$Z/trees.c" "$Z/zutil.c" \
    -o "$WORK/demo" 2>"$WORK/cc.log" || { cat "$WORK/cc.log"; exit 3; }
bad=0
for s in 1 2 3 4; do
  ASAN_OPTIONS=detect_leaks=0 "$WORK/demo" $s >"$WORK/out.$s" 2>&1
  rc=$?
  head -3 "$WORK/out.$s"
  grep -m1 "ERROR: AddressSanitizer" "$WORK/out.$s"
  grep -m3 "    #[0-3] " "$WORK/out.$s"
  echo "scenario E$s exit=$rc"
  [ $rc -ne 0 ] && bad=1
done
exit $bad
