#!/bin/sh
# usage: run.sh <cjet source tree>;  exit 0 = defect absent, 1 = defect shown (ASan: attempting double-free / heap-use-after-free)
HERE=$(cd "$(dirname "$0")" && pwd)
T=$(mktemp -d)
"$HERE/../../C/common/build_core.sh" "$1" "$T/demo" "$HERE/demo.c" -include router.h -include element.h || exit 2
ASAN_OPTIONS=detect_leaks=0 "$T/demo" > "$T/out" 2>&1; rc=$?
grep -m3 -E "ERROR: AddressSanitizer|#[0-3] .* in |^OK|allocation #" "$T/out" | cut -c1-200; grep -E "ERROR: AddressSanitizer" -A6 "$T/out" | cut -c1-160 | head -12
rm -rf "$T"
[ $rc -eq 0 ] && exit 0 || exit 1
