/* D1: handle_routing_response() frees the copied reply twice when create_result_response() fails.
 * create_result_response() already deletes 'result' on every failure; the caller deletes response_copy again. */
#include "harness.h"
#include "failalloc.h"

static char routed_id[128];

static int find_routed_id(struct tpeer *owner)
{
	for (int i = 0; i < owner->nmsg; i++) {
		const char *p = strstr(owner->msg[i], "\"id\":\"");
		if (p && strstr(owner->msg[i], "\"method\":\"m\"")) {
			p += 6;
			const char *e = strchr(p, '"');
			memcpy(routed_id, p, e - p);
			routed_id[e - p] = 0;
			return 0;
		}
	}
	return -1;
}

int main(void)
{
	init_parser();
	element_hashtable_create();
	for (long n = 1; n <= 12; n++) {
		struct tpeer owner, caller;
		h_init_peer(&owner, "owner");
		h_init_peer(&caller, "caller");
		h_req(&owner, "{\"id\":1,\"method\":\"add\",\"params\":{\"path\":\"m\"}}");
		h_req(&caller, "{\"id\":\"c1\",\"method\":\"call\",\"params\":{\"path\":\"m\",\"timeout\":100}}");
		if (find_routed_id(&owner) < 0) { printf("no routed message\n"); return 2; }
		char reply[256];
		snprintf(reply, sizeof(reply), "{\"id\":\"%s\",\"result\":{\"a\":[1,2,3]}}", routed_id);
		cJSON *root = cJSON_Parse(reply);
		printf("-- allocation #%ld during the reply fails\n", n);
		fa_reset(n);
		/* what parse_json_rpc() does for an incoming response */
		handle_routing_response(root, cJSON_GetObjectItem(root, "result"), "result", &owner.peer);
		fa_off();
		cJSON_Delete(root);
		free_peer_resources(&caller.peer);
		free_peer_resources(&owner.peer);
		h_clear(&owner); h_clear(&caller);
	}
	printf("OK: no double free\n");
	return 0;
}
