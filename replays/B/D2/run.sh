#!/bin/sh
# usage: run.sh <cjet source tree> ; exit 0 = defect absent, 1 = defect shown (ASan / SIGSEGV in websocket_upgrade_on_header_field)
# (lives under replays/B because it reuses B's full-stack harness in ../common)
. "$(dirname "$0")/../common/common.sh"
prepare "${1:?source tree}"
build $WORK/h "-fsanitize=address -fno-omit-frame-pointer" $(dirname "$0")/harness.c $FULLSTACK
MALLOC_PERTURB_=165 $WORK/h >$WORK/out.log 2>$WORK/asan.log
rc=$?
cat $WORK/out.log
[ $rc -eq 0 ] && exit 0
grep -m1 -A7 "ERROR: AddressSanitizer" $WORK/asan.log | cut -c1-160
echo "DEFECT SHOWN (harness exit $rc)"
exit 1
