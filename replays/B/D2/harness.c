/*
 * D2: header callbacks run before the handler's object exists.
 * on_url() installs the websocket header callbacks; the websocket peer is created only after the first
 * CRLF-terminated chunk was parsed. http_parser accepts a bare LF after the request line, so a header in
 * that first chunk reaches websocket_upgrade_on_header_field() with connection->parser.data never set.
 */
#include <stdio.h>
#include <stdlib.h>
#include <string.h>
#include <unistd.h>
#include "peer.h"
#include "fullstack.h"

int main(void)
{
	setvbuf(stdout, NULL, _IONBF, 0);
	fs_init();
	static const char req[] = "GET /api/jet/ HTTP/1.1\nSec-WebSocket-Key: x\r\n\r\n";
	char resp[512];
	/* dirty the heap so that the uninitialised parser.data is not accidentally NULL */
	for (int i = 0; i < 64; i++) { void *p = malloc(2048); memset(p, 0xa5, 2048); free(p); }
	struct fs_conn c = fs_http_connect();
	fs_send(&c, req, sizeof(req) - 1);
	fs_pump(&c);
	size_t n = fs_recv(&c, resp, sizeof resp - 1);
	resp[n] = 0;
	resp[strcspn(resp, "\r")] = 0;
	printf("   answer: \"%s\", connection %s, peers: %d\n", resp, fs_peer_closed(&c) ? "closed" : "open", get_number_of_peers());
	close(c.client_fd);
	if (fs_event_of(c.server_fd)) fs_pump(&c);

	/* a complete upgrade written with bare LFs must not be treated as upgraded without a 101 */
	static const char req2[] = "GET /api/jet/ HTTP/1.1\nHost: x\nUpgrade: websocket\nConnection: Upgrade\n"
	                           "Sec-WebSocket-Key: dGhlIHNhbXBsZSBub25jZQ==\nSec-WebSocket-Version: 13\nSec-WebSocket-Protocol: jet\n\r\n\r\n";
	struct fs_conn d = fs_http_connect();
	fs_send(&d, req2, sizeof(req2) - 1);
	fs_pump(&d);
	n = fs_recv(&d, resp, sizeof resp - 1);
	resp[n] = 0;
	resp[strcspn(resp, "\r")] = 0;
	printf("   bare-LF upgrade: \"%s\", connection %s, peers: %d\n", resp, fs_peer_closed(&d) ? "closed" : "open", get_number_of_peers());
	if (strstr(resp, " 101 ") == NULL && !fs_peer_closed(&d)) { printf("   DEFECT: neither upgraded nor refused\n"); return 1; }
	close(d.client_fd);
	if (fs_event_of(d.server_fd)) fs_pump(&d);
	fs_shutdown();
	printf("OK: request with a bare LF after the request line handled without touching an uninitialised object\n");
	return 0;
}
