/*
 * B3: parse_message(msg, length) parses with a strlen()-based cJSON entry point although msg is not
 * NUL-terminated (it points into buffered_socket's read buffer).
 * Part 1/2 use the full real stack on a socketpair; part 3 calls parse_message() directly.
 */
#include <stdio.h>
#include <stdlib.h>
#include <string.h>
#include <unistd.h>
#include <arpa/inet.h>
#include "fullstack.h"
#include "parse.h"
#include "peer.h"

static int got_response_for(struct fs_conn *c, const char *needle)
{
	char buf[2048];
	int found = 0;
	while (fs_jet_recv_msg(c, buf, sizeof buf) >= 0) {
		printf("   << %s\n", buf);
		if (strstr(buf, needle)) found = 1;
	}
	return found;
}

/* 1: bytes FOLLOWING the message in the stream complete a JSON text that is truncated within its declared length */
static int following_bytes(void)
{
	printf("-- 1: declared length 23, payload {\"id\":2,\"method\":\"info\"  followed by the bytes }AAA of the next frame\n");
	struct fs_conn c = fs_jet_connect();
	static const char truncated[] = "{\"id\":2,\"method\":\"info\"";
	char wire[64];
	uint32_t l = htonl(sizeof truncated - 1);
	memcpy(wire, &l, 4);
	memcpy(wire + 4, truncated, sizeof truncated - 1);
	memcpy(wire + 4 + sizeof truncated - 1, "}AAA", 4);
	fs_send(&c, wire, 4 + sizeof truncated - 1 + 4);
	fs_pump(&c);
	int executed = got_response_for(&c, "\"id\":2");
	printf("   %s\n", executed ? "EXECUTED: the 23 declared bytes are not a JSON text, the request ran anyway"
	                           : "refused (no response, message is not valid JSON)");
	close(c.client_fd);
	if (fs_event_of(c.server_fd)) fs_pump(&c);
	return executed;
}

/* 2: STALE bytes of an earlier message (left in the read buffer behind the current message) complete it */
static int stale_bytes(void)
{
	printf("-- 2: 400 byte message A full of '}' , then 150 byte message B lacking its final '}'\n");
	struct fs_conn c = fs_jet_connect();
	char a[401], b[151];
	int n = snprintf(a, sizeof a, "{\"id\":1,\"method\":\"info\",\"params\":{\"x\":\"");
	memset(a + n, '}', 400 - n - 3);
	memcpy(a + 400 - 3, "\"}}", 4);
	fs_jet_send_msg(&c, a);
	fs_pump(&c);
	if (!got_response_for(&c, "\"id\":1")) { printf("harness problem: message A not answered\n"); exit(2); }

	n = snprintf(b, sizeof b, "{\"id\":2,\"method\":\"info\",\"params\":{\"pad\":\"");
	memset(b + n, 'x', 150 - n - 2);
	memcpy(b + 150 - 2, "\"}", 3); /* closes "pad" string and params, NOT the request object */
	fs_jet_send_msg(&c, b);
	fs_pump(&c);
	int executed = got_response_for(&c, "\"id\":2");
	printf("   %s\n", executed ? "EXECUTED: stale '}' of message A completed message B"
	                           : "refused (no response, message is not valid JSON)");
	close(c.client_fd);
	if (fs_event_of(c.server_fd)) fs_pump(&c);
	return executed;
}

static int sent;
static int send_message(const struct peer *p, char *rendered, size_t len) { (void)p; (void)rendered; (void)len; sent++; return 0; }

/* 3: direct call with an exactly sized heap buffer: ASan reports the over-read of the strlen()/parser */
static void exact_buffer(void)
{
	printf("-- 3: parse_message() on a malloc(2) buffer holding \"[1\" (ASan aborts on over-read)\n");
	struct peer p;
	init_peer(&p, true, &fs_loop);
	p.send_message = send_message;
	char *m = malloc(2);
	memcpy(m, "[1", 2);
	int ret = parse_message(m, 2, &p);
	printf("   ret=%d (no over-read)\n", ret);
	free(m);
	free_peer_resources(&p);
}

int main(int argc, char **argv)
{
	setvbuf(stdout, NULL, _IONBF, 0);
	fs_init();
	if (argc > 1 && strcmp(argv[1], "exact") == 0) {
		exact_buffer();
		return 0;
	}
	int bad = following_bytes();
	bad += stale_bytes();
	fs_shutdown();
	if (bad) { printf("DEFECT SHOWN: bytes outside the declared message length decided the parse result\n"); return 1; }
	printf("OK: only the declared bytes are parsed\n");
	return 0;
}
