#!/bin/sh
# usage: run.sh <cjet source tree> ; exit 0 = defect absent, 1 = defect shown
. "$(dirname "$0")/../common/common.sh"
prepare "${1:?source tree}"
build $WORK/h "-fsanitize=address -fno-omit-frame-pointer" $(dirname "$0")/harness.c $FULLSTACK
rc=0
$WORK/h || rc=1
$WORK/h exact 2>$WORK/asan.log || { grep -m1 -A6 "ERROR: AddressSanitizer" $WORK/asan.log; echo "DEFECT SHOWN: over-read past the end of the message buffer"; rc=1; }
exit $rc
