/*
 * B10: handle_authentication() (a) overwrites p->user_name without freeing the previous copy,
 *      (b) changes the three group fields before the user-name copy can fail.
 * Real core through parse_message(); credentials_ok() is the harness' password "file" (as src/tests/auth_stub.cpp stubs it),
 * the failing allocation is injected with -Wl,--wrap=cjet_malloc for exactly the user-name copy.
 */
#include <stdio.h>
#include <stdlib.h>
#include <string.h>

#include "alloc.h"
#include "authenticate.h"
#include "element.h"
#include "eventloop.h"
#include "groups.h"
#include "parse.h"
#include "peer.h"
#include "table.h"

static cJSON *auth_alice, *auth_bob;
static int arm_failure;  /* make the first cjet_malloc() after the credential check fail: that is the user-name copy */
static int fail_next;
const cJSON *credentials_ok(const char *user, char *passwd)
{
	if (strcmp(passwd, "secret") != 0) return NULL;
	if (arm_failure) {
		arm_failure = 0;
		fail_next = 1;
	}
	if (strcmp(user, "alice") == 0) return auth_alice;
	if (strcmp(user, "bob") == 0) return auth_bob;
	return NULL;
}

void *__real_cjet_malloc(size_t size);
void *__wrap_cjet_malloc(size_t size)
{
	if (fail_next) {
		fail_next = 0;
		return NULL;
	}
	return __real_cjet_malloc(size);
}

static char last[1024];
static int send_message(const struct peer *p, char *rendered, size_t len)
{
	(void)p;
	snprintf(last, sizeof last, "%.*s", (int)len, rendered);
	return 0;
}
static enum eventloop_return fake_add(const void *t, const struct io_event *ev) { (void)t; (void)ev; return EL_CONTINUE_LOOP; }
static void fake_remove(void *t, const struct io_event *ev) { (void)t; (void)ev; }
static struct eventloop loop = {.add = fake_add, .remove = fake_remove};

static void feed(struct peer *p, const char *msg)
{
	last[0] = 0;
	parse_message(msg, strlen(msg), p);
	printf("   >> %s\n   << %s\n", msg, last);
}

int main(void)
{
	int bad = 0;
	setvbuf(stdout, NULL, _IONBF, 0);
	init_parser();
	element_hashtable_create();
	create_groups();
	cJSON *all = cJSON_Parse("[\"users\",\"admin\"]");
	add_groups(all);
	auth_alice = cJSON_Parse("{\"fetchGroups\":[\"users\"],\"setGroups\":[\"users\"],\"callGroups\":[\"users\"]}");
	auth_bob = cJSON_Parse("{\"fetchGroups\":[\"users\",\"admin\"],\"setGroups\":[\"users\",\"admin\"],\"callGroups\":[\"users\",\"admin\"]}");

	printf("-- (a) repeated authenticate must not leak the previous user name\n");
	size_t base = cjet_get_alloc_size();
	struct peer *p = calloc(1, sizeof *p);
	init_peer(p, true, &loop);
	p->send_message = send_message;
	for (int i = 0; i < 3; i++) {
		feed(p, "{\"id\":1,\"method\":\"authenticate\",\"params\":{\"user\":\"alice\",\"password\":\"secret\"}}");
	}
	free_peer_resources(p);
	size_t leaked = cjet_get_alloc_size() - base;
	printf("   cjet heap accounting after the peer is gone: %zu bytes still allocated\n", leaked);
	if (leaked != 0) { printf("   DEFECT: %zu bytes = 2 x (strlen(\"alice\")+1 + 8 bytes header) leaked\n", leaked); bad = 1; }

	printf("-- (b) an authenticate that is answered with an error must not change the peer\n");
	init_peer(p, true, &loop);
	p->send_message = send_message;
	feed(p, "{\"id\":2,\"method\":\"authenticate\",\"params\":{\"user\":\"alice\",\"password\":\"secret\"}}");
	group_t f = p->fetch_groups, s = p->set_groups, c = p->call_groups;
	char name_before[32];
	snprintf(name_before, sizeof name_before, "%s", p->user_name ? p->user_name : "(null)");
	arm_failure = 1; /* the duplicate_string() of the user name fails */
	feed(p, "{\"id\":3,\"method\":\"authenticate\",\"params\":{\"user\":\"bob\",\"password\":\"secret\"}}");
	int is_error = strstr(last, "\"error\"") != NULL;
	printf("   before: user=%s fetch=%x set=%x call=%x\n   after : user=%s fetch=%x set=%x call=%x   (response was %s)\n", name_before, f, s, c,
	       p->user_name ? p->user_name : "(null)", p->fetch_groups, p->set_groups, p->call_groups, is_error ? "an error" : "success");
	if (!is_error) { printf("harness problem: allocation failure was not hit\n"); return 2; }
	if (p->fetch_groups != f || p->set_groups != s || p->call_groups != c || p->user_name == NULL || strcmp(p->user_name, name_before) != 0) {
		printf("   DEFECT: error response, but the peer now holds bob's (admin) groups and lost its user name\n");
		bad = 1;
	}
	free_peer_resources(p);
	leaked = cjet_get_alloc_size() - base;
	if (leaked != 0) { printf("   DEFECT: %zu bytes leaked by the failed authenticate\n", leaked); bad = 1; }
	free(p);

	cJSON_Delete(all);
	cJSON_Delete(auth_alice);
	cJSON_Delete(auth_bob);
	free_groups();
	element_hashtable_delete();
	if (bad) { printf("DEFECT SHOWN\n"); return 1; }
	printf("OK: no leak, failed authenticate leaves the peer unchanged\n");
	return 0;
}
