#!/bin/sh
# usage: run.sh <cjet source tree> ; exit 0 = defect absent, 1 = defect shown
. "$(dirname "$0")/../common/common.sh"
prepare "${1:?source tree}"
build $WORK/h "-fsanitize=address -fno-omit-frame-pointer -Wl,--wrap=cjet_malloc" $(dirname "$0")/harness.c $COMMON/stubs.c $COMMON/core_stubs.c $JETLIB $SRC/linux/timer_linux.c
ASAN_OPTIONS=detect_leaks=1 $WORK/h 2>$WORK/asan.log
rc=$?
grep -A8 "ERROR: LeakSanitizer" $WORK/asan.log | head -12
[ $rc -eq 0 ] && exit 0
echo "harness exit code $rc"
exit 1
