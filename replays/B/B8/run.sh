#!/bin/sh
# usage: run.sh <cjet source tree> ; exit 0 = defect absent, 1 = defect shown
. "$(dirname "$0")/../common/common.sh"
prepare "${1:?source tree}"
build $WORK/h "-fsanitize=address -fno-omit-frame-pointer" $(dirname "$0")/harness.c $FULLSTACK
$WORK/h 2>$WORK/asan.log
rc=$?
[ $rc -eq 0 ] && exit 0
grep -m1 -A8 "ERROR: AddressSanitizer" $WORK/asan.log
grep -m1 -A5 "^freed by thread" $WORK/asan.log
echo "DEFECT SHOWN (harness exit $rc)"
exit 1
