/*
 * B8: the websocket peer is created in on_url(), i.e. before the request line has been validated.
 * Full real stack over a socketpair (see ../common/fullstack.c; the connection set-up is handle_http()'s).
 */
#include <stdio.h>
#include <stdlib.h>
#include <string.h>
#include <unistd.h>

#include "peer.h"
#include "fullstack.h"

static int bad;

static void request_line(const char *line, int expect_status)
{
	char resp[512];
	int before = get_number_of_peers();
	struct fs_conn c = fs_http_connect();
	fs_send(&c, line, strlen(line));
	fs_pump(&c);
	size_t n = fs_recv(&c, resp, sizeof resp - 1);
	resp[n] = 0;
	resp[strcspn(resp, "\r")] = 0;
	int after = get_number_of_peers();
	int closed = fs_peer_closed(&c);
	printf("   %-34.*s -> \"%s\", connection %s, peers on global list: %d -> %d\n", (int)strcspn(line, "\r"), line, resp,
	       closed ? "closed" : "open", before, after);
	if (expect_status != 0) {
		char want[16];
		snprintf(want, sizeof want, " %d ", expect_status);
		if (strstr(resp, want) == NULL || !closed) { printf("   unexpected: wanted status %d and a closed connection\n", expect_status); bad = 1; }
		if (after != before) {
			printf("   DEFECT: request refused, connection freed, but a peer object stays registered (dangling connection pointer)\n");
			bad = 1;
		}
	}
	close(c.client_fd);
	if (fs_event_of(c.server_fd)) fs_pump(&c);
}

int main(void)
{
	setvbuf(stdout, NULL, _IONBF, 0);
	fs_init();

	printf("-- control: valid upgrade creates exactly one peer, closing the socket removes it\n");
	struct fs_conn ok = fs_http_connect();
	fs_ws_handshake(&ok);
	printf("   after handshake: %d peer(s)\n", get_number_of_peers());
	if (get_number_of_peers() != 1) bad = 1;
	close(ok.client_fd);
	fs_pump(&ok);
	printf("   after disconnect: %d peer(s)\n", get_number_of_peers());
	if (get_number_of_peers() != 0) bad = 1;

	printf("-- request lines that match the handler URL but are invalid after the URL\n");
	request_line("GET /api/jet/ HTTX/1.1\r\n", 400);
	request_line("GET /api/jet/ HTTP/1.x\r\n", 400);
	request_line("GET /api/jet/ HTTP/11111.1\r\n", 400);
	printf("-- control: URL without handler\n");
	request_line("GET /nothing/ HTTP/1.1\r\n", 404);

	printf("-- shutdown sweep: destroy_all_peers() (ASan reports the use of the freed connection)\n");
	fs_shutdown();
	if (bad) { printf("DEFECT SHOWN: peer created before the request line was validated is left behind\n"); return 1; }
	printf("OK: no peer survives a refused request line\n");
	return 0;
}
