/*
 * B7: events are harvested from epoll_wait() in a batch; the callback for entry i may free the object that
 * holds the io_event of entry j > i.
 * Real: eventloop_epoll.c, timer_linux.c, router.c (routing request + its timerfd), socket_peer.c, buffered_socket.c,
 * posix/socket.c, core. The harness plays two jet clients over socketpairs and lets the real epoll loop run "one turn"
 * at a time (a control pipe, written last, stops the loop after the batch).
 *
 * Sequence: owner adds state "s"; setter sends set("s") with timeout 50 ms -> cjet routes it to the owner and arms a
 * timerfd that lives inside the malloc'ed routing_request. The owner's reply is written to the socket, THEN the timer
 * expires, THEN cjet gets to call epoll_wait(): one batch = [owner socket readable, timerfd readable, control pipe].
 */
#include <signal.h>
#include <stdio.h>
#include <stdlib.h>
#include <string.h>
#include <unistd.h>
#include <fcntl.h>

#include "linux/eventloop_epoll.h"
#include "fullstack.h"

static int keep_running = 1;
static int ctl[2];
static enum eventloop_return ctl_read(struct io_event *ev)
{
	char b[16];
	while (read(ev->sock, b, sizeof b) > 0) {}
	keep_running = 0;
	return EL_CONTINUE_LOOP;
}
static enum eventloop_return ctl_error(struct io_event *ev) { (void)ev; return EL_CONTINUE_LOOP; }

static struct eventloop_epoll eloop = {
	.loop = {.this_ptr = &eloop, .init = eventloop_epoll_init, .destroy = eventloop_epoll_destroy,
	         .run = eventloop_epoll_run, .add = eventloop_epoll_add, .remove = eventloop_epoll_remove}};

static int turn(void)
{
	keep_running = 1;
	if (write(ctl[1], "x", 1) != 1) exit(2);
	return eventloop_epoll_run(&eloop, &keep_running);
}

static void expect(struct fs_conn *c, const char *who, const char *needle, char *out, size_t max)
{
	if (fs_jet_recv_msg(c, out, max) < 0 || strstr(out, needle) == NULL) {
		printf("harness problem: %s did not receive a message containing %s\n", who, needle);
		exit(2);
	}
	printf("   %s << %s\n", who, out);
}

int main(void)
{
	char buf[1024], reply[1024], id[256];
	setvbuf(stdout, NULL, _IONBF, 0);
	eloop.loop.init(&eloop);
	fs_set_loop(&eloop.loop);
	fs_init();
	if (pipe(ctl) < 0) exit(2);
	fcntl(ctl[0], F_SETFL, O_NONBLOCK);
	struct io_event ctl_ev = {.sock = ctl[0], .read_function = ctl_read, .error_function = ctl_error, .loop = &eloop.loop};
	eloop.loop.add(&eloop, &ctl_ev);

	struct fs_conn owner = fs_jet_connect();
	struct fs_conn setter = fs_jet_connect();

	fs_jet_send_msg(&owner, "{\"id\":1,\"method\":\"add\",\"params\":{\"path\":\"s\",\"value\":1}}");
	turn();
	expect(&owner, "owner ", "\"id\":1", buf, sizeof buf);

	fs_jet_send_msg(&setter, "{\"id\":\"set1\",\"method\":\"set\",\"params\":{\"path\":\"s\",\"value\":2,\"timeout\":0.05}}");
	turn();
	expect(&owner, "owner ", "\"method\":\"s\"", buf, sizeof buf);
	/* routed message: {"id":"<routed id>","method":"s","params":{"value":2}} */
	const char *p = strstr(buf, "\"id\":\"") + 6;
	size_t n = strcspn(p, "\"");
	snprintf(id, sizeof id, "%.*s", (int)n, p);
	snprintf(reply, sizeof reply, "{\"id\":\"%s\",\"result\":true}", id);

	printf("   owner  >> %s   (reply in time)\n", reply);
	fs_jet_send_msg(&owner, reply);           /* 1st ready: owner socket */
	usleep(150 * 1000);                       /* 2nd ready: the request's timerfd (50 ms) - cjet was busy/descheduled */
	printf("   ... 150 ms pass before cjet calls epoll_wait(); batch = [owner socket, request timerfd, control]\n");
	turn();                                   /* ASan: heap-use-after-free when entry 2 of the batch is dispatched */

	expect(&setter, "setter", "\"id\":\"set1\"", buf, sizeof buf);
	int extra = fs_jet_recv_msg(&setter, buf, sizeof buf);
	if (extra >= 0) { printf("   setter << %s\nDEFECT SHOWN: setter got two answers for one request\n", buf); return 1; }

	fs_shutdown();
	printf("OK: stale batch entry was not dispatched\n");
	return 0;
}
