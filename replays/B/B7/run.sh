#!/bin/sh
# usage: run.sh <cjet source tree> ; exit 0 = defect absent, 1 = defect shown
. "$(dirname "$0")/../common/common.sh"
prepare "${1:?source tree}"
build $WORK/h "-fsanitize=address -fno-omit-frame-pointer" $(dirname "$0")/harness.c $FULLSTACK $SRC/linux/eventloop_epoll.c
$WORK/h 2>$WORK/asan.log
rc=$?
[ $rc -eq 0 ] && exit 0
grep -m1 -A14 "ERROR: AddressSanitizer" $WORK/asan.log
grep -m1 -A6 "^freed by thread" $WORK/asan.log
[ $rc -eq 2 ] && { cat $WORK/asan.log; echo "harness problem"; exit 2; }
echo "DEFECT SHOWN: io_event of a freed object dispatched from the harvested epoll batch (harness exit $rc)"
exit 1
