/*
 * B2: fragmented websocket data message sent to a jet websocket peer.
 * Full real stack over a socketpair (see ../common/fullstack.c).
 */
#include <signal.h>
#include <stdio.h>
#include <stdlib.h>
#include <string.h>
#include <unistd.h>
#include "fullstack.h"

static const char *stage = "";
static void on_segv(int sig)
{
	static const char m[] = "DEFECT SHOWN: SIGSEGV (call through NULL frame callback) while cjet handled: ";
	(void)sig;
	(void)!write(2, m, sizeof m - 1);
	(void)!write(2, stage, strlen(stage));
	(void)!write(2, "\n", 1);
	_exit(1);
}

/* returns 1 = message processed (a jet response came back), 2 = refused with a close frame, 0 = neither */
static int outcome(struct fs_conn *c, const char *expect)
{
	uint8_t buf[2048];
	size_t len;
	int result = 0;
	int op;
	while ((op = fs_ws_recv_frame(c, buf, sizeof buf, &len)) >= 0) {
		if (op == 1) {
			printf("   << text frame: %s\n", buf);
			if (strstr((char *)buf, expect)) result = 1;
		} else if (op == 8) {
			unsigned code = len >= 2 ? (unsigned)(buf[0] << 8 | buf[1]) : 0;
			printf("   << close frame, status %u\n", code);
			if (result == 0) result = 2;
		} else {
			printf("   << frame opcode %d\n", op);
		}
	}
	return result;
}

static int scenario(const char *name, unsigned opcode, bool compressed_ext)
{
	(void)compressed_ext;
	static const char part1[] = "{\"id\":7,\"method\":\"info\"";
	static const char part2[] = ",\"params\":{}}";
	printf("-- %s\n", name);
	struct fs_conn c = fs_http_connect();
	fs_ws_handshake(&c);

	stage = name;
	fs_ws_send_frame(&c, false, opcode, part1, sizeof part1 - 1);
	fs_pump(&c);
	if (fs_event_of(c.server_fd) != NULL) {
		fs_ws_send_frame(&c, true, 0x0, part2, sizeof part2 - 1);
		fs_pump(&c);
	}
	int r = outcome(&c, "\"id\":7");
	printf("   outcome: %s\n", r == 1 ? "processed" : r == 2 ? "refused with close frame" : "NEITHER processed nor refused");
	close(c.client_fd);
	if (fs_event_of(c.server_fd) != NULL) fs_pump(&c); /* let cjet see the EOF and clean up */
	return r != 0;
}

int main(void)
{
	setvbuf(stdout, NULL, _IONBF, 0);
	if (!getenv("NO_SEGV_HANDLER")) signal(SIGSEGV, on_segv);
	fs_init();
	int ok = 1;

	/* sanity: an unfragmented text message is processed */
	{
		static const char msg[] = "{\"id\":7,\"method\":\"info\",\"params\":{}}";
		printf("-- unfragmented text message\n");
		struct fs_conn c = fs_http_connect();
		fs_ws_handshake(&c);
		fs_ws_send_frame(&c, true, 0x1, msg, sizeof msg - 1);
		fs_pump(&c);
		if (outcome(&c, "\"id\":7") != 1) { printf("harness problem: plain message not answered\n"); return 2; }
		close(c.client_fd);
		fs_pump(&c);
	}
	ok &= scenario("text message in two fragments (TEXT fin=0, CONTINUATION fin=1)", 0x1, false);
	ok &= scenario("binary message in two fragments (BINARY fin=0, CONTINUATION fin=1)", 0x2, false);
	fs_shutdown();
	if (!ok) { printf("DEFECT SHOWN: fragmented message neither processed nor refused\n"); return 1; }
	printf("OK: fragmented data messages are processed or refused\n");
	return 0;
}
