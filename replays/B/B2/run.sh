#!/bin/sh
# usage: run.sh <cjet source tree> ; exit 0 = defect absent, 1 = defect shown
. "$(dirname "$0")/../common/common.sh"
prepare "${1:?source tree}"
build $WORK/h "-fsanitize=address -fno-omit-frame-pointer" $(dirname "$0")/harness.c $FULLSTACK
[ -n "$NO_SEGV_HANDLER" ] && SEGV=1 || SEGV=0
ASAN_OPTIONS=handle_segv=$SEGV:detect_leaks=1 UBSAN_OPTIONS=print_stacktrace=1 $WORK/h
rc=$?
[ $rc -eq 0 ] && exit 0
echo "harness exit code $rc"
exit 1
