#!/bin/sh
# usage: run.sh <cjet source tree> ; exit 0 = defect absent, 1 = defect shown
. "$(dirname "$0")/../common/common.sh"
prepare "${1:?source tree}"
H=$(dirname "$0")/harness.c
rc=0
echo "== build A: clang -fsanitize=float-cast-overflow (UB detector)"
build $WORK/ha "-fsanitize=float-cast-overflow,address -fno-sanitize-recover=float-cast-overflow -fno-omit-frame-pointer" $H $COMMON/stubs.c $COMMON/core_stubs.c $JETLIB $SRC/linux/timer_linux.c
UBSAN_OPTIONS=print_stacktrace=1 ASAN_OPTIONS=handle_abort=0:handle_segv=0 $WORK/ha || { echo "DEFECT SHOWN (build A, exit $?)"; rc=1; }
echo "== build B: gcc -O2, no sanitizer (what the daemon does with the value)"
rm -rf $WORK/obj
gcc -O2 -g $CFLAGS_COMMON -I$COMMON $H $COMMON/stubs.c $COMMON/core_stubs.c $JETLIB $SRC/linux/timer_linux.c -o $WORK/hb 2>$WORK/ccb.log || { cat $WORK/ccb.log; exit 2; }
$WORK/hb || { echo "DEFECT SHOWN (build B, exit $?)"; rc=1; }
exit $rc
