/*
 * B4: "timeout" given as a huge JSON number (1e30 seconds) is converted double -> uint64_t without an upper bound.
 * Real protocol core driven through parse_message(); acceptable outcomes per request: an error response
 * ("timeout ... too large"/invalid params) or a normal result. Not acceptable: UB (UBSan float-cast-overflow),
 * a crash, or no/garbage response.
 */
#include <signal.h>
#include <stdio.h>
#include <stdlib.h>
#include <string.h>
#include <unistd.h>

#include "element.h"
#include "eventloop.h"
#include "parse.h"
#include "peer.h"
#include "table.h"

static char sent[64][1024];
static int nsent;
static int send_message(const struct peer *p, char *rendered, size_t len)
{
	(void)p;
	if (nsent < 64) snprintf(sent[nsent++], sizeof sent[0], "%.*s", (int)len, rendered);
	return 0;
}
static enum eventloop_return fake_add(const void *t, const struct io_event *ev) { (void)t; (void)ev; return EL_CONTINUE_LOOP; }
static void fake_remove(void *t, const struct io_event *ev) { (void)t; (void)ev; }
static struct eventloop loop = {.add = fake_add, .remove = fake_remove};

static struct peer *alloc_peer(void)
{
	struct peer *p = calloc(1, sizeof *p);
	init_peer(p, true, &loop);
	p->send_message = send_message;
	return p;
}

static const char *current = "";
static void on_sig(int sig)
{
	static const char m1[] = "DEFECT SHOWN: crash (signal) while processing: ";
	(void)sig;
	(void)!write(2, m1, sizeof m1 - 1);
	(void)!write(2, current, strlen(current));
	(void)!write(2, "\n", 1);
	_exit(1);
}

static int bad;
static void feed(struct peer *p, const char *msg, const char *id_needle)
{
	current = msg;
	nsent = 0;
	int ret = parse_message(msg, strlen(msg), p);
	printf(">> %s\n   ret=%d\n", msg, ret);
	int answered = 0;
	for (int i = 0; i < nsent; i++) {
		printf("   << %s\n", sent[i]);
		if (strstr(sent[i], id_needle) && (strstr(sent[i], "\"error\"") || strstr(sent[i], "\"result\""))) answered = 1;
	}
	if (id_needle[0] && !answered) {
		/* a routed set/call is answered later by the owner, so "routed to the owner" also counts */
		printf("DEFECT SHOWN: request got neither result nor error response\n");
		bad = 1;
	}
}

int main(void)
{
	setvbuf(stdout, NULL, _IONBF, 0);
	signal(SIGSEGV, on_sig);
	signal(SIGBUS, on_sig);
	signal(SIGABRT, on_sig);
	init_parser();
	element_hashtable_create();
	struct peer *owner = alloc_peer();
	struct peer *setter = alloc_peer();

	/* sanity */
	feed(owner, "{\"id\":1,\"method\":\"add\",\"params\":{\"path\":\"ok\",\"value\":1,\"timeout\":2.5}}", "\"id\":1");
	/* 1. add with huge timeout */
	feed(owner, "{\"id\":2,\"method\":\"add\",\"params\":{\"path\":\"huge\",\"value\":1,\"timeout\":1e30}}", "\"id\":2");
	/* 2. set with huge timeout on an existing state */
	feed(setter, "{\"id\":3,\"method\":\"set\",\"params\":{\"path\":\"ok\",\"value\":2,\"timeout\":1e30}}", "");
	if (!(nsent > 0)) { printf("DEFECT SHOWN: set neither routed nor answered\n"); bad = 1; }
	/* 3. call-style: timeout is +inf after strtod */
	feed(setter, "{\"id\":4,\"method\":\"set\",\"params\":{\"path\":\"ok\",\"value\":2,\"timeout\":1e999}}", "");
	if (!(nsent > 0)) { printf("DEFECT SHOWN: set neither routed nor answered\n"); bad = 1; }
	/* 4. largest value that is still accepted must keep working: ten years */
	feed(owner, "{\"id\":5,\"method\":\"add\",\"params\":{\"path\":\"long\",\"value\":1,\"timeout\":315360000}}", "\"id\":5");

	if (bad) return 1;
	printf("OK: huge timeouts handled without undefined behaviour\n");
	return 0;
}
