/*
 * B9: buffered_socket_writev() queues part of a frame (e.g. the 4 byte length header) in the write buffer and then fails
 * with -1 when a later iovec element does not fit; callers that do not close the connection (fetch notifications) leave a
 * torn frame in the stream.
 * Full real stack (buffered_socket.c, posix/socket.c, socket_peer.c, core) over socketpairs. The fetcher simply does not
 * read for a while (slow consumer), the owner keeps changing the state; afterwards the fetcher reads everything and checks
 * the framing of what cjet sent.
 */
#include <stdio.h>
#include <stdlib.h>
#include <string.h>
#include <sys/socket.h>
#include <unistd.h>
#include <arpa/inet.h>

#include "fullstack.h"

static uint8_t stream[4 * 1024 * 1024];
static size_t stream_len;

static void drain_fetcher(struct fs_conn *f)
{
	for (;;) {
		size_t n = fs_recv(f, stream + stream_len, sizeof stream - stream_len);
		stream_len += n;
		struct io_event *ev = fs_event_of(f->server_fd);
		if (n == 0) {
			if (ev == NULL) break;
			ev->write_function(ev); /* EPOLLOUT: cjet flushes its write buffer */
			n = fs_recv(f, stream + stream_len, sizeof stream - stream_len);
			stream_len += n;
			if (n == 0) break;
		}
	}
}

int main(void)
{
	char buf[2048], msg[512], val[64];
	setvbuf(stdout, NULL, _IONBF, 0);
	fs_init();
	struct fs_conn owner = fs_jet_connect();
	struct fs_conn fetcher = fs_jet_connect();
	int small = 4096;
	setsockopt(fetcher.server_fd, SOL_SOCKET, SO_SNDBUF, &small, sizeof small);

	fs_jet_send_msg(&owner, "{\"id\":1,\"method\":\"add\",\"params\":{\"path\":\"s\",\"value\":\"\"}}");
	fs_pump(&owner);
	fs_jet_recv_msg(&owner, buf, sizeof buf);
	fs_jet_send_msg(&fetcher, "{\"id\":2,\"method\":\"fetch\",\"params\":{\"id\":\"f\",\"path\":{\"equals\":\"s\"}}}");
	fs_pump(&fetcher);
	while (fs_jet_recv_msg(&fetcher, buf, sizeof buf) >= 0) {} /* add event + result: fetcher is in sync up to here */

	int ok = 0, failed = 0, sent = 0;
	for (int i = 1; i <= 20000 && failed < 40; i++) {
		int l = (i * 7) % 41;
		memset(val, 'x', l);
		val[l] = 0;
		snprintf(msg, sizeof msg, "{\"id\":%d,\"method\":\"change\",\"params\":{\"path\":\"s\",\"value\":\"%s\"}}", i + 10, val);
		fs_jet_send_msg(&owner, msg);
		fs_pump(&owner);
		sent++;
		if (fs_jet_recv_msg(&owner, buf, sizeof buf) < 0) { printf("harness problem: owner got no answer\n"); return 2; }
		if (strstr(buf, "\"error\"")) failed++; else ok++;
	}
	printf("   owner sent %d changes while the fetcher was not reading: %d ok, %d answered \"could not notify fetching peer\"\n", sent, ok, failed);
	if (failed == 0) { printf("harness problem: write buffer never filled\n"); return 2; }
	printf("   fetcher connection is %s\n", fs_event_of(fetcher.server_fd) ? "still open (cjet keeps it)" : "closed by cjet");

	/* the fetcher wakes up and reads everything; afterwards one more change */
	drain_fetcher(&fetcher);
	if (fs_event_of(fetcher.server_fd)) {
		fs_jet_send_msg(&owner, "{\"id\":5,\"method\":\"change\",\"params\":{\"path\":\"s\",\"value\":\"last\"}}");
		fs_pump(&owner);
		drain_fetcher(&fetcher);
	}

	/* check framing */
	size_t off = 0;
	int frames = 0;
	while (off < stream_len) {
		uint32_t l;
		if (stream_len - off < 4) { printf("   frame %d at offset %zu: truncated header\n", frames, off); break; }
		memcpy(&l, stream + off, 4);
		l = ntohl(l);
		const uint8_t *p = stream + off + 4;
		if (l == 0 || l > 1000 || stream_len - off - 4 < l || p[0] != '{' || p[l - 1] != '}' || memmem(p, l, "\"event\":\"change\"", 16) == NULL) {
			printf("   frame %d at offset %zu: declared length %u, payload starts with bytes %02x %02x %02x %02x %02x %02x -> NOT a jet message\n",
			       frames, off, l, p[0], p[1], p[2], p[3], p[4], p[5]);
			printf("DEFECT SHOWN: torn frame in the fetcher's stream (length header queued without its payload)\n");
			return 1;
		}
		off += 4 + l;
		frames++;
	}
	if (off != stream_len) { printf("DEFECT SHOWN: trailing partial frame in the stream\n"); return 1; }
	printf("   fetcher read %zu bytes = %d well-formed frames\n", stream_len, frames);
	close(owner.client_fd);
	close(fetcher.client_fd);
	fs_pump(&owner);
	fs_pump(&fetcher);
	fs_shutdown();
	printf("OK: the stream to the slow fetcher stays framed (notifications that did not fit were dropped as a whole)\n");
	return 0;
}
