/*
 * B1: repeated "caseInsensitive" key in a fetch path object.
 * Links the real protocol core; drives it only through parse_message().
 * A SIGSEGV handler turns the NULL call into a clear message + exit 1.
 */
#include <signal.h>
#include <stdio.h>
#include <stdlib.h>
#include <string.h>
#include <unistd.h>

#include "element.h"
#include "eventloop.h"
#include "parse.h"
#include "peer.h"
#include "table.h"

static char sent[64][1024];
static int nsent;

static int send_message(const struct peer *p, char *rendered, size_t len)
{
	(void)p;
	if (nsent < 64) {
		snprintf(sent[nsent++], sizeof sent[0], "%.*s", (int)len, rendered);
	}
	return 0;
}

static enum eventloop_return fake_add(const void *t, const struct io_event *ev) { (void)t; (void)ev; return EL_CONTINUE_LOOP; }
static void fake_remove(void *t, const struct io_event *ev) { (void)t; (void)ev; }
static struct eventloop loop = {.add = fake_add, .remove = fake_remove};

static struct peer *alloc_peer(void)
{
	struct peer *p = calloc(1, sizeof *p);
	init_peer(p, true, &loop);
	p->send_message = send_message;
	return p;
}

static const char *current;
static void on_segv(int sig)
{
	static const char m1[] = "DEFECT SHOWN: SIGSEGV while processing: ";
	(void)sig;
	(void)!write(2, m1, sizeof m1 - 1);
	(void)!write(2, current, strlen(current));
	(void)!write(2, "\n", 1);
	_exit(1);
}

static int feed(struct peer *p, const char *msg)
{
	current = msg;
	nsent = 0;
	int ret = parse_message(msg, strlen(msg), p);
	printf(">> %s\n   ret=%d", msg, ret);
	for (int i = 0; i < nsent; i++) printf("\n   << %s", sent[i]);
	printf("\n");
	return ret;
}

static int last_is_error(void) { return nsent > 0 && strstr(sent[nsent - 1], "\"error\"") != NULL; }
static int any_contains(const char *s) { for (int i = 0; i < nsent; i++) if (strstr(sent[i], s)) return 1; return 0; }

int main(int argc, char **argv)
{
	int bad = 0;
	int variant_only = argc > 1; /* skip the crashing inputs, show only the CASEINSENSITIVE variant */
	setvbuf(stdout, NULL, _IONBF, 0);
	if (!getenv("NO_SEGV_HANDLER")) signal(SIGSEGV, on_segv);
	init_parser();
	element_hashtable_create();
	struct peer *owner = alloc_peer();
	struct peer *fetcher = alloc_peer();

	feed(owner, "{\"id\":1,\"method\":\"add\",\"params\":{\"path\":\"a\",\"value\":1}}");
	feed(owner, "{\"id\":2,\"method\":\"add\",\"params\":{\"path\":\"A\",\"value\":2}}");

	if (variant_only) goto variant;
	/* 1. repeated option key, matcher after the options */
	feed(fetcher, "{\"id\":10,\"method\":\"fetch\",\"params\":{\"id\":\"f1\",\"path\":"
	              "{\"caseInsensitive\":true,\"caseInsensitive\":true,\"equals\":\"a\"}}}");
	/* acceptable: refused with an error, or treated as given once (add events for a and A, then a result) */
	if (!last_is_error()) {
		if (!(any_contains("\"path\":\"a\"") && any_contains("\"path\":\"A\"") && any_contains("\"result\""))) {
			printf("DEFECT SHOWN: fetch neither refused nor treated as 'caseInsensitive given once'\n");
			bad = 1;
		}
	}
	/* 2. the same with "get" (create_fetch is shared) */
	feed(fetcher, "{\"id\":11,\"method\":\"get\",\"params\":{\"path\":"
	              "{\"equals\":\"a\",\"caseInsensitive\":true,\"caseInsensitive\":false}}}");
	if (!last_is_error() && !any_contains("\"result\"")) { printf("DEFECT SHOWN: get: no answer\n"); bad = 1; }

	/* 3. a later added state is matched against the half-filled fetch as well */
	feed(owner, "{\"id\":3,\"method\":\"add\",\"params\":{\"path\":\"b\",\"value\":3}}");

variant:
	/* 4. differently-cased option key: cJSON_GetObjectItem is case-insensitive, add_matchers is not */
	feed(fetcher, "{\"id\":12,\"method\":\"fetch\",\"params\":{\"id\":\"f2\",\"path\":"
	              "{\"equals\":\"a\",\"CASEINSENSITIVE\":true}}}");
	if (!last_is_error()) {
		printf("note: CASEINSENSITIVE variant accepted\n");
	}
	feed(fetcher, "{\"id\":13,\"method\":\"fetch\",\"params\":{\"id\":\"f3\",\"path\":"
	              "{\"CASEINSENSITIVE\":true,\"equals\":\"a\",\"contains\":\"a\"}}}");
	feed(owner, "{\"id\":4,\"method\":\"add\",\"params\":{\"path\":\"c\",\"value\":3}}");

	free_peer_resources(fetcher);
	free_peer_resources(owner);
	free(fetcher);
	free(owner);
	element_hashtable_delete();
	if (bad) return 1;
	printf("OK: repeated option key handled\n");
	return 0;
}
