#!/bin/sh
# usage: run.sh <cjet source tree> ; exit 0 = defect absent, 1 = defect shown
. "$(dirname "$0")/../common/common.sh"
prepare "${1:?source tree}"
C=$(dirname "$0")/../common
clang-14 $CFLAGS_COMMON -fsanitize=address,undefined -fno-omit-frame-pointer \
	$(dirname "$0")/harness.c $C/stubs.c $C/core_stubs.c $JETLIB $SRC/linux/timer_linux.c -o $WORK/h 2>$WORK/cc.log \
	|| { cat $WORK/cc.log; echo "BUILD FAILED"; exit 2; }
[ -n "$NO_SEGV_HANDLER" ] && SEGV=1 || SEGV=0
ASAN_OPTIONS=handle_segv=$SEGV:detect_leaks=1 $WORK/h $2
rc=$?
[ $rc -eq 0 ] && exit 0
echo "harness exit code $rc"
exit 1
