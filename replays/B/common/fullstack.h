/*
 * "Full stack" harness support: the REAL buffered_socket.c, posix/socket.c, socket_peer.c,
 * http_connection.c, http_server.c, websocket.c, websocket_peer.c, compression.c and protocol core
 * run on top of a socketpair(); only the event loop is faked (add/remove record the io_event and
 * the harness dispatches read_function by hand, as eventloop_epoll.c would on EPOLLIN).
 * The connection set-up replicates the bodies of linux_io.c handle_new_jet_connection()/handle_http()
 * (static there) line by line.
 */
#ifndef FULLSTACK_H
#define FULLSTACK_H
#include <stdbool.h>
#include <stddef.h>
#include <stdint.h>
#include "eventloop.h"

struct fs_conn {
	int client_fd; /* the harness' end */
	int server_fd; /* cjet's end */
};

extern struct eventloop fs_loop;
extern int fs_removed_count;

void fs_set_loop(struct eventloop *loop);            /* use another loop (e.g. the real epoll one) instead of the fake */
void fs_init(void);                                  /* init_parser, element table */
void fs_shutdown(void);                              /* destroy_all_peers, delete element table */
struct fs_conn fs_jet_connect(void);                 /* like handle_new_jet_connection() */
struct fs_conn fs_http_connect(void);                /* like handle_http() with the websocket url handler */
struct io_event *fs_event_of(int server_fd);         /* NULL when cjet removed it from the loop */
int fs_pump(struct fs_conn *c);                      /* dispatch EPOLLIN for cjet's end; returns 1 if dispatched */
void fs_send(struct fs_conn *c, const void *buf, size_t len);
size_t fs_recv(struct fs_conn *c, void *buf, size_t max); /* non-blocking; returns bytes read, 0 if nothing */
bool fs_peer_closed(struct fs_conn *c);              /* true if cjet closed its end (EOF seen on client side) */

void fs_jet_send_msg(struct fs_conn *c, const char *json);     /* 4-byte BE length + payload */
int fs_jet_recv_msg(struct fs_conn *c, char *out, size_t max); /* returns length or -1 */

void fs_ws_handshake(struct fs_conn *c);                       /* sends a valid upgrade request, consumes the 101 */
void fs_ws_send_frame(struct fs_conn *c, bool fin, unsigned opcode, const void *payload, size_t len);
/* returns opcode of received frame or -1; payload copied to out (NUL-terminated) */
int fs_ws_recv_frame(struct fs_conn *c, uint8_t *out, size_t max, size_t *len);
#endif
