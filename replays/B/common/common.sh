# Sourced by every run.sh.  Usage: . common.sh ; prepare <source-tree> -> sets SRC, GEN, WORK
# Generates generated/{cjet_config,os_config,version}.h from the tree's *.h.in templates
# with the project's default values (same values as the cmake test build).
prepare() {
	TREE=$(cd "$1" && pwd)
	SRC=$TREE/src
	WORK=$(mktemp -d /tmp/replayB.XXXXXX)
	GEN=$WORK/gen
	mkdir -p $GEN/generated
	sed -e 's/${CONFIG_JET_PORT}/'${JET_PORT:-22122}'/' -e 's/${CONFIG_JETWS_PORT}/'${JETWS_PORT:-22123}'/' \
	    -e 's/${CONFIG_LISTEN_BACKLOG}/40/' -e 's/${CONFIG_MAX_MESSAGE_SIZE}/512/' \
	    -e 's/${CONFIG_MAX_WRITE_BUFFER_SIZE}/5120/' -e 's/${CONFIG_ELEMENT_TABLE_ORDER}/13/' \
	    -e 's/${CONFIG_ROUTING_TABLE_ORDER}/6/' -e 's/${CONFIG_INITIAL_FETCH_TABLE_SIZE}/4/' \
	    -e 's/${CONFIG_ROUTED_MESSAGES_TIMEOUT}/5.0/' -e 's/${CONFIG_MAX_NUMBERS_OF_MATCHERS_IN_FETCH}/12/' \
	    -e 's/${CONFIG_ALLOW_ADD_ONLY_FROM_LOCALHOST}/false/' -e 's/${CONFIG_MAX_HEAPSIZE_IN_KBYTE}/20480/' \
	    $SRC/cjet_config.h.in > $GEN/generated/cjet_config.h
	sed -e 's/${CONFIG_MAX_EPOLL_EVENTS}/10/' -e 's#${CONFIG_UDS_FILE}#/var/run/jet.socket#' \
	    -e 's#${WEBSOCKET_PATH}#/api/jet/#' $SRC/linux/config/os_config.h.in > $GEN/generated/os_config.h
	sed -e 's/${CJET_VERSION}/1.10.0/' -e 's/${CJET_LAST}/-replay/' -e 's/${PROJECT_NAME}/cjet/' \
	    $SRC/version.h.in > $GEN/generated/version.h
	CFLAGS_COMMON="-std=gnu99 -g -O0 -D_GNU_SOURCE -D_DEFAULT_SOURCE=1 -D_BSD_SOURCE=1 -DTESTING -I$SRC -I$GEN -Wall -Wno-unused-function"
	# the protocol core ("libjet" of src/tests/CMakeLists.txt)
	JETLIB="$SRC/alloc.c $SRC/authenticate.c $SRC/config.c $SRC/element.c $SRC/fetch.c $SRC/groups.c $SRC/info.c
	        $SRC/jet_string.c $SRC/json/cJSON.c $SRC/linux/jet_string.c $SRC/parse.c $SRC/peer.c $SRC/posix/jet_string.c
	        $SRC/response.c $SRC/router.c $SRC/table.c $SRC/timer.c $SRC/utf8_checker.c"
	COMMON=$(cd "$(dirname "$0")/../common" && pwd)
	ZLIB="$SRC/zlib/adler32.c $SRC/zlib/deflate.c $SRC/zlib/inffast.c $SRC/zlib/inflate.c $SRC/zlib/inftrees.c $SRC/zlib/trees.c $SRC/zlib/zutil.c"
	# transports on top of the core (everything except linux_io.c / eventloop_epoll.c / main.c / log.c / auth_file.c)
	FULLSTACK="$COMMON/fullstack.c $COMMON/stubs.c $COMMON/core_stubs.c $JETLIB $SRC/buffered_socket.c $SRC/posix/socket.c
	        $SRC/socket_peer.c $SRC/http_connection.c $SRC/http_server.c $SRC/http-parser/http_parser.c $SRC/websocket.c
	        $SRC/websocket_peer.c $SRC/compression.c $SRC/base64.c $SRC/sha1/sha1.c $SRC/linux/jet_endian.c $SRC/linux/random.c
	        $SRC/linux/timer_linux.c $ZLIB"
	trap 'rm -rf "$WORK"' EXIT
}

# build <output> <extra cflags> <sources...> : compiles in parallel, links; exits 2 on build failure
build() {
	out=$1; flags=$2; shift 2
	mkdir -p $WORK/obj
	n=0
	for f in "$@"; do n=$((n+1)); echo "$f $WORK/obj/$n.o"; done > $WORK/units
	if ! xargs -P8 -L1 sh -c 'clang-14 '"$CFLAGS_COMMON -DNO_GZIP -I$COMMON $flags"' -c "$0" -o "$1" 2>>'"$WORK"'/cc.log || exit 255' < $WORK/units; then
		cat $WORK/cc.log; echo "BUILD FAILED"; exit 2
	fi
	clang-14 $flags $WORK/obj/*.o -o $out 2>>$WORK/cc.log || { cat $WORK/cc.log; echo "LINK FAILED"; exit 2; }
}
