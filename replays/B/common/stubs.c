/* log stubs shared by the harnesses (the daemon's posix/log.c writes to syslog) */
#include <stdarg.h>
#include <stdio.h>
#include "log.h"

char last_log[1000];
void log_err(const char *format, ...) { va_list ap; va_start(ap, format); vsnprintf(last_log, sizeof last_log, format, ap); va_end(ap); }
void log_warn(const char *format, ...) { va_list ap; va_start(ap, format); vsnprintf(last_log, sizeof last_log, format, ap); va_end(ap); }
void log_info(const char *format, ...) { va_list ap; va_start(ap, format); vsnprintf(last_log, sizeof last_log, format, ap); va_end(ap); }
