#include <errno.h>
#include <fcntl.h>
#include <signal.h>
#include <stdio.h>
#include <stdlib.h>
#include <string.h>
#include <sys/socket.h>
#include <unistd.h>
#include <arpa/inet.h>

#include "alloc.h"
#include "buffered_reader.h"
#include "buffered_socket.h"
#include "element.h"
#include "http_connection.h"
#include "http_server.h"
#include "parse.h"
#include "peer.h"
#include "socket_peer.h"
#include "table.h"
#include "websocket.h"
#include "websocket_peer.h"
#include "fullstack.h"

#define MAXFD 1024
static struct io_event *events[MAXFD];
int fs_removed_count;

static enum eventloop_return fs_add(const void *this_ptr, const struct io_event *ev)
{
	(void)this_ptr;
	events[ev->sock] = (struct io_event *)ev;
	return EL_CONTINUE_LOOP;
}

static void fs_remove(void *this_ptr, const struct io_event *ev)
{
	(void)this_ptr;
	if (events[ev->sock] == ev) events[ev->sock] = NULL;
	fs_removed_count++;
}

static struct http_server server;
struct eventloop fs_loop = {.add = fs_add, .remove = fs_remove};
static struct eventloop *current_loop = &fs_loop;

void fs_set_loop(struct eventloop *loop)
{
	current_loop = loop;
	server.ev.loop = loop;
}

static const struct url_handler handler[] = {
	{
		.request_target = "/api/jet/",
		.create = alloc_websocket_peer,
		.on_header_field = websocket_upgrade_on_header_field,
		.on_header_value = websocket_upgrade_on_header_value,
		.on_headers_complete = websocket_upgrade_on_headers_complete,
		.on_body = NULL,
		.on_message_complete = NULL,
	},
};


void fs_init(void)
{
	server.ev.loop = current_loop;
	server.handler = handler;
	server.num_handlers = 1;
	signal(SIGPIPE, SIG_IGN); /* as posix/main.c does */
	init_parser();
	element_hashtable_create();
}

void fs_shutdown(void)
{
	destroy_all_peers();
	element_hashtable_delete();
}

static struct fs_conn make_pair(void)
{
	int sv[2];
	if (socketpair(AF_UNIX, SOCK_STREAM, 0, sv) < 0) { perror("socketpair"); exit(2); }
	fcntl(sv[0], F_SETFL, fcntl(sv[0], F_GETFL, 0) | O_NONBLOCK);
	fcntl(sv[1], F_SETFL, fcntl(sv[1], F_GETFL, 0) | O_NONBLOCK);
	struct fs_conn c = {.client_fd = sv[0], .server_fd = sv[1]};
	return c;
}

static void fill_br(struct buffered_reader *br, struct buffered_socket *bs)
{
	br->this_ptr = bs;
	br->close = buffered_socket_close;
	br->read_exactly = buffered_socket_read_exactly;
	br->read_until = buffered_socket_read_until;
	br->set_error_handler = buffered_socket_set_error;
	br->writev = buffered_socket_writev;
}

struct fs_conn fs_jet_connect(void)
{
	struct fs_conn c = make_pair();
	struct socket_peer *peer = alloc_jet_peer();
	struct buffered_socket *bs = buffered_socket_acquire();
	buffered_socket_init(bs, (socket_type)c.server_fd, current_loop, free_peer_on_error, peer);
	struct buffered_reader br;
	fill_br(&br, bs);
	init_socket_peer(peer, &br, true);
	return c;
}

struct fs_conn fs_http_connect(void)
{
	struct fs_conn c = make_pair();
	struct http_connection *connection = alloc_http_connection();
	struct buffered_socket *bs = buffered_socket_acquire();
	buffered_socket_init(bs, (socket_type)c.server_fd, current_loop, free_connection, connection);
	struct buffered_reader br;
	fill_br(&br, bs);
	init_http_connection(connection, &server, &br, true);
	return c;
}

struct io_event *fs_event_of(int server_fd) { return events[server_fd]; }

int fs_pump(struct fs_conn *c)
{
	struct io_event *ev = events[c->server_fd];
	if (ev == NULL) return 0;
	ev->read_function(ev);
	return 1;
}

void fs_send(struct fs_conn *c, const void *buf, size_t len)
{
	if (write(c->client_fd, buf, len) != (ssize_t)len) { perror("fs_send"); exit(2); }
}

size_t fs_recv(struct fs_conn *c, void *buf, size_t max)
{
	ssize_t n = read(c->client_fd, buf, max);
	return n > 0 ? (size_t)n : 0;
}

bool fs_peer_closed(struct fs_conn *c)
{
	char b;
	ssize_t n = recv(c->client_fd, &b, 1, MSG_PEEK);
	return n == 0 || (n < 0 && errno != EAGAIN && errno != EWOULDBLOCK);
}

void fs_jet_send_msg(struct fs_conn *c, const char *json)
{
	uint32_t l = htonl((uint32_t)strlen(json));
	fs_send(c, &l, 4);
	fs_send(c, json, strlen(json));
}

int fs_jet_recv_msg(struct fs_conn *c, char *out, size_t max)
{
	uint32_t l;
	if (fs_recv(c, &l, 4) != 4) return -1;
	l = ntohl(l);
	if (l + 1 > max) return -1;
	if (fs_recv(c, out, l) != l) return -1;
	out[l] = 0;
	return (int)l;
}

void fs_ws_handshake(struct fs_conn *c)
{
	static const char req[] =
		"GET /api/jet/ HTTP/1.1\r\n"
		"Host: localhost\r\n"
		"Upgrade: websocket\r\n"
		"Connection: Upgrade\r\n"
		"Sec-WebSocket-Key: dGhlIHNhbXBsZSBub25jZQ==\r\n"
		"Sec-WebSocket-Protocol: jet\r\n"
		"Sec-WebSocket-Version: 13\r\n\r\n";
	char resp[1024];
	fs_send(c, req, sizeof req - 1);
	fs_pump(c);
	size_t n = fs_recv(c, resp, sizeof resp - 1);
	resp[n] = 0;
	if (strncmp(resp, "HTTP/1.1 101", 12) != 0) { fprintf(stderr, "handshake failed: %s\n", resp); exit(2); }
}

void fs_ws_send_frame(struct fs_conn *c, bool fin, unsigned opcode, const void *payload, size_t len)
{
	uint8_t f[4096];
	static const uint8_t mask[4] = {0x11, 0x22, 0x33, 0x44};
	size_t i = 0;
	f[i++] = (uint8_t)((fin ? 0x80 : 0) | opcode);
	if (len < 126) {
		f[i++] = (uint8_t)(0x80 | len);
	} else {
		f[i++] = 0x80 | 126;
		f[i++] = (uint8_t)(len >> 8);
		f[i++] = (uint8_t)len;
	}
	memcpy(&f[i], mask, 4);
	i += 4;
	for (size_t k = 0; k < len; k++) f[i + k] = ((const uint8_t *)payload)[k] ^ mask[k % 4];
	fs_send(c, f, i + len);
}

int fs_ws_recv_frame(struct fs_conn *c, uint8_t *out, size_t max, size_t *len)
{
	uint8_t h[2];
	if (fs_recv(c, h, 2) != 2) return -1;
	size_t l = h[1] & 0x7f;
	if (l == 126) {
		uint8_t e[2];
		if (fs_recv(c, e, 2) != 2) return -1;
		l = ((size_t)e[0] << 8) | e[1];
	}
	if (l + 1 > max) return -1;
	if (l > 0 && fs_recv(c, out, l) != l) return -1;
	out[l] = 0;
	*len = l;
	return h[0] & 0x0f;
}
