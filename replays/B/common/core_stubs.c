/* what src/tests/auth_stub.cpp and the fetch/state tests stub for the protocol core */
#include <stdint.h>
#include <string.h>
#include "authenticate.h"
#include "socket.h"

__attribute__((weak)) const cJSON *credentials_ok(const char *user, char *passwd) { (void)user; (void)passwd; return NULL; }
__attribute__((weak)) cJSON *change_password(const struct peer *p, const cJSON *request, const char *user, char *passwd)
{ (void)p; (void)request; (void)user; (void)passwd; return NULL; }
__attribute__((weak)) cjet_ssize_t socket_read(socket_type sock, void *buf, size_t count)
{ (void)sock; (void)count; uint64_t n = 1; memcpy(buf, &n, sizeof n); return 8; }
__attribute__((weak)) int socket_close(socket_type sock) { (void)sock; return 0; }
