/*
 * B5: prepare_peer_socket() closes fd on some failure paths AND both callers close it again.
 * The real linux_io.c is #included (the functions are static); close/fcntl/setsockopt are interposed
 * with -Wl,--wrap so that a failure can be injected and every close() of the accepted descriptor is counted.
 */
#include <arpa/inet.h>
#include <errno.h>
#include <stdarg.h>
#include <stdio.h>

#include "linux/linux_io.c"

#include "fullstack.h"

static int victim = -1;
static int closes_of_victim;
static int ebadf_closes;
static int fail_setfl;
static int fail_keepidle;

int __real_close(int fd);
int __real_fcntl(int fd, int cmd, long arg);
int __real_setsockopt(int fd, int level, int optname, const void *optval, socklen_t optlen);

int __wrap_close(int fd)
{
	int ret = __real_close(fd);
	if (fd == victim) {
		closes_of_victim++;
		printf("   close(%d) #%d -> %d%s\n", fd, closes_of_victim, ret, (ret < 0 && errno == EBADF) ? " (EBADF)" : "");
		if (ret < 0 && errno == EBADF) ebadf_closes++;
	}
	return ret;
}

int __wrap_fcntl(int fd, int cmd, ...)
{
	va_list ap;
	va_start(ap, cmd);
	long arg = va_arg(ap, long);
	va_end(ap);
	if (fd == victim && cmd == F_SETFL && fail_setfl) {
		errno = EINVAL;
		return -1;
	}
	return __real_fcntl(fd, cmd, arg);
}

int __wrap_setsockopt(int fd, int level, int optname, const void *optval, socklen_t optlen)
{
	if (fd == victim && level == SOL_TCP && optname == TCP_KEEPIDLE && fail_keepidle) {
		errno = ENOPROTOOPT;
		return -1;
	}
	return __real_setsockopt(fd, level, optname, optval, optlen);
}

/* a real accepted TCP connection on the loopback interface (AF_INET, so the keepalive branch is taken) */
static int accepted_tcp_socket(int *client)
{
	int l = socket(AF_INET, SOCK_STREAM, 0);
	int one = 1;
	__real_setsockopt(l, SOL_SOCKET, SO_REUSEADDR, &one, sizeof one);
	struct sockaddr_in a;
	memset(&a, 0, sizeof a);
	a.sin_family = AF_INET;
	a.sin_addr.s_addr = htonl(INADDR_LOOPBACK);
	a.sin_port = htons(CONFIG_JET_PORT);
	if (bind(l, (struct sockaddr *)&a, sizeof a) < 0 || listen(l, 1) < 0) { perror("bind/listen"); exit(2); }
	*client = socket(AF_INET, SOCK_STREAM, 0);
	if (connect(*client, (struct sockaddr *)&a, sizeof a) < 0) { perror("connect"); exit(2); }
	int fd = accept(l, NULL, NULL);
	__real_close(l);
	return fd;
}

static int check(const char *what)
{
	int bad = closes_of_victim != 1;
	printf("   %s: descriptor closed %d time(s)%s\n", what, closes_of_victim, bad ? "  <-- not exactly once" : "");
	return bad;
}

int main(void)
{
	setvbuf(stdout, NULL, _IONBF, 0);
	int bad = 0;
	int client;
	struct http_server server = {.ev = {.loop = &fs_loop}, .handler = NULL, .num_handlers = 0};
	struct jet_server jet_server = {.ev = {.loop = &fs_loop}};
	fs_init();

	printf("-- 1: handle_new_jet_connection(), fcntl(F_SETFL) fails\n");
	victim = accepted_tcp_socket(&client);
	closes_of_victim = 0; fail_setfl = 1; fail_keepidle = 0;
	handle_new_jet_connection(&jet_server.ev, victim, true);
	bad |= check("jet, O_NONBLOCK failure");
	__real_close(client);

	printf("-- 2: handle_http(), setsockopt(TCP_KEEPIDLE) fails\n");
	victim = accepted_tcp_socket(&client);
	closes_of_victim = 0; fail_setfl = 0; fail_keepidle = 1;
	handle_http(&server.ev, victim, true);
	bad |= check("http, keepalive failure");
	__real_close(client);

	printf("-- 3: control: no injected failure, peer disconnects\n");
	victim = accepted_tcp_socket(&client);
	closes_of_victim = 0; fail_setfl = 0; fail_keepidle = 0;
	handle_new_jet_connection(&jet_server.ev, victim, true);
	__real_close(client);
	struct fs_conn c = {.client_fd = -1, .server_fd = victim};
	fs_pump(&c); /* cjet reads EOF and closes */
	bad |= check("jet, normal life cycle");

	fs_shutdown();
	if (bad) { printf("DEFECT SHOWN: accepted descriptor closed twice (%d close() calls hit EBADF)\n", ebadf_closes); return 1; }
	printf("OK: every accepted descriptor closed exactly once\n");
	return 0;
}
