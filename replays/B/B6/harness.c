/*
 * B6: accept() errors other than EAGAIN abort the whole event loop.
 * Real linux_io.c (#included, static functions), real eventloop_epoll.c, real listening TCP socket on
 * 127.0.0.1:CONFIG_JET_PORT. accept() is interposed (-Wl,--wrap=accept) to fail ONCE with a given errno.
 */
#include <arpa/inet.h>
#include <errno.h>
#include <stdio.h>
#include <sys/resource.h>

#include "linux/linux_io.c"

#include "linux/eventloop_epoll.h"
#include "peer.h"
#include "fullstack.h"

static int inject_errno;
int __real_accept(int fd, struct sockaddr *addr, socklen_t *len);
int __wrap_accept(int fd, struct sockaddr *addr, socklen_t *len)
{
	if (inject_errno != 0) {
		errno = inject_errno;
		inject_errno = 0;
		return -1;
	}
	return __real_accept(fd, addr, len);
}

static int keep_running = 1;
static int ctl[2];
static enum eventloop_return ctl_read(struct io_event *ev)
{
	char b[16];
	while (read(ev->sock, b, sizeof b) > 0) {}
	keep_running = 0;
	return EL_CONTINUE_LOOP;
}
static enum eventloop_return ctl_error(struct io_event *ev) { (void)ev; return EL_CONTINUE_LOOP; }

/* one "turn" of the daemon: handle everything that is ready now, then return */
static int turn(struct eventloop_epoll *eloop)
{
	keep_running = 1;
	if (write(ctl[1], "x", 1) != 1) exit(2);
	return eventloop_epoll_run(eloop, &keep_running);
}

static int tcp_connect(void)
{
	struct sockaddr_in a;
	memset(&a, 0, sizeof a);
	a.sin_family = AF_INET;
	a.sin_addr.s_addr = htonl(INADDR_LOOPBACK);
	a.sin_port = htons(CONFIG_JET_PORT);
	int c = socket(AF_INET, SOCK_STREAM, 0);
	if (connect(c, (struct sockaddr *)&a, sizeof a) < 0) { perror("connect"); exit(2); }
	return c;
}

static int one_errno(int err, const char *name)
{
	int bad = 0;
	struct eventloop_epoll eloop = {
		.loop = {.this_ptr = &eloop, .init = eventloop_epoll_init, .destroy = eventloop_epoll_destroy,
		         .run = eventloop_epoll_run, .add = eventloop_epoll_add, .remove = eventloop_epoll_remove}};
	eloop.loop.init(&eloop);

	int lfd = create_server_socket_bound("127.0.0.1", CONFIG_JET_PORT);
	if (lfd < 0) { printf("cannot listen on port %d\n", CONFIG_JET_PORT); exit(2); }
	struct jet_server server = {.ev = {.read_function = accept_jet, .write_function = NULL,
	                                   .error_function = accept_jet_error, .loop = &eloop.loop, .sock = lfd}};
	if (start_server(&server.ev) < 0) { printf("start_server failed\n"); exit(2); }

	if (pipe(ctl) < 0) exit(2);
	set_fd_non_blocking(ctl[0]);
	struct io_event ctl_ev = {.sock = ctl[0], .read_function = ctl_read, .error_function = ctl_error, .loop = &eloop.loop};
	eloop.loop.add(&eloop, &ctl_ev);

	struct rlimit old_limit;
	getrlimit(RLIMIT_NOFILE, &old_limit);
	inject_errno = err > 0 ? err : 0;
	int c1 = tcp_connect();
	if (err == -1) {
		/* no injection: the process really is at its descriptor limit, accept() fails with EMFILE by itself */
		struct rlimit l = old_limit;
		l.rlim_cur = (rlim_t)c1 + 1;
		setrlimit(RLIMIT_NOFILE, &l);
	}
	int r1 = turn(&eloop);
	setrlimit(RLIMIT_NOFILE, &old_limit);
	int c2 = tcp_connect();
	int r2 = (r1 == 0) ? turn(&eloop) : -1;
	int peers = get_number_of_peers();
	printf("   accept() -> %-12s : event loop %s; connection made afterwards %s (%d peer(s))\n", name,
	       r1 == 0 ? "keeps running" : "ABORTED (daemon terminates)",
	       (r2 == 0 && peers >= 1) ? "is served" : "is NOT served", peers);
	if (r1 != 0 || r2 != 0 || peers < 1) bad = 1;

	destroy_all_peers();
	close(c1);
	close(c2);
	eloop.loop.remove(&eloop, &ctl_ev);
	close(ctl[0]);
	close(ctl[1]);
	stop_server(&server.ev);
	eloop.loop.destroy(&eloop);
	return bad;
}

int main(void)
{
	setvbuf(stdout, NULL, _IONBF, 0);
	fs_init();
	int bad = 0;
	printf("-- a failing accept() must only affect that connection attempt\n");
	bad |= one_errno(0, "(no error)");
	bad |= one_errno(ECONNABORTED, "ECONNABORTED");
	bad |= one_errno(EINTR, "EINTR");
	bad |= one_errno(EPROTO, "EPROTO");
	bad |= one_errno(EPERM, "EPERM");
	bad |= one_errno(EMFILE, "EMFILE");
	bad |= one_errno(ENFILE, "ENFILE");
	bad |= one_errno(ENOBUFS, "ENOBUFS");
	bad |= one_errno(ENOMEM, "ENOMEM");
	bad |= one_errno(-1, "real EMFILE");
	printf("-- control: a programming error on the listen socket may still abort\n");
	one_errno(EBADF, "EBADF");
	element_hashtable_delete();
	if (bad) { printf("DEFECT SHOWN: a transient/per-connection accept() error terminates the event loop\n"); return 1; }
	printf("OK: transient accept() errors are not fatal\n");
	return 0;
}
