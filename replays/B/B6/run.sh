#!/bin/sh
# usage: run.sh <cjet source tree> ; exit 0 = defect absent, 1 = defect shown
# uses TCP port 22122 on 127.0.0.1 (override with JET_PORT=...)
. "$(dirname "$0")/../common/common.sh"
prepare "${1:?source tree}"
build $WORK/h "-fsanitize=address -fno-omit-frame-pointer -Wl,--wrap=accept" $(dirname "$0")/harness.c $FULLSTACK $SRC/linux/eventloop_epoll.c
$WORK/h
rc=$?
[ $rc -eq 0 ] && exit 0
[ $rc -eq 1 ] && exit 1
echo "harness exit code $rc"; exit 1
