#!/usr/bin/env python3
"""Regenerate MANIFEST.json from the rule modules present under sa/props (keeps it valid at all times)."""
import importlib, json, os, sys
sys.path.insert(0, os.path.dirname(os.path.abspath(__file__)))
from sa.kit import _added
props = [json.loads(l) for l in open("properties.jsonl")]
checks, na, served = [], [], []
for p in props:
    pid = p["id"]
    try:
        mod = importlib.import_module("sa.props." + pid.lower())
    except ImportError:
        na.append({"property_id": pid, "reason": "check not built yet (construction in progress, see DESIGN.md section 7)"})
        continue
    if getattr(mod, "NOT_APPLICABLE", None):
        na.append({"property_id": pid, "reason": mod.NOT_APPLICABLE})
        continue
    m = mod.META
    served.append(pid)
    checks.append({
        "property_id": pid,
        "quick_cmd": "./check %s --tier quick" % pid,
        "thorough_cmd": "./check %s --tier thorough" % pid,
        "evidence_file": "evidence/%s.json" % pid,
        "replay_cmd_template": "./check %s --replay {path}" % pid,
        "engine": "cjet-sa",
        "level_claimed": {
            "category": "other",
            "text": "Static analysis of the resolved program (all paths of the anchored functions, all call sites of the anchored "
                    "callees): " + m["explanation"] + _added(pid) + " NOT decided: " + m.get("not_decided", "-"),
            "design_ref": "DESIGN.md section 3, " + pid,
        },
        "level_note": "Decides structural necessary conditions of the property, not the behavioural statement. Trusted: clang-14 -O0 "
                      "IR of the current tree (not the -O3 binary), llvm-link, mem2reg, the exporter, the role bindings of the rules. "
                      + " ".join(m.get("assumptions", [])),
        "technique": m.get("technique", "static analysis: repository-specific dataflow / guard-dominance / path rules over LLVM IR (CFG, SSA, resolved call graph)"),
    })
man = {
    "version": 1,
    "setup_cmd": "./setup.sh",
    "hooks": {"guard": "CJET_VERIF",
              "enable": "none needed: the analysis reads the unmodified sources (no hook commits in /repo)",
              "baseline_off_cmd": "cmake -G Ninja -S /repo -B /repo/_build && cmake --build /repo/_build && ctest --test-dir /repo/_build -j8 --timeout 900",
              "source_commits": [], "add_only": True},
    "engines": [{"name": "cjet-sa", "path": "sa/", "serves_properties": served,
                 "kind_free_text": "static analysis: repo CMake -> clang-14 -O0 LLVM IR per unit -> llvm-link -> mem2reg -> C++ exporter "
                                   "(sa/ir2facts.cc) -> repository-specific Python rules over CFG/SSA/call graph (sa/props/*.py)"}],
    "checks": checks,
    "notes": "Every check is static: no cjet binary is built or run; a few small pure functions are turned into tables by finite evaluation of their exported IR (DESIGN.md section 0 says which). Exit 0 = all obligations discharged (KNOWN-FINDING lines for recorded "
             "defects), 1 = VIOLATION, 2 = analysis broken (anchor missing / floor not met). See DESIGN.md.",
    "not_applicable": na,
}
json.dump(man, open("MANIFEST.json", "w"), indent=1)
print("claimed:", served, "not applicable:", [x["property_id"] for x in na])
