/* Positive example for sa/lints/shift.cq: each of the three matchers must report exactly one line of this file on every run
 * (a query that matches nothing would pass vacuously for ever). Not part of cjet, never linked. */
#include <stdint.h>
uint32_t pos1(const uint8_t *b) { return b[0] << 24; }          /* promoted unsigned char shifted into the sign bit */
uint32_t pos2(const uint16_t *h) { return h[0] << 16; }         /* promoted unsigned short shifted into the sign bit */
uint32_t pos3(void) { return 1 << 31; }                         /* int literal shifted into the sign bit */
uint32_t neg1(const uint8_t *b) { return (uint32_t)b[0] << 24; } /* fine */
uint32_t neg2(const uint8_t *b) { return b[0] << 16; }           /* fine */
uint32_t neg3(void) { return 1u << 31; }                         /* fine */
uint32_t pos4(unsigned j) { uint32_t g = 0; g |= (1 << j); return g; } /* shift_var.cq: int literal shifted by a variable, result used as unsigned */
uint32_t neg4(unsigned j) { uint32_t g = 0; g |= (1u << j); return g; } /* fine */
