"""Resolved program model over the exported facts: functions, CFG, dominators,
terms (access paths), condition atoms, pruned reachability, path enumeration."""
import os
from functools import lru_cache

from ..frontend import AnalysisBroken, REPO


class Inst:
    __slots__ = ("id", "op", "ty", "a", "line", "lf", "name", "callee", "ind", "pred", "succ", "cases",
                 "default", "inc", "path", "st", "at", "size", "block", "fn", "idx")

    def __init__(self, d, block, fn, idx):
        self.id = d["i"]
        self.op = d["o"]
        self.ty = d.get("t")
        self.a = d.get("a", [])
        self.line = d.get("l", 0)
        self.lf = d.get("lf")
        self.name = d.get("n")
        self.callee = d.get("callee")
        self.ind = d.get("ind")
        self.pred = d.get("pred")
        self.succ = d.get("succ")
        self.cases = d.get("cases")
        self.default = d.get("default")
        self.inc = d.get("inc")
        self.path = d.get("path")
        self.st = d.get("st")
        self.at = d.get("at")
        self.size = d.get("size")
        self.block = block
        self.fn = fn
        self.idx = idx

    @property
    def loc(self):
        f = self.lf or self.fn.file
        return "%s:%d" % (os.path.relpath(f, REPO) if f.startswith(REPO) else f, self.line)

    def __repr__(self):
        return "<%s %%%d %s @%s>" % (self.fn.srcname, self.id, self.op + (":" + self.callee if self.callee else ""), self.loc)


class Function:
    def __init__(self, name, d, prog):
        self.name = name
        self.prog = prog
        self.file = d.get("file", "")
        self.line = d.get("line", 0)
        self.srcname = d.get("srcname") or name
        self.internal = d.get("internal", False)
        self.ret = d.get("ret")
        self.params = d["params"]
        self.nparams = len(self.params)
        self.blocks = []  # list of list of Inst
        self.insts = {}
        for b in d["blocks"]:
            lst = []
            for k, i in enumerate(b["insts"]):
                ins = Inst(i, b["id"], self, k)
                lst.append(ins)
                self.insts[ins.id] = ins
            self.blocks.append(lst)
        self.nblocks = len(self.blocks)
        self.succs = []
        for lst in self.blocks:
            t = lst[-1]
            if t.op == "br":
                self.succs.append(list(t.succ))
            elif t.op == "switch":
                s = [t.default] + [c[1] for c in t.cases]
                self.succs.append(s)
            else:
                self.succs.append([])
        self.preds = [[] for _ in self.blocks]
        for b, ss in enumerate(self.succs):
            for s in set(ss):
                self.preds[s].append(b)
        self._dom = None
        self._pdom = None
        self._users = None

    @property
    def base(self):
        return os.path.basename(self.file)

    @property
    def key(self):
        return "%s:%s" % (self.base, self.srcname)

    def all_insts(self):
        for lst in self.blocks:
            for i in lst:
                yield i

    def term_inst(self, b):
        return self.blocks[b][-1]

    def calls(self, callee=None):
        """call instructions, optionally to the named source-level callee(s)"""
        if isinstance(callee, str):
            callee = (callee,)
        out = []
        for i in self.all_insts():
            if i.op != "call":
                continue
            if callee is None:
                out.append(i)
            elif i.callee and self.prog.srcname_of(i.callee) in callee:
                out.append(i)
        return out

    def users(self, vid):
        if self._users is None:
            u = {}
            for i in self.all_insts():
                ops = list(i.a)
                if i.inc:
                    ops += [x[0] for x in i.inc]
                if i.ind is not None:
                    ops.append(i.ind)
                if i.path:
                    for st in i.path:
                        if st[0] in ("p", "a"):
                            ops.append(st[1])
                for o in ops:
                    if isinstance(o, int):
                        u.setdefault(o, []).append(i)
            self._users = u
        return self._users.get(vid, [])

    # ---- dominators (simple iterative; functions are small) ----
    def dominators(self):
        if self._dom is None:
            self._dom = _dominators(self.nblocks, self.succs, self.preds, 0)
        return self._dom

    def dominates(self, a, b):
        return a in self.dominators()[b]

    def reachable(self, start=0, removed_edges=(), removed_blocks=(), succs=None):
        succs = succs or self.succs
        rem = set(removed_edges)
        rb = set(removed_blocks)
        seen = set()
        if start in rb:
            return seen
        st = [start]
        seen.add(start)
        while st:
            b = st.pop()
            for s in succs[b]:
                if (b, s) in rem or s in rb or s in seen:
                    continue
                seen.add(s)
                st.append(s)
        return seen

    def back_edges(self):
        dom = self.dominators()
        out = set()
        for b, ss in enumerate(self.succs):
            for s in ss:
                if s in dom[b]:
                    out.add((b, s))
        return out

    def loops(self):
        """natural loops: header -> set of blocks"""
        res = {}
        for (b, h) in self.back_edges():
            body = res.setdefault(h, {h})
            st = [b]
            while st:
                x = st.pop()
                if x in body:
                    continue
                body.add(x)
                st.extend(self.preds[x])
        return res


def _dominators(n, succs, preds, entry):
    allb = set(range(n))
    dom = [set(allb) for _ in range(n)]
    dom[entry] = {entry}
    changed = True
    # reachable only
    order = []
    seen = {entry}
    st = [entry]
    while st:
        b = st.pop()
        order.append(b)
        for s in succs[b]:
            if s not in seen:
                seen.add(s)
                st.append(s)
    while changed:
        changed = False
        for b in order:
            if b == entry:
                continue
            ps = [p for p in preds[b] if p in seen]
            if not ps:
                continue
            new = set.intersection(*[dom[p] for p in ps]) | {b}
            if new != dom[b]:
                dom[b] = new
                changed = True
    for b in range(n):
        if b not in seen:
            dom[b] = {b}
    return dom


CAST_OPS = ("bitcast", "zext", "sext", "trunc", "ptrtoint", "inttoptr", "addrspacecast")


class Program:
    def __init__(self, facts):
        self.facts = facts
        self.meta = facts.get("meta", {})
        self.structs = facts["structs"]
        self.globals = facts["globals"]
        self.declared = set(facts["declared"])
        self.functions = {}
        self.by_key = {}
        self.by_src = {}
        for name, d in facts["functions"].items():
            f = Function(name, d, self)
            self.functions[name] = f
            self.by_key.setdefault(f.key, []).append(f)
            self.by_src.setdefault(f.srcname, []).append(f)
        self._field_names = {}
        for sn, sd in self.structs.items():
            m = {}
            for mem in sd.get("members", []):
                m.setdefault(mem["idx"], []).append(mem)
            self._field_names[sn] = m
        # names for anonymous nested aggregates, recovered through the parent's debug info
        self.bitfields = {}  # (parent struct, parent field name) -> list of sub members
        for sn, sd in list(self.structs.items()):
            for mem in sd.get("members", []):
                sub = mem.get("sub")
                if not sub:
                    continue
                self.bitfields[(sn, mem["name"])] = sub
                fty = sd["fields"][mem["idx"]]["ty"] if mem["idx"] < len(sd["fields"]) else ""
                if fty.startswith("%struct.anon") or fty.startswith("%union.anon"):
                    an = fty[1:]
                    ad = self.structs.get(an)
                    if ad and an not in self._field_names_named(an):
                        m = {}
                        for sm in sub:
                            off = sm["off_bits"] // 8
                            idx = None
                            for k, fl in enumerate(ad["fields"]):
                                if fl["off"] <= off:
                                    idx = k
                            if idx is not None:
                                m.setdefault(idx, []).append(sm)
                        self._field_names[an] = m
        self._callers = None

    def _field_names_named(self, an):
        return {an} if self._field_names.get(an) else set()

    def bitfield_name(self, struct, field, shift, mask):
        """member of an anonymous bit-field group accessed as (load field >> shift) & mask"""
        sub = self.bitfields.get((struct, field))
        if not sub:
            return None
        width = bin(mask).count("1")
        for sm in sub:
            if sm["off_bits"] == shift and sm["size_bits"] == width:
                return sm["name"]
        return None

    # ---- lookup ----
    def fn(self, spec, required=True):
        """'file.c:name' or 'name' (must be unique)"""
        if ":" in spec:
            l = self.by_key.get(spec, [])
        else:
            l = self.by_src.get(spec, [])
        if len(l) == 1:
            return l[0]
        if not l:
            if required:
                raise AnalysisBroken("anchor function '%s' not found in the program" % spec)
            return None
        raise AnalysisBroken("anchor function '%s' is ambiguous (%d definitions)" % (spec, len(l)))

    def srcname_of(self, irname):
        f = self.functions.get(irname)
        if f:
            return f.srcname
        return irname

    def own(self, f):
        """cjet's own code (not cJSON / zlib / http_parser / sha1)"""
        p = f.file
        return p.startswith(REPO + "/src/") and not any(
            x in p for x in ("/json/", "/zlib/", "/http-parser/", "/sha1/", "/tests/"))

    def own_functions(self):
        return [f for f in self.functions.values() if self.own(f)]

    def field_name(self, struct, idx):
        ms = self._field_names.get(struct, {}).get(idx)
        if not ms:
            return "#%d" % idx
        if len(ms) == 1:
            return ms[0]["name"]
        return "|".join(m["name"] for m in ms)

    def field_index(self, struct, name):
        sd = self.structs.get(struct)
        if not sd:
            raise AnalysisBroken("anchor struct '%s' not found" % struct)
        for mem in sd.get("members", []):
            if mem["name"] == name:
                return mem["idx"]
        raise AnalysisBroken("anchor field '%s.%s' not found" % (struct, name))

    def callers(self):
        if self._callers is None:
            c = {}
            for f in self.functions.values():
                for i in f.all_insts():
                    if i.op == "call" and i.callee:
                        c.setdefault(i.callee, []).append(i)
            self._callers = c
        return self._callers

    def callers_of(self, fn):
        return self.callers().get(fn.name, [])

    # ---- operands ----
    @staticmethod
    def const_int(o):
        if isinstance(o, list) and o and o[0] == "c":
            return o[1]
        return None

    @staticmethod
    def is_null(o):
        return isinstance(o, list) and o and o[0] == "n"

    @staticmethod
    def literal(o):
        """string literal text of a constant operand (GEP into a constant string)"""
        if isinstance(o, list) and o:
            if o[0] == "s":
                return o[1]
            if o[0] == "ce" and o[1] in ("getelementptr", "bitcast") and o[2]:
                return Program.literal(o[2][0])
        return None

    def strip(self, f, o):
        """strip casts of an SSA operand"""
        while isinstance(o, int):
            i = f.insts.get(o)
            if i is None or i.op not in CAST_OPS:
                break
            o = i.a[0]
        if isinstance(o, list) and o and o[0] == "ce" and o[1] in ("bitcast", "ptrtoint", "inttoptr"):
            return self.strip(f, o[2][0])
        return o

    # ---- terms ----
    def term(self, f, o, depth=0):
        """symbolic term of an operand; loads are expanded syntactically."""
        if depth > 12:
            return ("deep",)
        if isinstance(o, list):
            k = o[0]
            if k == "c":
                return ("const", o[1])
            if k == "n":
                return ("null",)
            if k == "s":
                return ("str", o[1])
            if k == "g":
                return ("global", o[1])
            if k == "f":
                return ("func", self.srcname_of(o[1]))
            if k == "fp":
                return ("fp", o[1])
            if k == "u":
                return ("undef",)
            if k == "ce":
                if o[1] == "getelementptr":
                    lit = self.literal(o)
                    if lit is not None:
                        return ("str", lit)
                    base = self.term(f, o[2][0], depth + 1)
                    idx = tuple(self.const_int(x) for x in o[2][1:])
                    return ("cgep", base, idx)
                if o[1] in CAST_OPS:
                    return self.term(f, o[2][0], depth + 1)
                return ("ce", o[1], tuple(self.term(f, x, depth + 1) for x in o[2]))
            return (k,)
        if o < f.nparams:
            return ("param", o, f.params[o]["name"])
        i = f.insts[o]
        op = i.op
        if op in CAST_OPS:
            return self.term(f, i.a[0], depth + 1)
        if op == "load":
            return ("load", self.term(f, i.a[0], depth + 1))
        if op == "getelementptr":
            t = self.term(f, i.a[0], depth + 1)
            # container_of: i8 gep with negative constant
            if i.st == "i8" and len(i.path) == 1:
                c = self.const_int(i.path[0][1])
                if c is not None and c < 0:
                    return ("container_of", t, -c)
                if c is not None:
                    return ("byteoff", t, c)
                return ("index", t, self.term(f, i.path[0][1], depth + 1), 1)
            for st in i.path:
                if st[0] == "p":
                    c = self.const_int(st[1])
                    if c == 0:
                        continue
                    t = ("index", t, self.term(f, st[1], depth + 1), st[2])
                elif st[0] == "f":
                    t = ("field", t, st[1], self.field_name(st[1], st[2]))
                else:
                    t = ("index", t, self.term(f, st[1], depth + 1), st[2])
            return t
        if op == "call":
            if i.callee:
                cn = self.srcname_of(i.callee)
                if cn.startswith("llvm.expect"):
                    return self.term(f, i.a[0], depth + 1)
                return ("call", cn, tuple(self.term(f, x, depth + 1) for x in i.a), i.id)
            return ("icall", self.term(f, i.ind, depth + 1), tuple(self.term(f, x, depth + 1) for x in i.a), i.id)
        if op == "phi":
            return ("phi", i.id)
        if op == "alloca":
            return ("alloca", i.id, i.name)
        if op == "icmp" or op == "fcmp":
            return ("cmp", i.pred, self.term(f, i.a[0], depth + 1), self.term(f, i.a[1], depth + 1))
        if op == "select":
            return ("select",) + tuple(self.term(f, x, depth + 1) for x in i.a)
        return ("op", op, tuple(self.term(f, x, depth + 1) for x in i.a))

    # ---- conditions ----
    def cond(self, f, o, phi_env=None):
        """normalise an i1/boolean operand into (atom, polarity) or ('const', bool).
        atom forms: ('cmp', pred, lhs, rhs) | ('truth', term) | ('phi', id)"""
        pol = True
        for _ in range(40):
            c = self.const_int(o)
            if c is not None:
                return ("const", bool(c) == pol)
            if not isinstance(o, int) or o < f.nparams:
                return (("truth", self.term(f, o)), pol)
            i = f.insts[o]
            if i.op in ("zext", "sext", "trunc", "bitcast"):
                o = i.a[0]
                continue
            if i.op == "call" and i.callee and i.callee.startswith("llvm.expect"):
                o = i.a[0]
                continue
            if i.op == "xor" and self.const_int(i.a[1]) in (1, -1, True) and (i.ty == "i1"):
                o = i.a[0]
                pol = not pol
                continue
            if i.op == "icmp":
                l, r = i.a
                # both sides constant once phis are resolved for this path: fold the branch (return codes of spliced helpers)
                lc, rc2 = self._resolve_const(f, l, phi_env), self._resolve_const(f, r, phi_env)
                if lc is not None and rc2 is not None:
                    bits = 64
                    res = {"eq": lc == rc2, "ne": lc != rc2, "slt": lc < rc2, "sle": lc <= rc2, "sgt": lc > rc2, "sge": lc >= rc2,
                           "ult": (lc % (1 << bits)) < (rc2 % (1 << bits)), "ule": (lc % (1 << bits)) <= (rc2 % (1 << bits)),
                           "ugt": (lc % (1 << bits)) > (rc2 % (1 << bits)), "uge": (lc % (1 << bits)) >= (rc2 % (1 << bits))}.get(i.pred)
                    if res is not None:
                        return ("const", res == pol)
                rc = self.const_int(r)
                if rc == 0 and i.pred in ("ne", "eq") and self._is_boolish(f, l):
                    o = l
                    if i.pred == "eq":
                        pol = not pol
                    continue
                return (("cmp", i.pred, self.term(f, l), self.term(f, r)), pol)
            if i.op == "phi":
                if phi_env is not None and i.id in phi_env and phi_env[i.id] != o:
                    o = phi_env[i.id]
                    continue
                return (("phi", i.id), pol)
            if i.op == "fcmp":
                return (("cmp", "f" + i.pred, self.term(f, i.a[0]), self.term(f, i.a[1])), pol)
            return (("truth", self.term(f, o)), pol)
        raise AnalysisBroken("condition normaliser did not terminate in %s" % f.name)

    def _resolve_const(self, f, o, env):
        """integer constant an operand has on this path (phis resolved through env, casts followed), else None"""
        for _ in range(12):
            c = self.const_int(o)
            if c is not None:
                return c
            if self.is_null(o):
                return 0
            if not isinstance(o, int) or o < f.nparams:
                return None
            i = f.insts[o]
            if i.op == "phi":
                if env is not None and i.id in env and env[i.id] != o:
                    o = env[i.id]
                    continue
                return None
            if i.op in ("zext", "sext", "trunc", "bitcast"):
                o = i.a[0]
                continue
            return None
        return None

    def _is_boolish(self, f, o):
        """operand is (a widening of) an i1 value or a bool-typed call/load"""
        for _ in range(10):
            if not isinstance(o, int) or o < f.nparams:
                return False
            i = f.insts[o]
            if i.ty == "i1":
                return True
            if i.op in ("zext", "sext"):
                o = i.a[0]
                continue
            if i.op == "call" and i.callee and i.callee.startswith("llvm.expect"):
                o = i.a[0]
                continue
            return False
        return False

    def edge_conds(self, f, b, pred=None, phi_env=None):
        """for block b: list of (succ, atom, polarity) ; atom None for unconditional.
        If pred is given, phis in b are resolved for the incoming edge pred->b."""
        t = f.term_inst(b)
        if t.op == "br":
            if len(t.succ) == 1:
                return [(t.succ[0], None, True)]
            env = dict(phi_env or {})
            if pred is not None:
                for i in f.blocks[b]:
                    if i.op != "phi":
                        break
                    for (val, pb) in i.inc:
                        if pb == pred:
                            if isinstance(val, int) and phi_env and val in phi_env:
                                val = phi_env[val]
                            env[i.id] = val
            r = self.cond(f, t.a[0], env)
            if r[0] == "const":
                return [(t.succ[0] if r[1] else t.succ[1], None, True)]
            atom, pol = r
            return [(t.succ[0], atom, pol), (t.succ[1], atom, not pol)]
        if t.op == "switch":
            tm = self.term(f, t.a[0])
            out = []
            vals = []
            for (v, s) in t.cases:
                out.append((s, ("switch", tm, v), True))
                vals.append(v)
            out.append((t.default, ("switch_default", tm, tuple(vals)), True))
            return out
        return []

    # ---- pruned edge graph ----
    def edge_graph(self, f):
        """Nodes are (pred, block) pairs (pred=-1 for entry). Successors computed with
        phi-resolution for the incoming edge, which removes infeasible short-circuit paths.
        Returns dict node -> list of (succnode, atom, pol)."""
        g = {}
        st = [(-1, 0)]
        while st:
            n = st.pop()
            if n in g:
                continue
            p, b = n
            outs = []
            for (s, atom, pol) in self.edge_conds(f, b, p if p >= 0 else None):
                outs.append(((b, s), atom, pol))
            g[n] = outs
            for (sn, _, _) in outs:
                if sn not in g:
                    st.append(sn)
        return g

    def reach_blocks(self, f, drop=None, start=(-1, 0), stop_blocks=()):
        """blocks reachable in the pruned edge graph when every edge for which
        drop(atom, pol, from_block, to_block) is true is deleted; traversal does not
        continue through stop_blocks (they are still reported reachable)."""
        g = self.edge_graph(f)
        seen = {start}
        st = [start]
        blocks = {start[1]}
        while st:
            n = st.pop()
            if n[1] in stop_blocks:
                continue
            for (sn, atom, pol) in g.get(n, []):
                if drop and atom is not None and drop(atom, pol, n[1], sn[1]):
                    continue
                if sn not in seen:
                    seen.add(sn)
                    blocks.add(sn[1])
                    st.append(sn)
        return blocks

    # ---- path enumeration ----
    def paths(self, f, max_paths=200000, loop_iters=1, start=0):
        """all entry->exit paths, each back edge taken at most loop_iters times.
        yields list of (block, atom, pol) where atom/pol is the condition of the edge
        taken INTO that block (None for entry/unconditional)."""
        back = f.back_edges()
        count = [0]
        out = []

        def immutable(t):
            # terms whose value cannot change along a path: parameters and constants only
            if not isinstance(t, tuple):
                return True
            k = t[0]
            if k in ("param", "const", "null"):
                return True
            if k == "cmp":
                return immutable(t[2]) and immutable(t[3])
            if k == "truth":
                return immutable(t[1])
            return False

        writer = []
        for blk in f.blocks:
            w = False
            for ins in blk:
                if ins.op == "store" or (ins.op == "call" and not (ins.callee or "").startswith("llvm.")):
                    w = True
            writer.append(w)

        NEG = {"eq": "ne", "ne": "eq", "slt": "sge", "sge": "slt", "sgt": "sle", "sle": "sgt",
               "ult": "uge", "uge": "ult", "ugt": "ule", "ule": "ugt"}

        def lit(a, p):
            """(term, const, relation) for comparisons against a constant / null"""
            if a[0] == "cmp" and a[1] in NEG and a[3][0] in ("const", "null"):
                c = a[3][1] if a[3][0] == "const" else 0
                return (a[2], c, a[1] if p else NEG[a[1]])
            if a[0] == "truth":
                return (a[1], 0, "ne" if p else "eq")
            return None

        def interval(rel, c):
            inf = float("inf")
            return {"eq": (c, c), "slt": (-inf, c - 1), "sle": (-inf, c), "sgt": (c + 1, inf), "sge": (c, inf),
                    "ult": (0, c - 1), "ule": (0, c), "ugt": (c + 1, inf), "uge": (c, inf)}.get(rel)

        def clash(l1, l2):
            if l1[0] != l2[0]:
                return False
            (_, c1, r1), (_, c2, r2) = l1, l2
            if r1 == "ne" and r2 == "ne":
                return False
            if r1 == "ne":
                return r2 == "eq" and c1 == c2
            if r2 == "ne":
                return r1 == "eq" and c1 == c2
            signed = {"slt", "sle", "sgt", "sge"}
            unsigned = {"ult", "ule", "ugt", "uge"}
            if (r1 in signed and r2 in unsigned) or (r1 in unsigned and r2 in signed):
                return False
            i1, i2 = interval(r1, c1), interval(r2, c2)
            if i1 is None or i2 is None:
                return False
            return max(i1[0], i2[0]) > min(i1[1], i2[1])

        def parts(t, acc):
            """collect phis / call ids / has-load of a term"""
            if not isinstance(t, tuple) or not t:
                return
            if isinstance(t[0], tuple):
                for x in t:
                    parts(x, acc)
                return
            if t[0] == "phi":
                acc["phi"].add(t[1])
            elif t[0] in ("call", "icall"):
                acc["call"].add(t[3])
                parts(t[2], acc)
                return
            elif t[0] == "load":
                acc["load"] = True
            for x in t[1:]:
                if isinstance(x, tuple):
                    parts(x, acc)

        def contradicts(path, atom, pol):
            if atom is None:
                return False
            l2 = lit(atom, pol)
            if l2 is None or len(path) < 2:
                return False
            acc = {"phi": set(), "call": set(), "load": False}
            parts(l2[0], acc)
            phi_blocks = {f.insts[x].block for x in acc["phi"]}
            call_blocks = {f.insts[x].block for x in acc["call"] if x in f.insts}
            needs_quiet = acc["load"]
            k = len(path) - 1
            # the new atom is evaluated at the end of path[-1]; atom path[k] was evaluated before path[k][0] ran
            while k >= 1:
                blk = path[k][0]
                if blk in phi_blocks and k != len(path) - 1:
                    break
                if blk in phi_blocks and k == len(path) - 1:
                    # phi (re)assigned on entry to the current block: earlier atoms talk about the previous value
                    break
                if blk in call_blocks:
                    # the call executed in this block: atoms before it concern an earlier execution (only relevant in loops)
                    if any(path[j][0] == blk for j in range(1, k)):
                        break
                if needs_quiet and writer[blk]:
                    break
                (_, a, p) = path[k]
                if a is not None:
                    l1 = lit(a, p)
                    if l1 is not None and clash(l1, l2):
                        return True
                k -= 1
            return False

        def rec(b, pred, path, env, becount):
            # update phi env for this block
            env2 = env
            if pred is not None:
                first = True
                for i in f.blocks[b]:
                    if i.op != "phi":
                        break
                    for (val, pb) in i.inc:
                        if pb == pred:
                            if first:
                                env2 = dict(env)
                                first = False
                            # phis of one block are evaluated simultaneously against the
                            # environment before the edge; chained phis resolve right away
                            if isinstance(val, int) and val in env:
                                val = env[val]
                            env2[i.id] = val
            edges = self.edge_conds(f, b, None, env2)
            if not edges:
                count[0] += 1
                if count[0] > max_paths:
                    raise AnalysisBroken("path cap (%d) hit in %s" % (max_paths, f.name))
                out.append(list(path))
                return
            for (s, atom, pol) in edges:
                e = (b, s)
                bc = becount
                if e in back:
                    n = becount.get(e, 0)
                    if n >= loop_iters:
                        continue
                    bc = dict(becount)
                    bc[e] = n + 1
                if contradicts(path, atom, pol):
                    continue
                path.append((s, atom, pol))
                rec(s, b, path, env2, bc)
                path.pop()

        import sys
        sys.setrecursionlimit(10000)
        rec(start, None, [(start, None, True)], {}, {})
        return out


def fmt_term(t, depth=0):
    """human readable rendering of a term"""
    if not isinstance(t, tuple):
        return str(t)
    k = t[0]
    if k == "param":
        return t[2] or "arg%d" % t[1]
    if k == "const":
        return str(t[1])
    if k == "null":
        return "NULL"
    if k == "str":
        return '"%s"' % t[1]
    if k == "global":
        return t[1]
    if k == "func":
        return t[1]
    if k == "load":
        a = t[1]
        if a[0] == "field":
            return "%s->%s" % (fmt_term(a[1]), a[3])
        if a[0] == "alloca":
            return a[2] or "local%d" % a[1]
        return "*(%s)" % fmt_term(a)
    if k == "field":
        return "&%s->%s" % (fmt_term(t[1]), t[3])
    if k == "call":
        return "%s(%s)" % (t[1], ", ".join(fmt_term(x) for x in t[2]))
    if k == "icall":
        return "(%s)(%s)" % (fmt_term(t[1]), ", ".join(fmt_term(x) for x in t[2]))
    if k == "cmp":
        return "(%s %s %s)" % (fmt_term(t[2]), t[1], fmt_term(t[3]))
    if k == "truth":
        return fmt_term(t[1])
    if k == "alloca":
        return "&" + (t[2] or "local%d" % t[1])
    if k == "container_of":
        return "container_of(%s,-%d)" % (fmt_term(t[1]), t[2])
    if k == "index":
        return "%s[%s]" % (fmt_term(t[1]), fmt_term(t[2]))
    if k == "op":
        return "%s(%s)" % (t[1], ", ".join(fmt_term(x) for x in t[2]))
    if k == "phi":
        return "phi%d" % t[1]
    return str(t)


def fmt_atom(atom, pol):
    if atom is None:
        return "-"
    s = fmt_term(atom)
    return s if pol else "!" + s
