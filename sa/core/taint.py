"""Forward interprocedural (context-insensitive) taint over SSA values."""
from .program import CAST_OPS


class Taint:
    def __init__(self, P, cg):
        self.P = P
        self.cg = cg
        self.tainted = {}  # (fn name, value id) -> origin
        self.cells = {}    # (fn name, alloca id) -> origin  (address-taken locals)
        self.sanitizers = set()
        self.propagators = {"strdup", "duplicate_string", "strcpy", "strncpy", "memcpy", "strcat"}
        self.out_props = {}   # callee srcname -> (source argument, out-parameter argument): *out points into / is derived from source
        self._sinks = []
        self._stores = []
        self._work = []

    def add_source(self, f, vid, origin):
        self._mark(f, vid, origin)

    def _mark(self, f, vid, origin):
        k = (f.name, vid)
        if k in self.tainted:
            return
        self.tainted[k] = origin
        self._work.append((f, vid))

    def n_tainted(self):
        return len(self.tainted)

    def is_t(self, f, o):
        return isinstance(o, int) and (f.name, o) in self.tainted

    def run(self):
        P = self.P
        seen_sink = set()
        seen_store = set()
        while self._work:
            f, vid = self._work.pop()
            origin = self.tainted[(f.name, vid)]
            for u in f.users(vid):
                if u.op in CAST_OPS or u.op in ("getelementptr", "phi", "select", "add", "sub", "mul", "and", "or", "xor",
                                                 "shl", "lshr", "ashr"):
                    if u.op == "getelementptr" and u.a[0] != vid:
                        continue  # tainted index only
                    self._mark(f, u.id, origin)
                elif u.op == "load":
                    if u.a[0] == vid:
                        self._mark(f, u.id, origin)
                elif u.op == "store":
                    if u.a[0] == vid:
                        dst = P.strip(f, u.a[1])
                        if isinstance(dst, int) and dst >= f.nparams and f.insts[dst].op == "alloca":
                            ck = (f.name, dst)
                            if ck not in self.cells:
                                self.cells[ck] = origin
                                # every load of that cell becomes tainted; the cell address too (passed as out-param)
                                for lu in f.users(dst):
                                    if lu.op == "load":
                                        self._mark(f, lu.id, origin)
                        else:
                            if (f.name, u.id) not in seen_store:
                                seen_store.add((f.name, u.id))
                                self._stores.append((f, u, origin))
                elif u.op == "call":
                    ks = [k for k, a in enumerate(u.a) if a == vid]
                    if not ks:
                        continue
                    targets = self.cg.targets(f, u)
                    for k in ks:
                        if (f.name, u.id, k) not in seen_sink:
                            seen_sink.add((f.name, u.id, k))
                            self._sinks.append((f, u, k, origin))
                    name = P.srcname_of(u.callee) if u.callee else None
                    for tname in targets:
                        g = P.functions.get(tname)
                        if g is None:
                            continue
                        for k in ks:
                            if k < g.nparams:
                                self._mark(g, k, origin)
                    if name in self.out_props and self.out_props[name][0] in ks and self.out_props[name][1] < len(u.a):
                        dst = P.strip(f, u.a[self.out_props[name][1]])
                        if isinstance(dst, int) and dst >= f.nparams and f.insts[dst].op == "alloca":
                            ck = (f.name, dst)
                            if ck not in self.cells:
                                self.cells[ck] = origin
                                for lu in f.users(dst):
                                    if lu.op == "load":
                                        self._mark(f, lu.id, origin)
                    if name in self.sanitizers:
                        continue
                    if name in self.propagators and u.ty:
                        self._mark(f, u.id, origin)
                elif u.op == "ret":
                    # tainted return value: taint the call result at every caller
                    if f.srcname in self.sanitizers:
                        continue
                    for c in P.callers_of(f):
                        self._mark(c.fn, c.id, origin)

    def sink_hits(self):
        return list(self._sinks)

    def store_hits(self):
        return list(self._stores)
