"""Path-sensitive ownership / null-discipline analysis (R-OWN, R-NULL) over the resolved program.

Per function and per enumerated path the walker tracks objects acquired on that path (results of producer calls):
    state in {owned, released, escaped, null}
together with the memory locations they were stored to (so that `cjet_free(e->path)` in an unwinding ladder or a null test of
`e->fetcher_table` is attributed to the object stored there). Summaries for own callees (what they do with a pointer parameter,
whether they return a fresh object, whether they dereference a parameter without a null test) are computed by the same walker."""
from ..frontend import AnalysisBroken
from . import queries as Q
from .program import fmt_term, CAST_OPS

HEAP_PRODUCERS = {"cjet_malloc", "cjet_calloc", "malloc", "calloc", "duplicate_string", "strdup", "cJSON_Print", "cJSON_PrintUnformatted",
                  "hashtable_create_route_table", "hashtable_create_element_table"}
JSON_PRODUCERS = {"cJSON_CreateObject", "cJSON_CreateArray", "cJSON_CreateString", "cJSON_CreateNumber", "cJSON_CreateTrue",
                  "cJSON_CreateFalse", "cJSON_CreateNull", "cJSON_CreateBool", "cJSON_Duplicate", "cJSON_Parse", "cJSON_ParseWithOpts",
                  "cJSON_ParseWithLengthOpts", "cJSON_ParseWithLength"}
FD_PRODUCERS = {"accept", "socket", "open", "timerfd_create", "epoll_create", "epoll_create1", "mkstemp", "accept4"}
RELEASERS = {"cjet_free": 0, "free": 0, "cJSON_Delete": 0, "close": 0, "socket_close": 0, "hashtable_delete_route_table": 0,
             "hashtable_delete_element_table": 0, "kfree": 0}
NULL_SAFE = {"cjet_free": False, "free": True, "cJSON_Delete": True}  # may be called with NULL?
# external functions that dereference the given argument positions
EXT_DEREF = {"strlen": {0}, "strcmp": {0, 1}, "strncmp": {0, 1}, "strcpy": {0, 1}, "strncpy": {0, 1}, "strcat": {0, 1}, "strstr": {0, 1},
             "strchr": {0}, "memcmp": {0, 1}, "jet_strcasecmp": {0, 1}, "jet_strncasecmp": {0, 1}, "jet_strcasestr": {0, 1}, "crypt": {0, 1},
             "realpath": {0}, "fputs": {0}, "puts": {0}, "atoi": {0}, "strtol": {0}, "unlink": {0}, "rename": {0, 1}, "stat": {0, 1},
             "llvm.memcpy.p0i8.p0i8.i64": {0, 1}, "llvm.memmove.p0i8.p0i8.i64": {0, 1}, "llvm.memset.p0i8.i64": {0}, "snprintf": set(),
             "mkstemp": {0}}
# consumers: (callee srcname) -> (arg index, mode) ; mode 'always' | 'on_true' | 'on_zero'
CONSUMERS = {"cJSON_AddItemToObject": (2, "on_true"), "cJSON_AddItemToArray": (1, "always_nonnull"), "cJSON_ReplaceItemInObject": (2, "always"),
             "cJSON_AddItemToObjectCS": (2, "on_true"),
             # links the replacement in place of the item and deletes the item; refuses only a NULL argument
             "cJSON_ReplaceItemViaPointer": (2, "always_nonnull")}


class Finding:
    def __init__(self, kind, f, site, what, view=None, obj=None):
        self.kind, self.f, self.site, self.what, self.view, self.obj = kind, f, site, what, view, obj


class Own:
    def __init__(self, ctx, P, cg):
        self.ctx, self.P, self.cg = ctx, P, cg
        self.own_producers = {}   # ir name -> kind, discovered
        self._fate = {}
        self._taken = {}
        self._deref = None
        self._views = {}
        self._discover_producers()

    # ---------- helpers ----------
    def views(self, f):
        v = self._views.get(f.name)
        if v is None:
            v = Q.path_views(self.ctx, self.P, f)
            self._views[f.name] = v
        return v

    def producer_kind(self, f, call):
        if not call.callee:
            return None
        n = self.P.srcname_of(call.callee)
        if n in HEAP_PRODUCERS:
            return "heap"
        if n in JSON_PRODUCERS:
            return "json"
        if n in FD_PRODUCERS:
            return "fd"
        return self.own_producers.get(call.callee)

    def _discover_producers(self):
        P = self.P
        changed = True
        rounds = 0
        while changed and rounds < 8:
            changed = False
            rounds += 1
            for f in P.own_functions():
                if f.name in self.own_producers or not f.ret or not f.ret.endswith("*"):
                    continue
                kinds = set()
                ok = True
                nonnull = 0
                for v in self.views(f):
                    if v.ret_is_null():
                        continue
                    o = v.ret_operand()
                    if o is None:
                        ok = False
                        break
                    o = P.strip(f, v.resolve(o))      # (a single return block: the returned value is a phi, resolved along the path)
                    if isinstance(o, int) and o >= f.nparams and f.insts[o].op == "call":
                        k = self.producer_kind(f, f.insts[o])
                        if k in ("heap", "json"):
                            kinds.add(k)
                            nonnull += 1
                            continue
                    ok = False
                    break
                if ok and nonnull and len(kinds) == 1:
                    self.own_producers[f.name] = kinds.pop()
                    changed = True

    # ---------- deref summaries ----------
    def deref_params(self):
        """ir name -> set of param indices that may be dereferenced without a dominating null test"""
        if self._deref is not None:
            return self._deref
        P = self.P
        res = {}
        fns = [f for f in P.functions.values() if P.own(f) or "/json/" in f.file]

        def derived_from_param(f, o):
            """param index if pointer operand is param (through casts / GEP), else None"""
            for _ in range(20):
                o = P.strip(f, o)
                if not isinstance(o, int):
                    return None
                if o < f.nparams:
                    return o
                i = f.insts[o]
                if i.op == "getelementptr":
                    o = i.a[0]
                    continue
                return None
            return None
        changed = True
        rounds = 0
        while changed and rounds < 10:
            changed = False
            rounds += 1
            for f in fns:
                cur = res.get(f.name, set())
                new = set(cur)
                for i in f.all_insts():
                    cands = []
                    if i.op == "load":
                        cands.append(derived_from_param(f, i.a[0]))
                    elif i.op == "store":
                        cands.append(derived_from_param(f, i.a[1]))
                    elif i.op == "call":
                        tgt = self.cg.targets(f, i) if not i.callee else {i.callee}
                        for tn in tgt:
                            sn = P.srcname_of(tn)
                            dk = res.get(tn)
                            if dk is None and sn in EXT_DEREF:
                                dk = EXT_DEREF[sn]
                            if not dk:
                                continue
                            for k in dk:
                                if k < len(i.a):
                                    pk = P.strip(f, i.a[k])
                                    if isinstance(pk, int) and pk < f.nparams:
                                        cands.append(pk)
                    for k in cands:
                        if k is None or k in new:
                            continue
                        if not f.params[k]["ty"].endswith("*"):
                            continue
                        pt = ("param", k, f.params[k]["name"])

                        def nn(atom, pol, pt=pt):
                            if atom[0] == "cmp" and atom[2] == pt and atom[3] == ("null",):
                                return not Q._poleq(atom, pol)
                            if atom[0] == "truth" and atom[1] == pt:
                                return pol
                            return False
                        if not Q.must_pass(P, f, i.block, nn):
                            new.add(k)
                if new != cur:
                    res[f.name] = new
                    changed = True
        self._deref = res
        return res

    # ---------- path walker ----------
    def walk(self, f, view, track_params=()):
        """walk one path; returns (objects, events, findings)
        objects: list of dict(id, kind, site(inst), state, escapes[list], null(bool))"""
        P = self.P
        objs = []
        val2obj = {}
        slots = {}       # alloca id -> obj
        mem = {}         # address term -> obj
        aggregates = {}  # alloca id (aggregate) -> obj stored inside
        findings = []
        env_index = {b: k for k, b in enumerate(view.blocks)}

        def new_obj(kind, site, label):
            o = {"id": len(objs), "kind": kind, "site": site, "label": label, "state": "owned", "escapes": [], "released_at": None}
            objs.append(o)
            return o
        for k in track_params:
            o = new_obj("param", None, "param %s" % f.params[k]["name"])
            val2obj[k] = o
        # which calls returned NULL / failed on this path
        failed_calls = set()
        ok_calls = set()
        atoms2 = []
        envs = view.envs()
        for k, (b, a, p) in enumerate(view.path):
            if a is None:
                continue
            if a[0] == "cmp" and a[2][0] == "phi" and k >= 1:
                val = envs[k - 1].get(a[2][1])
                for _ in range(6):
                    if isinstance(val, int) and val >= f.nparams and f.insts[val].op in CAST_OPS:
                        val = f.insts[val].a[0]
                        val = envs[k - 1].get(val, val)
                if isinstance(val, int) and val >= f.nparams and f.insts[val].op == "call":
                    a = ("cmp", a[1], P.term(f, val), a[3])
            atoms2.append((a, p))
        for (a, p) in atoms2:
            if a[0] == "cmp" and a[2][0] == "call":
                cid = a[2][3]
                if a[3] == ("null",):
                    (failed_calls if Q._poleq(a, p) else ok_calls).add(cid)
                elif a[3][0] == "const":
                    eff = a[1] if p else Q.negate_pred(a[1])
                    c = a[3][1]
                    if (eff == "eq" and c == -1) or (eff in ("slt",) and c == 0) or (eff == "sle" and c == -1):
                        failed_calls.add(("neg", cid))
                    if (eff == "ne" and c == -1) or (eff == "sge" and c == 0) or (eff == "sgt" and c == -1):
                        ok_calls.add(("nonneg", cid))
                    if eff == "eq" and c == 0:
                        ok_calls.add(("zero", cid))
                    if eff == "ne" and c == 0:
                        failed_calls.add(("nonzero", cid))
            if a[0] == "truth" and a[1][0] == "call":
                (ok_calls if p else failed_calls).add(("truth", a[1][3]))

        def obj_of(operand, bidx, interior=False):
            o = view.resolve(operand, bidx) if isinstance(operand, int) else operand
            for _ in range(12):
                if not isinstance(o, int):
                    return None
                if o in val2obj:
                    return val2obj[o]
                if o < f.nparams:
                    return None
                i = f.insts[o]
                if i.op in CAST_OPS:
                    o = view.resolve(i.a[0], bidx)
                    continue
                if i.op == "getelementptr" and i.st == "i8" and len(i.path) == 1 and P.const_int(i.path[0][1]) == 0:
                    o = view.resolve(i.a[0], bidx)
                    continue
                if i.op == "getelementptr" and interior:
                    o = view.resolve(i.a[0], bidx)
                    continue
                return None
            return None
        events = []
        pos = -1
        for bidx, b in enumerate(view.blocks):
            for i in f.blocks[b]:
                if i.op == "phi":
                    continue
                pos += 1
                if i.op == "call":
                    name = P.srcname_of(i.callee) if i.callee else None
                    kind = self.producer_kind(f, i)
                    # releases
                    if name in RELEASERS and RELEASERS[name] < len(i.a):
                        o = obj_of(i.a[RELEASERS[name]], bidx)
                        if o is None:
                            t = P.term(f, view.resolve(i.a[RELEASERS[name]], bidx) if isinstance(i.a[RELEASERS[name]], int) else i.a[RELEASERS[name]])
                            if t in mem:
                                o = mem[t]
                        if o is not None:
                            if o["state"] == "released":
                                findings.append(Finding("double-release", f, i, "%s acquired at %s is released twice on one path (first at %s)" %
                                                        (o["label"], o["site"].loc if o["site"] is not None else "entry", o["released_at"].loc), view, o))
                            elif o["state"] == "escaped" and o["escapes"] and o["escapes"][-1][0].startswith("callee-taken:") and o["site"] is not None:
                                findings.append(Finding("double-release", f, i, "%s acquired at %s is released although %s() (called at %s) has "
                                                        "already taken it over on this path: on every path of that result the callee frees its "
                                                        "argument or attaches it to the message it builds" %
                                                        (o["label"], o["site"].loc, o["escapes"][-1][0][13:], o["escapes"][-1][1].loc), view, o))
                            o["state"] = "released"
                            o["released_at"] = i
                        events.append(("release", i, o))
                        continue
                    # consumers
                    if name in CONSUMERS:
                        k, mode = CONSUMERS[name]
                        if k < len(i.a):
                            o = obj_of(i.a[k], bidx)
                            if o is not None and o["state"] == "owned":
                                used = bool(f.users(i.id))
                                if mode in ("always", "always_nonnull"):
                                    o["state"] = "escaped"
                                    o["escapes"].append(("consumed", i))
                                elif mode == "on_true":
                                    if ("truth", i.id) in failed_calls or ("zero", i.id) in ok_calls:
                                        pass  # not consumed on this path
                                    elif not used:
                                        o["state"] = "escaped"
                                        o["escapes"].append(("consumed-unchecked", i))
                                        findings.append(Finding("unchecked-consume", f, i,
                                                                "the result of %s is ignored: when it fails (key copy) the item %s is neither attached nor freed" % (name, o["label"]), view, o))
                                    else:
                                        o["state"] = "escaped"
                                        o["escapes"].append(("consumed", i))
                    # own callee: what happens to pointer args
                    targets = self.cg.targets(f, i) if not i.callee else {i.callee}
                    for ak, a in enumerate(i.a):
                        o = obj_of(a, bidx)
                        if o is None and isinstance(a, int):
                            # address of a field of an object (list linking) or of a local aggregate holding it
                            base = P.strip(f, view.resolve(a, bidx))
                            guard = 0
                            while isinstance(base, int) and base >= f.nparams and f.insts[base].op == "getelementptr" and guard < 16:
                                base = P.strip(f, view.resolve(f.insts[base].a[0], bidx))
                                guard += 1
                            if isinstance(base, int) and base in aggregates:
                                o2 = aggregates[base]
                                if o2["state"] == "owned":
                                    o2["state"] = "escaped"
                                    o2["escapes"].append(("via-aggregate", i))
                                continue
                            if name in ("list_add_tail", "list_add") and ak == 0:
                                o3 = obj_of(base, bidx) if isinstance(base, int) else None
                                if o3 is not None and o3["state"] == "owned":
                                    o3["state"] = "escaped"
                                    o3["escapes"].append(("linked", i))
                            continue
                        if o is not None and o["state"] == "escaped" and o["site"] is not None and name not in RELEASERS and name not in CONSUMERS:
                            # an object that has been registered somewhere (escaped) and is now handed to an own function that
                            # frees its argument on EVERY path: from here on it is released - a later release by this caller
                            # (which un-registered it and cleans up itself) is a second one
                            for tn in targets:
                                g = P.functions.get(tn)
                                if g is not None and P.own(g):
                                    cls, conds = Q.class_of_call(view, i)
                                    if self.param_fate(g, ak, cls, conds) == "released":
                                        o["state"] = "released"
                                        o["released_at"] = i
                            continue
                        if o is None or o["state"] != "owned":
                            continue
                        for tn in targets:
                            g = P.functions.get(tn)
                            if g is None:
                                continue
                            if not (P.own(g)):
                                continue
                            if name in RELEASERS or name in CONSUMERS:
                                continue
                            cls, conds = Q.class_of_call(view, i)
                            fate = self.param_fate(g, ak, cls, conds)
                            if fate == "consumed":
                                o["state"] = "escaped"
                                tk = self._taken.get((g.name, ak, repr(conds)))
                                o["escapes"].append((("callee-taken:" if tk else "callee:") + g.srcname, i))
                            elif fate == "released":
                                o["state"] = "released"
                                o["released_at"] = i
                            elif fate == "mixed":
                                o["state"] = "escaped"
                                o["escapes"].append(("callee-maybe:" + g.srcname, i))
                    if name in ("element_table_put",) and len(i.a) > 1:
                        o = obj_of(i.a[1], bidx)
                        if o is not None and o["state"] == "owned" and ("zero", i.id) not in failed_calls and ("nonzero", i.id) not in failed_calls:
                            o["state"] = "escaped"
                            o["escapes"].append(("indexed", i))
                    if kind:
                        o = new_obj(kind, i, "%s from %s" % (kind, name))
                        val2obj[i.id] = o
                        if kind == "fd":
                            if ("neg", i.id) in failed_calls:
                                o["state"] = "null"
                        elif i.id in failed_calls:
                            o["state"] = "null"
                    continue
                if i.op == "store":
                    o = obj_of(i.a[0], bidx)
                    dst = P.strip(f, view.resolve(i.a[1], bidx) if isinstance(i.a[1], int) else i.a[1])
                    if isinstance(dst, int) and dst >= f.nparams and f.insts[dst].op == "alloca":
                        if o is not None:
                            slots[dst] = o
                        elif dst in slots:
                            del slots[dst]
                        continue
                    dt = P.term(f, dst)
                    # store into a local aggregate?
                    base = dst
                    guard = 0
                    while isinstance(base, int) and base >= f.nparams and f.insts[base].op == "getelementptr" and guard < 16:
                        base = P.strip(f, f.insts[base].a[0])
                        guard += 1
                    if o is not None and isinstance(base, int) and base >= f.nparams and f.insts[base].op == "alloca":
                        aggregates[base] = o
                        continue
                    if o is not None:
                        mem[dt] = o
                        if o["state"] == "owned":
                            root = dt
                            while isinstance(root, tuple) and root[0] in ("field", "index", "byteoff"):
                                root = root[1]
                            how = "param-field" if (isinstance(root, tuple) and root[0] == "param") else \
                                  "global" if (isinstance(root, tuple) and root[0] in ("global", "load") and Q.mentions(root, lambda x: x[0] == "global")) else \
                                  "own-object" if (isinstance(root, tuple) and root[0] == "call") else "memory"
                            if how == "own-object":
                                # stored into an object that this function acquired itself: ownership moves into that object
                                o["state"] = "escaped"
                                o["escapes"].append(("field-of-own", i))
                            else:
                                o["state"] = "escaped"
                                o["escapes"].append((how, i))
                    elif dt in mem:
                        # overwritten (e.g. with NULL)
                        del mem[dt]
                    continue
                if i.op == "load":
                    ro = obj_of(i.a[0], bidx, interior=True) if isinstance(i.a[0], int) else None
                    if ro is not None and ro["state"] == "released" and ro["site"] is not None and ro["released_at"] is not None:
                        findings.append(Finding("use-after-release", f, i, "%s acquired at %s is read at %s after it was released at %s" %
                                                (ro["label"], ro["site"].loc, i.loc, ro["released_at"].loc), view, ro))
                    src = P.strip(f, view.resolve(i.a[0], bidx) if isinstance(i.a[0], int) else i.a[0])
                    if isinstance(src, int) and src in slots:
                        val2obj[i.id] = slots[src]
                        continue
                    t = P.term(f, src)
                    if t in mem:
                        val2obj[i.id] = mem[t]
                    continue
                if i.op == "ret" and i.a:
                    o = obj_of(i.a[0], bidx, interior=True)
                    if o is not None and o["state"] == "owned":
                        o["state"] = "escaped"
                        o["escapes"].append(("returned", i))
        # null tests through aliases: atoms `load(field) == NULL` where the field holds an object
        for (a, p) in view.atoms:
            if a[0] == "cmp" and a[3] == ("null",) and a[2][0] == "load" and a[2][1] in mem and Q._poleq(a, p):
                o = mem[a[2][1]]
                if o["site"] is not None and o["state"] in ("owned", "escaped") and o["released_at"] is None:
                    o["state"] = "null"
        return objs, events, findings

    # ---------- parameter fate ----------
    def param_fate(self, g, k, cls, cls_key):
        """what does g do with pointer parameter k on the paths of return class cls:
        'consumed' (freed or stored away on all paths) | 'released' | 'kept' (untouched on all) | 'mixed'"""
        key = (g.name, k, repr(cls_key))
        self._last_fate_key = key
        if key in self._fate:
            return self._fate[key]
        self._fate[key] = "kept"  # recursion guard
        if k >= g.nparams or not g.params[k]["ty"].endswith("*"):
            return "kept"
        res = set()
        taken = True   # on every path of the class: freed, or attached to a JSON tree / handed to a function that does so
        for v in self.views(g):
            if not cls(v):
                continue
            objs, ev, fnd = self.walk(g, v, track_params=(k,))
            o = objs[0]
            if o["state"] == "released":
                res.add("released")
            elif o["state"] == "escaped":
                res.add("consumed")
                last = o["escapes"][-1][0] if o["escapes"] else ""
                if not (last == "consumed" or last.startswith("callee-taken:")):
                    taken = False
            else:
                res.add("kept")
                taken = False
        self._taken[key] = taken and bool(res)
        if not res:
            r = "kept"
        elif len(res) == 1:
            r = res.pop()
        elif res <= {"released", "consumed"}:
            r = "consumed"
        else:
            r = "mixed"
        self._fate[key] = r
        return r
