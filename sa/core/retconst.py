"""Which integer constants can a function return? Flow-insensitive summary over the call graph (direct and resolved
indirect calls): the constants that reach a `ret` through phis/casts/selects, united with the summaries of the callees
whose result is returned. Values that are neither constants nor call results (loads, arithmetic) contribute nothing -
the summary is a lower bound, which is the safe direction for the rule that uses it (a failure value that a caller's
test does not recognise)."""
from . import queries as Q


def ret_consts(P, cg):
    direct = {}
    deps = {}
    for name, f in P.functions.items():
        if not P.own(f):
            continue
        s = set()
        d = set()
        for i in f.all_insts():
            if i.op != "ret" or not i.a:
                continue
            try:
                lv, _ = Q.leaves(P, f, i.a[0], through_loads=False)
            except Exception:
                continue
            for l in lv:
                if l[0] == "const":
                    s.add(l[1])
                elif l[0] in ("call", "icall"):
                    ci = f.insts.get(l[3])
                    if ci is not None:
                        for t in cg.targets(f, ci):
                            d.add(t)
        direct[name] = s
        deps[name] = d
    summ = {k: set(v) for k, v in direct.items()}
    changed = True
    n = 0
    while changed and n < 50:
        changed = False
        n += 1
        for name, d in deps.items():
            for g in d:
                add = summ.get(g)
                if add and not add <= summ[name]:
                    summ[name] |= add
                    changed = True
    return summ
