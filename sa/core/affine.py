"""Affine normal form of integer/pointer terms over SSA leaves: {leaf: coeff} + const.
Used by the cursor-bookkeeping rules (C09/C10): two expressions are 'the same byte count / position'
iff their normal forms are equal."""


def norm(P, t, helpers=None, depth=0):
    """returns (dict leaf->coeff, const) or None if not affine.
    helpers: dict srcname -> function(args terms) -> term, to inline single-expression static helpers."""
    if depth > 30:
        return None
    k = t[0]
    if k == "const":
        return ({}, t[1])
    if k == "null":
        return ({}, 0)
    if k in ("param", "load", "phi", "alloca", "global", "icall", "container_of", "field"):
        return ({t: 1}, 0)
    if k == "call":
        if helpers and t[1] in helpers:
            sub = helpers[t[1]](t[2])
            if sub is not None:
                return norm(P, sub, helpers, depth + 1)
        # calls are leaves identified by instruction id
        return ({("call", t[1], t[3]): 1}, 0)
    if k == "index":
        b = norm(P, t[1], helpers, depth + 1)
        i = norm(P, t[2], helpers, depth + 1)
        if b is None or i is None:
            return None
        return _add(b, _scale(i, t[3]))
    if k == "byteoff":
        b = norm(P, t[1], helpers, depth + 1)
        return _add(b, ({}, t[2])) if b else None
    if k == "cgep":
        return ({t: 1}, 0)
    if k == "op":
        op, a = t[1], t[2]
        if op in ("add", "sub") and len(a) == 2:
            x = norm(P, a[0], helpers, depth + 1)
            y = norm(P, a[1], helpers, depth + 1)
            if x is None or y is None:
                return None
            return _add(x, y if op == "add" else _scale(y, -1))
        if op == "mul" and len(a) == 2:
            x = norm(P, a[0], helpers, depth + 1)
            y = norm(P, a[1], helpers, depth + 1)
            if x is None or y is None:
                return None
            if not x[0]:
                return _scale(y, x[1])
            if not y[0]:
                return _scale(x, y[1])
            return ({t: 1}, 0)
        if op == "shl" and len(a) == 2 and a[1][0] == "const":
            x = norm(P, a[0], helpers, depth + 1)
            return _scale(x, 1 << a[1][1]) if x else None
        return ({t: 1}, 0)
    return ({t: 1}, 0)


def _add(x, y):
    d = dict(x[0])
    for k, c in y[0].items():
        d[k] = d.get(k, 0) + c
        if d[k] == 0:
            del d[k]
    return (d, x[1] + y[1])


def _scale(x, c):
    if c == 0:
        return ({}, 0)
    return ({k: v * c for k, v in x[0].items()}, x[1] * c)


def equal(P, t1, t2, helpers=None):
    a, b = norm(P, t1, helpers), norm(P, t2, helpers)
    return a is not None and b is not None and a == b


def diff(P, t1, t2, helpers=None):
    a, b = norm(P, t1, helpers), norm(P, t2, helpers)
    if a is None or b is None:
        return None
    return _add(a, _scale(b, -1))
