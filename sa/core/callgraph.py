"""Call graph with indirect calls resolved through struct fields (field-based,
function values only)."""
from ..frontend import AnalysisBroken


def _func_of(P, f, o):
    o = P.strip(f, o)
    if isinstance(o, list) and o and o[0] == "f":
        return o[1]
    return None


def _field_of_ptr(P, f, o):
    """(struct, idx) if pointer operand is the address of a struct field"""
    o = P.strip(f, o)
    if not isinstance(o, int) or o < f.nparams:
        return None
    i = f.insts[o]
    if i.op == "getelementptr" and i.path:
        last = i.path[-1]
        if last[0] == "f":
            return (last[1], last[2])
    return None


class CallGraph:
    def __init__(self, P):
        self.P = P
        self.field_funcs = {}  # (struct, idx) -> set(ir function names)
        self.param_to_fields = {}  # (fn, param idx) -> set((struct, idx))
        self._build()

    def _add(self, key, fn):
        s = self.field_funcs.setdefault(key, set())
        if fn in s:
            return False
        s.add(fn)
        return True

    def _walk_init(self, ty, init):
        P = self.P
        if not isinstance(init, list) or not init:
            return
        if init[0] == "agg":
            aty = init[2] if len(init) > 2 else ty
            elems = init[1]
            if aty.startswith("%struct.") or aty.startswith("%union."):
                sn = aty[1:]
                sd = P.structs.get(sn)
                for k, e in enumerate(elems):
                    if isinstance(e, list) and e and e[0] == "f":
                        self._add((sn, k), e[1])
                    elif isinstance(e, list) and e and e[0] == "ce" and e[1] == "bitcast":
                        inner = e[2][0]
                        if isinstance(inner, list) and inner[0] == "f":
                            self._add((sn, k), inner[1])
                    else:
                        fty = sd["fields"][k]["ty"] if sd and k < len(sd["fields"]) else ""
                        self._walk_init(fty, e)
            else:
                for e in elems:
                    self._walk_init("", e)

    def val_funcs(self, f, o, seen=None):
        """function values an operand may hold (current approximation)"""
        P = self.P
        o = P.strip(f, o)
        if isinstance(o, list):
            if o and o[0] == "f":
                return {o[1]}
            return set()
        if o < f.nparams:
            return self.param_funcs.get((f.name, o), set())
        i = f.insts[o]
        if i.op == "load":
            key = _field_of_ptr(P, f, i.a[0])
            if key is not None:
                return self.field_funcs.get(key, set())
            src = P.strip(f, i.a[0])
            if isinstance(src, list) and src and src[0] == "g":
                return self.global_funcs.get(src[1], set())
            return set()
        if i.op == "call":
            out = set()
            for c in self._cands(f, i):
                out |= self.ret_funcs.get(c, set())
            return out
        if i.op == "phi":
            if seen is None:
                seen = set()
            if o in seen:
                return set()
            seen.add(o)
            out = set()
            for (v, _) in i.inc:
                out |= self.val_funcs(f, v, seen)
            return out
        if i.op == "select":
            return self.val_funcs(f, i.a[1], seen) | self.val_funcs(f, i.a[2], seen)
        return set()

    def _cands(self, f, i):
        if i.callee:
            return [i.callee] if i.callee in self.P.functions else []
        key0 = self.icall_field(f, i)
        if key0:
            return list(self.field_funcs.get(key0, ()))
        v = self.P.strip(f, i.ind)
        if isinstance(v, int):
            return list(self.val_funcs(f, v))
        return []

    def _build(self):
        P = self.P
        self.param_funcs = {}
        self.ret_funcs = {}
        self.global_funcs = {}
        for gname, g in P.globals.items():
            if "init" in g:
                self._walk_init(g["ty"], g["init"])
                init = g["init"]
                if isinstance(init, list) and init and init[0] == "f":
                    self.global_funcs.setdefault(gname, set()).add(init[1])

        def fptr_like(ty):
            return ty is not None and ("(" in ty or ty == "i8*")

        def merge(d, key, vals):
            if not vals:
                return False
            s = d.setdefault(key, set())
            n = len(s)
            s |= vals
            return len(s) != n
        def optype(f, o):
            if isinstance(o, list):
                return "(" if (o and o[0] in ("f", "ce")) else None
            if o < f.nparams:
                return f.params[o]["ty"]
            return f.insts[o].ty

        def cand_operand(f, o):
            t1 = optype(f, o)
            t2 = optype(f, P.strip(f, o))
            return fptr_like(t1) or fptr_like(t2)

        work = []
        for f in P.functions.values():
            for i in f.all_insts():
                if i.op == "store":
                    if cand_operand(f, i.a[0]):
                        work.append((f, i, None))
                elif i.op == "call":
                    ks = [k for k, a in enumerate(i.a) if cand_operand(f, a)]
                    if ks:
                        work.append((f, i, ks))
                elif i.op == "ret" and i.a and cand_operand(f, i.a[0]):
                    work.append((f, i, None))
        changed = True
        rounds = 0
        while changed:
            changed = False
            rounds += 1
            if rounds > 30:
                raise AnalysisBroken("function-pointer propagation did not converge")
            for (f, i, ks) in work:
                if i.op == "store":
                    vals = self.val_funcs(f, i.a[0])
                    if not vals:
                        continue
                    key = _field_of_ptr(P, f, i.a[1])
                    if key is not None:
                        changed |= merge(self.field_funcs, key, vals)
                    else:
                        dst = P.strip(f, i.a[1])
                        if isinstance(dst, list) and dst and dst[0] == "g":
                            changed |= merge(self.global_funcs, dst[1], vals)
                elif i.op == "call":
                    cands = None
                    for k in ks:
                        vals = self.val_funcs(f, i.a[k])
                        if not vals:
                            continue
                        if cands is None:
                            cands = self._cands(f, i)
                        for c in cands:
                            changed |= merge(self.param_funcs, (c, k), vals)
                else:
                    vals = self.val_funcs(f, i.a[0])
                    if vals:
                        changed |= merge(self.ret_funcs, f.name, vals)
        # resolve indirect calls
        self.icall_targets = {}  # (fn name, inst id) -> set(ir names)
        self.unresolved = []
        for f in P.functions.values():
            for i in f.all_insts():
                if i.op != "call" or i.callee or i.ind is None:
                    continue
                if isinstance(i.ind, list) and i.ind and i.ind[0] == "asm":
                    continue
                tg = self.resolve(f, i)
                if tg is None:
                    self.unresolved.append(i)
                else:
                    self.icall_targets[(f.name, i.id)] = tg
        self.succ = {}
        for f in P.functions.values():
            s = set()
            for i in f.all_insts():
                if i.op == "call":
                    if i.callee:
                        s.add(i.callee)
                    else:
                        s |= self.icall_targets.get((f.name, i.id), set())
            self.succ[f.name] = s
        self._reach = {}

    def icall_field(self, f, i):
        P = self.P
        v = P.strip(f, i.ind)
        if isinstance(v, int) and v >= f.nparams:
            d = f.insts[v]
            if d.op == "load":
                return _field_of_ptr(P, f, d.a[0])
        return None

    def resolve(self, f, i):
        """candidate set of an indirect call; None when the called value has no
        recognisable origin (field load, global, parameter fed by such)."""
        P = self.P
        v = P.strip(f, i.ind)
        if isinstance(v, int) and v >= f.nparams:
            d = f.insts[v]
            if d.op == "load":
                key = _field_of_ptr(P, f, d.a[0])
                if key is not None:
                    return set(self.field_funcs.get(key, set()))
                src = P.strip(f, d.a[0])
                if isinstance(src, list) and src and src[0] == "g":
                    return set(self.global_funcs.get(src[1], set()))
                return None
            r = self.val_funcs(f, v)
            return set(r) if r else None
        if isinstance(v, int) and v < f.nparams:
            # parameter called directly: defined if every caller passes a recognisable value
            if not P.callers_of(f):
                return None
            return set(self.param_funcs.get((f.name, v), set()))
        return None

    def targets(self, f, i):
        if i.callee:
            return {i.callee}
        return self.icall_targets.get((f.name, i.id), set())

    def reach(self, name):
        """set of ir function names transitively callable from name (inclusive)"""
        r = self._reach.get(name)
        if r is not None:
            return r
        seen = {name}
        st = [name]
        while st:
            x = st.pop()
            for y in self.succ.get(x, ()):
                if y not in seen:
                    seen.add(y)
                    st.append(y)
        self._reach[name] = seen
        return seen

    def may_call(self, f, targets):
        """does f transitively reach any function whose source name is in targets"""
        P = self.P
        for n in self.reach(f.name):
            if P.srcname_of(n) in targets:
                return True
        return False
