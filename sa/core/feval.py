"""Finite-domain evaluation of an extracted integer transition function (used only for C18's
automaton extraction: the function is a finite transducer over (struct fields, one input byte)).
Supports the integer/branch subset of LLVM IR; anything else raises AnalysisBroken."""
from ..frontend import AnalysisBroken


class OutOfInput(Exception):
    pass


def _bits(ty):
    if ty and ty.startswith("i") and ty[1:].isdigit():
        return int(ty[1:])
    return 64


def _mask(v, bits):
    return v & ((1 << bits) - 1)


def _signed(v, bits):
    v = _mask(v, bits)
    return v - (1 << bits) if v >> (bits - 1) else v


STRLIB = {"strlen", "strcmp", "strncmp", "strstr", "strcasecmp", "strncasecmp", "strcasestr",
          "jet_strcasecmp", "jet_strncasecmp", "jet_strcasestr"}


def _cstr(p, arrays, loc):
    if not (isinstance(p, tuple) and p[0] == "arr"):
        raise AnalysisBroken("feval: string function on something that is no input string (%s)" % loc)
    data = arrays[p[1]]
    if p[2] < 0 or p[2] > len(data):
        raise OutOfInput("string function reads at offset %d of an input of %d byte(s) (%s)" % (p[2], len(data), loc))
    end = data.find(b"\0", p[2])
    if end < 0:
        raise OutOfInput("string function runs off the end of an input without terminator (%s)" % loc)
    return data[p[2]:end]


def _strlib(name, a, arrays, loc):
    """the C library's string functions on input arrays (the jet_* wrappers are what C16.2 R-SIB shows them to be)"""
    fold = name in ("strcasecmp", "strncasecmp", "strcasestr", "jet_strcasecmp", "jet_strncasecmp", "jet_strcasestr")
    low = (lambda b: bytes(c + 32 if 65 <= c <= 90 else c for c in b)) if fold else (lambda b: b)
    base = name.replace("jet_", "").replace("case", "")
    if base == "strlen":
        return len(_cstr(a[0], arrays, loc))
    if base in ("strcmp", "strncmp"):
        x, y = low(_cstr(a[0], arrays, loc)), low(_cstr(a[1], arrays, loc))
        if base == "strncmp":
            x, y = x[:a[2]], y[:a[2]]
        return 0 if x == y else (_mask(-1, 32) if x < y else 1)
    if base == "strstr":
        h, n = low(_cstr(a[0], arrays, loc)), low(_cstr(a[1], arrays, loc))
        k = h.find(n)
        return 0 if k < 0 else ("arr", a[0][1], a[0][2] + k)
    raise AnalysisBroken("feval: string function %s" % name)


class FEval:
    def __init__(self, P, f, struct, ptr_param=0):
        self.P = P
        self.f = f
        self.struct = struct
        self.ptr_param = ptr_param
        self.optype = {}
        for p in f.params:
            self.optype[p["id"]] = p["ty"]
        for i in f.all_insts():
            self.optype[i.id] = i.ty

    def run(self, fields, args, max_steps=5000, arrays=None, callees=None, share=False, objs=None):
        """fields: dict field-index -> int (state), args: dict param id -> int.
        arrays: dict param id -> bytes (a parameter that points to constant input bytes);
        callees: dict ir-name -> FEval for direct calls that are handed the state pointer as their first argument.
        returns (ret value, new fields)"""
        P, f = self.P, self.f
        fields = fields if share else dict(fields)
        vals = {}
        locs = {}
        for k, v in args.items():
            vals[k] = v
        for k in (arrays or {}):
            vals[k] = ("arr", k, 0)
        # objs: parameter id -> {path key: value}: a read-only object whose cells hold integers or pointers to input arrays,
        # path key = tuple of ("f", field index) / ("a", element index) steps (used for struct path_matcher)
        for k in (objs or {}):
            vals[k] = ("obj", k, ())
        if self.ptr_param is not None:
            vals[self.ptr_param] = ("ptr", None)

        def val(o):
            if isinstance(o, int):
                if o not in vals:
                    raise AnalysisBroken("feval: use of undefined value %%%d in %s" % (o, f.name))
                return vals[o]
            if o[0] == "c":
                return _mask(o[1], o[2])
            if o[0] == "g":
                g = P.globals.get(o[1])
                if g and g.get("const") and "init" in g and g["init"][0] == "c":
                    return ("gptr", o[1])
                raise AnalysisBroken("feval: non-constant global %s" % o[1])
            if o[0] == "u":
                return 0
            if o[0] == "n":
                return 0
            raise AnalysisBroken("feval: operand %r" % (o,))
        b = 0
        prev = None
        steps = 0
        while True:
            blk = f.blocks[b]
            # phis first (simultaneous)
            newv = {}
            for i in blk:
                if i.op != "phi":
                    break
                for (v, pb) in i.inc:
                    if pb == prev:
                        newv[i.id] = val(v)
                        break
                else:
                    raise AnalysisBroken("feval: phi without incoming for edge")
            vals.update(newv)
            for i in blk:
                steps += 1
                if steps > max_steps:
                    raise AnalysisBroken("feval: step limit in %s" % f.name)
                op = i.op
                if op == "phi":
                    continue
                if op == "getelementptr" and isinstance(val(i.a[0]), tuple) and val(i.a[0])[0] == "obj":
                    base = val(i.a[0])
                    key = list(base[2])
                    for stp in i.path:
                        if stp[0] == "p":
                            if val(stp[1]) != 0:
                                raise AnalysisBroken("feval: unsupported address computation at %s" % i.loc)
                        elif stp[0] == "f":
                            key.append(("f", stp[2]))
                        elif stp[0] == "a":
                            key.append(("a", _signed(val(stp[1]), _bits(self.optype.get(stp[1]) if isinstance(stp[1], int) else "i%d" % stp[1][2]))))
                        else:
                            raise AnalysisBroken("feval: unsupported address computation at %s" % i.loc)
                    vals[i.id] = ("obj", base[1], tuple(key))
                elif op == "load" and isinstance(val(i.a[0]), tuple) and val(i.a[0])[0] == "obj":
                    pa = val(i.a[0])
                    cells = objs[pa[1]]
                    if pa[2] not in cells:
                        raise OutOfInput("%s reads %r of its object, which the input does not have (%s)" % (f.srcname, pa[2], i.loc))
                    vals[i.id] = cells[pa[2]]
                elif op == "call" and i.callee and arrays is not None and P.srcname_of(i.callee) in STRLIB:
                    vals[i.id] = _strlib(P.srcname_of(i.callee), [val(a) for a in i.a], arrays, i.loc)
                elif op == "alloca":
                    # a local object: its bytes (little-endian targets), addressed by ("loc", id, offset)
                    size = getattr(i, "size", None)
                    if size is None:
                        raw = next((x for bb in P.facts["functions"][f.name]["blocks"] for x in bb["insts"] if x["i"] == i.id), {})
                        size = raw.get("size")
                    if not size:
                        raise AnalysisBroken("feval: local object of unknown size at %s" % i.loc)
                    locs[i.id] = bytearray(size)
                    vals[i.id] = ("loc", i.id, 0)
                elif op == "getelementptr" and isinstance(val(i.a[0]), tuple) and val(i.a[0])[0] == "loc":
                    base = val(i.a[0])
                    off = base[2]
                    for stp in i.path:
                        if stp[0] not in ("p", "a"):
                            raise AnalysisBroken("feval: unsupported address computation at %s" % i.loc)
                        idx = val(stp[1])
                        bits = _bits(self.optype.get(stp[1]) if isinstance(stp[1], int) else "i%d" % stp[1][2])
                        off += _signed(idx, bits) * stp[2]
                    vals[i.id] = ("loc", base[1], off)
                elif op == "load" and isinstance(val(i.a[0]), tuple) and val(i.a[0])[0] == "loc":
                    pa = val(i.a[0])
                    nb = max(1, _bits(i.ty) // 8)
                    if pa[2] < 0 or pa[2] + nb > len(locs[pa[1]]):
                        raise AnalysisBroken("feval: %s reads outside a local object (%s)" % (f.srcname, i.loc))
                    vals[i.id] = _mask(int.from_bytes(locs[pa[1]][pa[2]:pa[2] + nb], "little"), _bits(i.ty))
                elif op == "store" and isinstance(val(i.a[1]), tuple) and val(i.a[1])[0] == "loc":
                    pa = val(i.a[1])
                    v0 = val(i.a[0])
                    if isinstance(v0, tuple):
                        raise AnalysisBroken("feval: pointer stored into a local object at %s" % i.loc)
                    bits = _bits(self.optype.get(i.a[0]) if isinstance(i.a[0], int) else "i%d" % i.a[0][2])
                    nb = max(1, bits // 8)
                    if pa[2] < 0 or pa[2] + nb > len(locs[pa[1]]):
                        raise AnalysisBroken("feval: %s writes outside a local object (%s)" % (f.srcname, i.loc))
                    locs[pa[1]][pa[2]:pa[2] + nb] = _mask(v0, nb * 8).to_bytes(nb, "little")
                elif op == "call" and i.callee and i.callee.startswith(("llvm.memcpy.", "llvm.memmove.")) and \
                        all(isinstance(val(a), tuple) and val(a)[0] == "loc" for a in i.a[:2]):
                    d, s_, n_ = val(i.a[0]), val(i.a[1]), val(i.a[2])
                    if d[2] < 0 or s_[2] < 0 or d[2] + n_ > len(locs[d[1]]) or s_[2] + n_ > len(locs[s_[1]]):
                        raise AnalysisBroken("feval: %s copies outside a local object (%s)" % (f.srcname, i.loc))
                    locs[d[1]][d[2]:d[2] + n_] = bytes(locs[s_[1]][s_[2]:s_[2] + n_])
                elif op == "getelementptr" and isinstance(val(i.a[0]), tuple) and val(i.a[0])[0] == "arr":
                    base = val(i.a[0])
                    off = base[2]
                    for stp in i.path:
                        if stp[0] not in ("p", "a"):
                            raise AnalysisBroken("feval: unsupported address computation at %s" % i.loc)
                        idx = val(stp[1])
                        bits = _bits(self.optype.get(stp[1]) if isinstance(stp[1], int) else "i%d" % stp[1][2])
                        off += _signed(idx, bits) * stp[2]
                    vals[i.id] = ("arr", base[1], off)
                elif op == "bitcast":
                    vals[i.id] = val(i.a[0])
                elif op == "call" and i.callee and i.callee.startswith("llvm.dbg"):
                    pass
                elif op == "call" and i.callee and i.callee.startswith("llvm.expect"):
                    vals[i.id] = val(i.a[0])
                elif op == "call" and i.callee and callees and i.callee in callees:
                    sub = callees[i.callee]
                    if val(i.a[0]) != ("ptr", None):
                        raise AnalysisBroken("feval: call at %s does not pass the state pointer first" % i.loc)
                    sargs = {k: val(a) for k, a in enumerate(i.a) if k != 0}
                    r, _ = sub.run(fields, sargs, max_steps=max_steps, callees=callees, share=True)
                    if r is not None:
                        vals[i.id] = r
                elif op == "call" and i.callee and i.callee.startswith("llvm.bswap."):
                    nb = _bits(i.ty) // 8
                    vals[i.id] = int.from_bytes(_mask(val(i.a[0]), _bits(i.ty)).to_bytes(nb, "little"), "big")
                elif op == "call" and i.callee and i.callee in P.functions and getattr(P.functions[i.callee], "blocks", None) and \
                        all(not isinstance(val(a), tuple) for a in i.a):
                    # a pure helper that is handed integers only (static inline arithmetic): evaluated in place
                    g = P.functions[i.callee]
                    r, _ = FEval(P, g, None, ptr_param=None).run({}, {k: val(a) for k, a in enumerate(i.a)}, max_steps=max_steps)
                    if r is not None:
                        vals[i.id] = r
                elif op == "load" and isinstance(val(i.a[0]), tuple) and val(i.a[0])[0] == "arr":
                    pa = val(i.a[0])
                    data = arrays[pa[1]]
                    nb = max(1, _bits(i.ty) // 8)
                    if pa[2] < 0 or pa[2] + nb > len(data):
                        raise OutOfInput("%s reads %d byte(s) at offset %d of an input of %d byte(s) (%s)" % (f.srcname, nb, pa[2], len(data), i.loc))
                    vals[i.id] = int.from_bytes(data[pa[2]:pa[2] + nb], "little")
                elif op == "getelementptr":
                    base = val(i.a[0])
                    if base == ("ptr", None) and len(i.path) == 2 and i.path[1][0] == "f" and i.path[1][1] == self.struct \
                            and P.const_int(i.path[0][1]) == 0:
                        vals[i.id] = ("ptr", i.path[1][2])
                    else:
                        raise AnalysisBroken("feval: unsupported address computation at %s" % i.loc)
                elif op == "load":
                    p = val(i.a[0])
                    if isinstance(p, tuple) and p[0] == "ptr" and p[1] is not None:
                        vals[i.id] = _mask(fields[p[1]], _bits(i.ty))
                    elif isinstance(p, tuple) and p[0] == "gptr":
                        g = P.globals[p[1]]
                        vals[i.id] = _mask(g["init"][1], _bits(i.ty))
                    else:
                        raise AnalysisBroken("feval: load through unsupported pointer at %s" % i.loc)
                elif op == "store":
                    p = val(i.a[1])
                    if isinstance(p, tuple) and p[0] == "ptr" and p[1] is not None:
                        fields[p[1]] = val(i.a[0])
                    else:
                        raise AnalysisBroken("feval: store through unsupported pointer at %s" % i.loc)
                elif op in ("zext",):
                    vals[i.id] = val(i.a[0])
                elif op == "sext":
                    src = _bits(self.optype.get(i.a[0]) if isinstance(i.a[0], int) else "i%d" % i.a[0][2])
                    vals[i.id] = _mask(_signed(val(i.a[0]), src), _bits(i.ty))
                elif op == "trunc":
                    vals[i.id] = _mask(val(i.a[0]), _bits(i.ty))
                elif op in ("and", "or", "xor", "add", "sub", "mul", "shl", "lshr"):
                    x, y = val(i.a[0]), val(i.a[1])
                    bits = _bits(i.ty)
                    r = {"and": x & y, "or": x | y, "xor": x ^ y, "add": x + y, "sub": x - y, "mul": x * y,
                         "shl": x << (y % bits), "lshr": x >> (y % bits)}[op]
                    vals[i.id] = _mask(r, bits)
                elif op == "ashr":
                    x, y = val(i.a[0]), val(i.a[1])
                    bits = _bits(i.ty)
                    vals[i.id] = _mask(_signed(x, bits) >> (y % bits), bits)
                elif op == "icmp" and (isinstance(val(i.a[0]), tuple) or isinstance(val(i.a[1]), tuple)):
                    x, y = val(i.a[0]), val(i.a[1])
                    if i.pred not in ("eq", "ne") or not (x == 0 or y == 0 or (isinstance(x, tuple) and isinstance(y, tuple))):
                        raise AnalysisBroken("feval: unsupported pointer comparison at %s" % i.loc)
                    vals[i.id] = 1 if ((x == y) == (i.pred == "eq")) else 0
                elif op == "icmp":
                    x, y = val(i.a[0]), val(i.a[1])
                    bits = _bits(self.optype.get(i.a[0]) if isinstance(i.a[0], int) else "i%d" % i.a[0][2])
                    sx, sy = _signed(x, bits), _signed(y, bits)
                    r = {"eq": x == y, "ne": x != y, "ult": x < y, "ule": x <= y, "ugt": x > y, "uge": x >= y,
                         "slt": sx < sy, "sle": sx <= sy, "sgt": sx > sy, "sge": sx >= sy}[i.pred]
                    vals[i.id] = 1 if r else 0
                elif op == "select":
                    vals[i.id] = val(i.a[1]) if val(i.a[0]) else val(i.a[2])
                elif op == "br":
                    prev = b
                    if len(i.succ) == 1:
                        b = i.succ[0]
                    else:
                        b = i.succ[0] if val(i.a[0]) else i.succ[1]
                    break
                elif op == "switch":
                    prev = b
                    x = val(i.a[0])
                    bits = _bits(self.optype.get(i.a[0]) if isinstance(i.a[0], int) else "i32")
                    nb = i.default
                    for (cv, s) in i.cases:
                        if _mask(cv, bits) == x:
                            nb = s
                    b = nb
                    break
                elif op == "ret":
                    return (val(i.a[0]) if i.a else None), fields
                else:
                    raise AnalysisBroken("feval: unsupported instruction %s at %s" % (op, i.loc))
