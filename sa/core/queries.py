"""Reusable queries for the rule modules."""
from ..frontend import AnalysisBroken
from .program import fmt_atom, fmt_term, CAST_OPS


def macro(P, unit, name):
    m = P.facts.get("macros", {}).get(unit, {})
    if name not in m:
        raise AnalysisBroken("anchor macro %s not visible in unit %s" % (name, unit))
    return m[name]


def const(P, unit, name):
    """object-like macro of the unit, or an enumerator of that name"""
    m = P.facts.get("macros", {}).get(unit, {})
    if name in m and isinstance(m[name], int):
        return m[name]
    e = P.facts.get("enums", {})
    if name in e:
        return e[name]
    raise AnalysisBroken("anchor constant %s not visible (unit %s)" % (name, unit))


def enum(P, name):
    e = P.facts.get("enums", {})
    if name not in e:
        c = P.facts.get("macros", {}).get("__config__", {})
        if name in c:
            return c[name]
        raise AnalysisBroken("anchor enumerator %s not found" % name)
    return e[name]


# ---------- term helpers ----------
def is_field_load(t, struct=None, field=None):
    """term is load(field(base, struct, field)); returns base term or None"""
    if isinstance(t, tuple) and t[0] == "load" and t[1][0] == "field":
        a = t[1]
        if (struct is None or a[2] == struct) and (field is None or a[3] == field):
            return a[1]
    return None


def is_call_to(t, names):
    if isinstance(names, str):
        names = (names,)
    return isinstance(t, tuple) and t[0] == "call" and t[1] in names


def subterms(t):
    if isinstance(t, tuple):
        if not t:
            return
        if isinstance(t[0], tuple):  # a sequence of terms (call arguments)
            for x in t:
                for y in subterms(x):
                    yield y
            return
        yield t
        for x in t[1:]:
            if isinstance(x, tuple):
                for y in subterms(x):
                    yield y


def mentions(t, pred):
    return any(pred(x) for x in subterms(t))


# ---------- guards ----------
def must_pass(P, f, block, edge_pred):
    """True iff every path (pruned edge graph) from entry to `block` takes an edge for which
    edge_pred(atom, pol) holds — i.e. the block is unreachable once those edges are deleted."""
    reach = P.reach_blocks(f, drop=lambda atom, pol, a, b: edge_pred(atom, pol))
    return block not in reach


def field_writers(P, struct, field):
    """names of the functions that contain a store into that member (type based, any object)"""
    cache = P.__dict__.setdefault("_field_writers", {})
    key = (struct, field)
    if key not in cache:
        w = set()
        for h in P.functions.values():
            for i in h.all_insts():
                if i.op == "store":
                    d = P.term(h, i.a[1])
                    if d[0] == "field" and (d[2], d[3]) == key:
                        w.add(h.name)
        cache[key] = w
    return cache[key]


def guarded_fresh(P, f, site, passes, killers):
    """every path to `site` takes an edge satisfying passes(atom, pol), and does so AFTER the last of the `killers` (instructions
    that invalidate what the guard established) on that path"""
    if not must_pass(P, f, site.block, passes):
        return False
    eg = P.edge_graph(f)
    for k in killers:
        if k.block == site.block and k.idx < site.idx:
            return False
        for n in eg:
            if n[1] != k.block:
                continue
            for (sn, atom, pol) in eg[n]:
                if atom is not None and passes(atom, pol):
                    continue
                if sn[1] == site.block or site.block in P.reach_blocks(f, drop=lambda a, p_, x, y: passes(a, p_), start=sn):
                    return False
    return True


def const_relation(atom, pol, is_term, k):
    """what one edge says about `term == k`: True (equal), False (different) or None; understands the if-form (cmp eq/ne) and the
    switch-form (case edge, default edge listing the cases it excludes)"""
    if atom[0] == "cmp" and is_term(atom[2]) and atom[3] == ("const", k) and atom[1] in ("eq", "ne"):
        return (atom[1] == "eq") == bool(pol)
    if atom[0] == "switch" and is_term(atom[1]):
        return True if atom[2] == k else False
    if atom[0] == "switch_default" and is_term(atom[1]) and k in atom[2]:
        return False
    return None


def guards_of(P, f, block):
    """all (atom, pol) such that every path to block passes an edge carrying it"""
    g = P.edge_graph(f)
    cands = {}
    for n, outs in g.items():
        for (sn, atom, pol) in outs:
            if atom is not None and atom[0] != "phi":
                cands[(atom, pol)] = True
    res = []
    for (atom, pol) in cands:
        if must_pass(P, f, block, lambda a, p, A=atom, PL=pol: a == A and p == PL):
            res.append((atom, pol))
    return res


def witness_to(P, f, block, drop=None):
    """a shortest path (list of (block, atom, pol)) to block in the pruned graph avoiding dropped edges"""
    g = P.edge_graph(f)
    start = (-1, 0)
    prev = {start: None}
    q = [start]
    found = None
    while q:
        n = q.pop(0)
        if n[1] == block:
            found = n
            break
        for (sn, atom, pol) in g.get(n, []):
            if drop and atom is not None and drop(atom, pol):
                continue
            if sn not in prev:
                prev[sn] = (n, atom, pol)
                q.append(sn)
    if found is None:
        return None
    out = []
    n = found
    while prev[n] is not None:
        pn, atom, pol = prev[n]
        out.append((n[1], atom, pol))
        n = pn
    out.append((0, None, True))
    out.reverse()
    return out


def fmt_witness(P, f, path):
    out = []
    for (b, atom, pol) in path:
        loc = next((i.loc for i in f.blocks[b] if i.line), f.blocks[b][0].loc)
        if atom is not None:
            out.append("%s  via [%s]" % (loc, fmt_atom(atom, pol)))
        else:
            out.append("%s" % loc)
    return out[:40]


# ---------- path walking ----------
class PathView:
    """one enumerated path of a function with phi resolution."""

    def __init__(self, P, f, path):
        self.P = P
        self.f = f
        self.path = path
        self.blocks = [b for (b, _, _) in path]
        self.atoms = [(a, p) for (_, a, p) in path if a is not None]
        self._envs = None

    def envs(self):
        if self._envs is None:
            envs = []
            env = {}
            prev = None
            for b in self.blocks:
                if prev is not None:
                    new = None
                    for i in self.f.blocks[b]:
                        if i.op != "phi":
                            break
                        for (val, pb) in i.inc:
                            if pb == prev:
                                if new is None:
                                    new = dict(env)
                                if isinstance(val, int) and val in env:
                                    val = env[val]
                                new[i.id] = val
                    if new is not None:
                        env = new
                envs.append(env)
                prev = b
            self._envs = envs
        return self._envs

    def insts(self):
        """yield (position, inst) along the path (phis skipped)"""
        k = 0
        for b in self.blocks:
            for i in self.f.blocks[b]:
                if i.op == "phi":
                    continue
                yield k, i
                k += 1

    def resolve(self, o, at_block_index=-1):
        """substitute phis by their value on this path"""
        env = self.envs()[at_block_index]
        seen = 0
        while isinstance(o, int) and o in env and seen < 20:
            n = env[o]
            if n == o:
                break
            o = n
            seen += 1
        return o

    def ret_operand(self):
        t = self.f.term_inst(self.blocks[-1])
        if t.op != "ret" or not t.a:
            return None
        o = t.a[0]
        P, f = self.P, self.f
        # look through casts to phis
        for _ in range(10):
            o = self.resolve(o)
            if isinstance(o, int) and o >= f.nparams and f.insts[o].op in CAST_OPS:
                o = f.insts[o].a[0]
                continue
            break
        return o

    def ret_const(self):
        o = self.ret_operand()
        if o is None:
            return None
        return self.P.const_int(o)

    def ret_is_null(self):
        o = self.ret_operand()
        return o is not None and self.P.is_null(o)

    def has_atom(self, pred):
        return any(pred(a, p) for (a, p) in self.atoms)

    def calls(self, names=None):
        P = self.P
        if isinstance(names, str):
            names = (names,)
        for k, i in self.insts():
            if i.op == "call" and (names is None or (i.callee and P.srcname_of(i.callee) in names)):
                yield k, i

    def witness(self):
        return fmt_witness(self.P, self.f, self.path)


_PV_CACHE = {}


def path_views(ctx, P, f, loop_iters=None):
    li = loop_iters or ctx.loop_iters
    ck = (id(P), f.name, li)
    if ck in _PV_CACHE:
        ctx.fn_seen(f)
        return _PV_CACHE[ck]
    if li > 1:
        try:
            ps = P.paths(f, loop_iters=li, max_paths=40000)
        except AnalysisBroken:
            ctx.note("%s: unrolling loops %d times exceeds the path cap; one iteration used" % (f.key, li))
            ps = P.paths(f, loop_iters=1)
    else:
        ps = P.paths(f, loop_iters=li)
    ctx.count("paths_enumerated", len(ps))
    ctx.fn_seen(f)
    vs = [PathView(P, f, p) for p in ps]
    _PV_CACHE[ck] = vs
    return vs


# ---------- stores / who ----------
def field_stores(P, struct, field, own_only=True):
    """all store instructions whose destination is the address of struct.field"""
    out = []
    for f in P.functions.values():
        if own_only and not P.own(f):
            continue
        for i in f.all_insts():
            if i.op != "store":
                continue
            t = P.term(f, i.a[1])
            if t[0] == "field" and t[2] == struct and t[3] == field:
                out.append(i)
    return out


def call_sites(P, names, own_only=True):
    if isinstance(names, str):
        names = (names,)
    out = []
    for f in P.functions.values():
        if own_only and not P.own(f):
            continue
        for i in f.all_insts():
            if i.op == "call" and i.callee and P.srcname_of(i.callee) in names:
                out.append(i)
    return out


def arg_literal(P, i, k):
    if k < len(i.a):
        return P.literal(i.a[k])
    return None


def ordinal_site(f, inst, P):
    """stable site role: '<callee>#<n>' = n-th call of that callee in the function (source order)"""
    if inst.op == "call":
        name = P.srcname_of(inst.callee) if inst.callee else "icall"
        if not inst.callee:
            t = P.term(f, inst.ind)
            if t[0] == "load" and t[1][0] == "field":
                name = "icall:" + t[1][3]
        n = 0
        for j in f.all_insts():
            if j.op == "call":
                jn = P.srcname_of(j.callee) if j.callee else None
                if not j.callee:
                    tj = P.term(f, j.ind)
                    jn = "icall:" + tj[1][3] if (tj[0] == "load" and tj[1][0] == "field") else "icall"
                if jn == name:
                    n += 1
                    if j.id == inst.id:
                        return "%s#%d" % (name, n)
        return name
    if inst.op == "store":
        t = P.term(f, inst.a[1])
        name = "store:" + (t[3] if t[0] == "field" else fmt_term(t))
        n = 0
        for j in f.all_insts():
            if j.op == "store":
                tj = P.term(f, j.a[1])
                nj = "store:" + (tj[3] if tj[0] == "field" else fmt_term(tj))
                if nj == name:
                    n += 1
                    if j.id == inst.id:
                        return "%s#%d" % (name, n)
        return name
    return "%s" % inst.op


# ---------- return-class summaries ----------
def must_atoms(ctx, P, f, ret_pred):
    """(atom, pol) pairs that hold on EVERY path of f whose return satisfies ret_pred(view);
    also returns the number of such paths"""
    views = path_views(ctx, P, f)
    sel = [v for v in views if ret_pred(v)]
    if not sel:
        return set(), 0
    common = None
    for v in sel:
        s = set(v.atoms)
        common = s if common is None else (common & s)
    return common, len(sel)


def ret_class_pred(pred, const):
    """view predicate: return value ⋈ const, for a caller-side guard `call ⋈ const` with polarity already applied"""
    def p(v):
        c = v.ret_const()
        if c is None:
            if v.ret_is_null():
                c = 0
            else:
                return None  # unknown
        return {"eq": c == const, "ne": c != const, "slt": c < const, "sle": c <= const, "sgt": c > const,
                "sge": c >= const, "ult": (c % (1 << 64)) < (const % (1 << 64)),
                "ugt": (c % (1 << 64)) > (const % (1 << 64))}.get(pred)
    return p


def negate_pred(pred):
    return {"eq": "ne", "ne": "eq", "slt": "sge", "sge": "slt", "sgt": "sle", "sle": "sgt",
            "ult": "uge", "uge": "ult", "ugt": "ule", "ule": "ugt"}[pred]


# ---------- value provenance ----------
def leaves(P, f, o, through_loads=True, limit=400):
    """backward closure of an operand through phi / casts / GEP base / (optionally) the address of loads /
    container_of; returns (set of leaf terms, set of (struct, field) traversed)"""
    seen = set()
    out = set()
    fields = set()
    st = [o]
    n = 0
    while st:
        x = st.pop()
        n += 1
        if n > limit:
            raise AnalysisBroken("provenance closure too large in %s" % f.name)
        if isinstance(x, list):
            out.add(P.term(f, x))
            continue
        if x in seen:
            continue
        seen.add(x)
        if x < f.nparams:
            out.add(("param", x, f.params[x]["name"]))
            continue
        i = f.insts[x]
        if i.op in CAST_OPS:
            st.append(i.a[0])
        elif i.op == "phi":
            for (v, _) in i.inc:
                st.append(v)
        elif i.op == "select":
            st.append(i.a[1])
            st.append(i.a[2])
        elif i.op == "getelementptr":
            for s in i.path:
                if s[0] == "f":
                    fields.add((s[1], P.field_name(s[1], s[2])))
            if i.st == "i8" and len(i.path) == 1:
                c = P.const_int(i.path[0][1])
                if c is not None and c < 0:
                    # container_of: which member of which struct?
                    for u in f.users(i.id):
                        if u.op == "bitcast" and u.ty and u.ty.startswith("%struct.") and u.ty.endswith("*"):
                            sn = u.ty[1:-1]
                            for mem in P.structs.get(sn, {}).get("members", []):
                                if mem["off_bits"] == -c * 8:
                                    fields.add((sn, mem["name"]))
            st.append(i.a[0])
        elif i.op == "load" and through_loads:
            st.append(i.a[0])
        else:
            out.add(P.term(f, x))
    return out, fields


# ---------- path-sensitive value of a local slot ----------
def slot_value(view, alloca_id, upto_pos=None, outset=None):
    """term describing the content of an address-taken local at position upto_pos on this path:
    ('stored', term) | ('outparam', callee srcname, call inst) | None.
    outset(view, call, argidx) -> 'always'|'never'|'sometimes' refines calls that receive the slot's address:
    a callee that never assigns the out-parameter in the return class taken on this path is skipped."""
    P, f = view.P, view.f
    last = None
    for k, i in view.insts():
        if upto_pos is not None and k >= upto_pos:
            break
        if i.op == "store" and P.strip(f, i.a[1]) == alloca_id:
            last = ("stored", P.term(f, view.resolve(i.a[0])), i)
        elif i.op == "call":
            for ak, a in enumerate(i.a):
                if P.strip(f, a) == alloca_id:
                    if outset is not None and outset(view, i, ak) == "never":
                        continue
                    name = P.srcname_of(i.callee) if i.callee else "icall"
                    last = ("outparam", name, i)
    return last


def make_outset(ctx, P, cg):
    def outset(view, call, ak):
        res = set()
        cls, conds = class_of_call(view, call)
        for tname in cg.targets(view.f, call):
            h = P.functions.get(tname)
            if h is None:
                return "sometimes"
            res.add(out_set(ctx, P, cg, h, ak, cls, conds))
        if res == {"never"}:
            return "never"
        if res == {"always"}:
            return "always"
        return "sometimes"
    return outset


def ret_value_term(view, outset=None):
    """term of the returned value on this path, local slots resolved path-sensitively"""
    P, f = view.P, view.f
    o = view.ret_operand()
    if o is None:
        return None
    if isinstance(o, int) and o >= f.nparams:
        i = f.insts[o]
        if i.op == "load":
            a = P.strip(f, i.a[0])
            if isinstance(a, int) and a >= f.nparams and f.insts[a].op == "alloca":
                # position of this load on the path
                pos = None
                for k, j in view.insts():
                    if j.id == i.id:
                        pos = k
                sv = slot_value(view, a, pos, outset)
                if sv is None:
                    return ("uninit",)
                return sv[:2] if sv[0] == "outparam" else sv[1]
    return P.term(f, o)


# ---------- callee classes as seen from a caller path ----------
def class_of_call(view, call):
    """predicate over callee PathViews selecting the return class that this caller path imposes on `call`
    (from the branch atoms that test the call's result). Returns (pred, description)."""
    conds = []
    for (a, p) in view.atoms:
        if a[0] != "cmp":
            if a[0] == "truth" and a[1][0] in ("call", "icall") and a[1][3] == call.id:
                conds.append(("truth", p))
            continue
        l, r = a[2], a[3]
        if l[0] in ("call", "icall") and l[3] == call.id:
            if r == ("null",):
                conds.append(("null", _poleq(a, p)))
            elif r[0] == "const":
                conds.append((a[1] if p else negate_pred(a[1]), r[1]))

    def pred(cv):
        for c in conds:
            if c[0] == "null":
                isnull = cv.ret_is_null() or cv.ret_const() == 0
                if not isnull and cv.ret_const() is None:
                    # returned value is not a constant: decided by a null test of the same value on the callee's path
                    ro = cv.ret_operand()
                    rt = cv.P.term(cv.f, ro) if ro is not None else None
                    for (a, p) in cv.atoms:
                        if a[0] == "cmp" and a[2] == rt and a[3] == ("null",):
                            isnull = _poleq(a, p)
                if isnull != c[1]:
                    return False
            elif c[0] == "truth":
                k = cv.ret_const()
                if k is None:
                    continue
                if bool(k) != c[1]:
                    return False
            else:
                r = ret_class_pred(c[0], c[1])(cv)
                if r is False:
                    return False
        return True
    return pred, conds


def _poleq(atom, pol):
    return (atom[1] == "eq" and pol) or (atom[1] == "ne" and not pol)


_OUTSET_MEMO = {}


def out_set(ctx, P, cg, g, k, cls, cls_key, depth=0):
    """does g assign *param_k (a pointer out-parameter) on the paths of return class cls?
    'always' | 'never' | 'sometimes'. Follows the out-parameter through callees."""
    key = (id(P), g.name, k, repr(cls_key))
    if key in _OUTSET_MEMO:
        return _OUTSET_MEMO[key]
    _OUTSET_MEMO[key] = "sometimes"  # recursion guard
    views = [v for v in path_views(ctx, P, g) if cls(v)]
    res = set()
    for v in views:
        hit = False
        for _, i in v.insts():
            if i.op == "store" and P.strip(g, i.a[1]) == k and not P.is_null(i.a[0]):
                hit = True
            elif i.op == "call" and depth < 4:
                for ak, a in enumerate(i.a):
                    if P.strip(g, a) == k:
                        for tname in cg.targets(g, i):
                            h = P.functions.get(tname)
                            if h is None:
                                continue
                            sub, conds = class_of_call(v, i)
                            if out_set(ctx, P, cg, h, ak, sub, conds, depth + 1) == "always":
                                hit = True
        res.add(hit)
    if not views:
        r = "never"
    elif res == {True}:
        r = "always"
    elif res == {False}:
        r = "never"
    else:
        r = "sometimes"
    _OUTSET_MEMO[key] = r
    return r


def bitfield_of(P, t):
    """(base term, member name) when t reads a bit-field member: and(lshr(load &b->f, k), m) / and(load &b->f, m) / lshr(..)"""
    shift, mask, inner = 0, None, t
    if t[0] == "op" and t[1] == "and" and t[2][1][0] == "const":
        mask = t[2][1][1]
        inner = t[2][0]
    if inner[0] == "op" and inner[1] == "lshr" and inner[2][1][0] == "const":
        shift = inner[2][1][1]
        inner = inner[2][0]
    if inner[0] == "load" and inner[1][0] == "field":
        fld = inner[1]
        sub = P.bitfields.get((fld[2], fld[3]))
        if not sub and "|" in fld[3]:
            # bit-field members declared directly in a named struct share one storage unit
            sd = P.structs.get(fld[2], {})
            names = fld[3].split("|")
            mems = [m for m in sd.get("members", []) if m["name"] in names]
            if mems:
                unit = min(m["off_bits"] for m in mems) // 8 * 8
                idx = mems[0]["idx"]
                unit = sd["fields"][idx]["off"] * 8
                width = bin(mask).count("1") if mask is not None else None
                for m in mems:
                    if m["off_bits"] - unit == shift and (width is None or m["size_bits"] == width):
                        return (fld[1], m["name"])
            return None
        if not sub:
            return None
        if mask is None:
            # top member: shifted only
            for sm in sub:
                if sm["off_bits"] == shift and sm.get("bitfield"):
                    last = max(x["off_bits"] for x in sub)
                    if sm["off_bits"] == last:
                        return (fld[1], sm["name"])
            return None
        name = P.bitfield_name(fld[2], fld[3], shift, mask)
        if name:
            return (fld[1], name)
    return None


def global_text(P, g):
    """text of a global char array initialiser (string literal or array of chars)"""
    init = g.get("init")
    if not isinstance(init, list) or not init:
        return None
    if init[0] == "s":
        return init[1]
    if init[0] == "agg":
        try:
            cs = [P.const_int(x) for x in init[1]]
            if cs and all(c is not None for c in cs):
                while cs and cs[-1] == 0:
                    cs.pop()
                return "".join(chr(c & 0xFF) for c in cs)
        except Exception:
            return None
    return None
