"""Facts-level inlining of single-use static helpers.

Rules are anchored on handler functions and on named callees. Extracting a guarded block of a handler into a new static
helper (or the reverse) must not change a verdict. Before the program model is built, every own static function that
 - has exactly one direct call site in the whole program, in own code,
 - is never used as a function value (not address-taken),
 - is not named by any rule (KEEP = identifiers occurring in the rule sources), and
 - is not recursive
is spliced into its caller. Value ids and block ids of the callee are renumbered, parameters are replaced by the call's
argument operands, every `ret` becomes a branch to the continuation block and feeds a phi that replaces the call's value."""
import copy
import glob
from ..frontend import REPO
import os
import re


def keep_names(verif_dir):
    names = set()
    for p in glob.glob(os.path.join(verif_dir, "sa", "props", "*.py")) + glob.glob(os.path.join(verif_dir, "sa", "core", "own.py")):
        with open(p) as fh:
            for m in re.finditer(r"[A-Za-z_][A-Za-z0-9_]{2,}", fh.read()):
                names.add(m.group(0))
    return names


def _own(d):
    p = d.get("file", "")
    return p.startswith(REPO + "/src/") and not any(x in p for x in ("/json/", "/zlib/", "/http-parser/", "/sha1/", "/tests/"))


def _operands(ins):
    for o in ins.get("a", []):
        yield o
    for o, _ in ins.get("inc", []) or []:
        yield o
    if "ind" in ins:
        yield ins["ind"]
    for st in ins.get("path", []) or []:
        if st[0] in ("p", "a"):
            yield st[1]


def _mentions_func(o, name):
    if isinstance(o, list) and o:
        if o[0] == "f" and o[1] == name:
            return True
        if o[0] in ("ce", "agg"):
            return any(_mentions_func(x, name) for x in (o[2] if o[0] == "ce" else o[1]))
    return False


MULTI_MAX_SITES = 8
MULTI_MAX_INSTS = 200


def _calls_itself(funcs, name):
    return any(ins["o"] == "call" and ins.get("callee") == name for b in funcs[name]["blocks"] for ins in b["insts"])


KEEP_PREFIXES = ("find_closer_entry_", "hashtable_", "wrap_pos", "hash_func_", "hs_hash", "hop_range_", "is_equal_")


def _reference_names():
    p = os.path.join(os.path.dirname(os.path.dirname(os.path.abspath(__file__))), "reference_functions.txt")
    try:
        with open(p) as fh:
            return set(l.strip() for l in fh if l.strip())
    except OSError:
        return None


def inline_all(facts, keep):
    funcs = facts["functions"]
    reference = _reference_names()
    if reference is None:
        reference = set(d.get("srcname") or n for n, d in funcs.items())   # no list: nothing counts as new
    own_names = [n for n, d in funcs.items() if _own(d)]
    taken = set()

    def scan(o):
        if isinstance(o, list) and o:
            if o[0] == "f":
                taken.add(o[1])
            elif o[0] == "ce":
                for x in o[2]:
                    scan(x)
            elif o[0] == "agg":
                for x in o[1]:
                    scan(x)
    for fd in funcs.values():
        for b in fd["blocks"]:
            for ins in b["insts"]:
                for o in _operands(ins):
                    if isinstance(o, list):
                        scan(o)
    for g in facts["globals"].values():
        if "init" in g:
            scan(g["init"])
    # direct call sites per callee (calls from non-own code count as well)
    sites = {}
    for fname, fd in funcs.items():
        for b in fd["blocks"]:
            for ins in b["insts"]:
                if ins["o"] == "call" and "callee" in ins:
                    sites.setdefault(ins["callee"], []).append(fname)
    out = []
    changed = True
    guard = 0
    while changed and guard < 300:
        changed = False
        guard += 1
        for gname in list(own_names):
            gd = funcs.get(gname)
            if gd is None or not gd.get("internal"):
                continue
            src = gd.get("srcname") or gname
            if src in keep or src.startswith(KEEP_PREFIXES) or gname in taken or gd.get("vararg"):
                continue
            ss = sites.get(gname, [])
            size = sum(len(b["insts"]) for b in gd["blocks"])
            if len(ss) != 1:
                # a helper that does not exist on the reference tree (sa/reference_functions.txt) and is shared by a few own
                # callers - the usual result of "extract the duplicated tail": a copy goes into every caller. Functions of the
                # reference tree keep their identity: the rules' summaries are stated over them.
                if src not in reference and 2 <= len(ss) <= MULTI_MAX_SITES and size <= MULTI_MAX_INSTS and gname not in ss and \
                        all(c in funcs and _own(funcs[c]) for c in ss) and not _calls_itself(funcs, gname):
                    for cname in list(ss):
                        while True:
                            loc = None
                            for b in funcs[cname]["blocks"]:
                                for ins in b["insts"]:
                                    if ins["o"] == "call" and ins.get("callee") == gname:
                                        loc = (b["id"], ins["i"])
                            if loc is None:
                                break
                            for b in gd["blocks"]:
                                for ins in b["insts"]:
                                    if ins["o"] == "call" and "callee" in ins:
                                        sites.setdefault(ins["callee"], []).append(cname)
                            _splice(funcs[cname], gd, loc[0], loc[1])
                            out.append((src, funcs[cname].get("srcname") or cname))
                    for b in gd["blocks"]:
                        for ins in b["insts"]:
                            if ins["o"] == "call" and "callee" in ins:
                                lst = sites.get(ins["callee"], [])
                                while gname in lst:
                                    lst.remove(gname)
                    del funcs[gname]
                    own_names.remove(gname)
                    sites.pop(gname, None)
                    changed = True
                continue
            cname = ss[0]
            if cname == gname or cname not in funcs or not _own(funcs[cname]):
                continue
            if size > 400:
                continue
            # locate the call
            loc = None
            for b in funcs[cname]["blocks"]:
                for ins in b["insts"]:
                    if ins["o"] == "call" and ins.get("callee") == gname:
                        loc = (b["id"], ins["i"])
            if loc is None:
                continue
            # the callee's own calls move into the caller
            for b in gd["blocks"]:
                for ins in b["insts"]:
                    if ins["o"] == "call" and "callee" in ins:
                        lst = sites.get(ins["callee"], [])
                        if gname in lst:
                            lst[lst.index(gname)] = cname
            _splice(funcs[cname], gd, loc[0], loc[1])
            del funcs[gname]
            own_names.remove(gname)
            out.append((src, funcs[cname].get("srcname") or cname))
            changed = True
    facts.setdefault("meta", {})["inlined"] = out
    return out


def _splice(fd, gd, cb, cid):
    nparams = len(fd["params"])
    gnparams = len(gd["params"])
    max_id = max([p["id"] for p in fd["params"]] + [ins["i"] for b in fd["blocks"] for ins in b["insts"]] + [0])
    max_bb = max(b["id"] for b in fd["blocks"])
    base = max_id + 1
    bbase = max_bb + 2  # max_bb+1 is the continuation block
    cont_id = max_bb + 1
    blk = next(b for b in fd["blocks"] if b["id"] == cb)
    k = next(i for i, ins in enumerate(blk["insts"]) if ins["i"] == cid)
    call = blk["insts"][k]
    args = call.get("a", [])

    def mapop(o):
        if isinstance(o, int):
            if o < gnparams:
                return copy.deepcopy(args[o]) if o < len(args) else ["u"]
            return base + o
        if isinstance(o, list) and o and o[0] == "bb":
            return ["bb", bbase + o[1]]
        return copy.deepcopy(o)
    rets = []
    newblocks = []
    # -O0 code has one 'return' block whose phi merges the values of all return statements.  Spliced as it is, the value of the
    # call would be a phi of a phi and the (predecessor, block) edge graph could not tell which return statement was taken; such
    # a block (phi + ret of it, nothing else) is threaded: its predecessors branch to the continuation themselves.
    def _succs(t):
        out = list(t.get("succ", []) or []) + [x for _, x in (t.get("cases") or [])]
        if "default" in t:
            out.append(t["default"])
        return out
    gpreds = {}
    for b in gd["blocks"]:
        for x in _succs(b["insts"][-1]):
            gpreds.setdefault(x, []).append(b["id"])
    thread = {}
    used = set()
    for b in gd["blocks"]:
        ii = b["insts"]
        if len(ii) == 2 and ii[0]["o"] == "phi" and ii[1]["o"] == "ret" and ii[1].get("a") and ii[1]["a"][0] == ii[0]["i"] \
                and b["id"] != gd["blocks"][0]["id"]:
            ps = [pb for (_, pb) in ii[0]["inc"]]
            if len(set(ps)) == len(ps) and sorted(ps) == sorted(gpreds.get(b["id"], [])) and not (set(ps) & used):   # (sorted(): each predecessor reaches it once)
                thread[b["id"]] = {pb: v for (v, pb) in ii[0]["inc"]}
                used |= set(ps)
    for b in gd["blocks"]:
        if b["id"] in thread:
            continue
        nb = {"id": bbase + b["id"], "insts": []}
        tsucc = [x for x in _succs(b["insts"][-1]) if x in thread]
        for x in tsucc:
            rets.append((mapop(thread[x][b["id"]]), nb["id"]))
        for ins in b["insts"]:
            ni = copy.deepcopy(ins)
            ni["i"] = base + ins["i"]
            if "a" in ni:
                ni["a"] = [mapop(o) for o in ins.get("a", [])]
            if ins.get("inc"):
                ni["inc"] = [[mapop(o), bbase + pb] for (o, pb) in ins["inc"]]
            if "ind" in ins:
                ni["ind"] = mapop(ins["ind"])
            if ins.get("path"):
                ni["path"] = [[st[0], mapop(st[1]), st[2]] if st[0] in ("p", "a") else list(st) for st in ins["path"]]
            if ins.get("succ"):
                ni["succ"] = [cont_id if x in thread else bbase + x for x in ins["succ"]]
            if ins.get("cases"):
                ni["cases"] = [[v, cont_id if x in thread else bbase + x] for (v, x) in ins["cases"]]
            if "default" in ins:
                ni["default"] = cont_id if ins["default"] in thread else bbase + ins["default"]
            # debug file of the callee if different
            if "lf" not in ni and gd.get("file") != fd.get("file"):
                ni["lf"] = gd.get("file")
            if ins["o"] == "ret":
                if ins.get("a"):
                    rets.append((mapop(ins["a"][0]), nb["id"]))
                else:
                    rets.append((None, nb["id"]))
                ni = {"i": ni["i"], "o": "br", "succ": [cont_id]}
                if "l" in ins:
                    ni["l"] = ins["l"]
            nb["insts"].append(ni)
        newblocks.append(nb)
    head = blk["insts"][:k]
    tail = blk["insts"][k + 1:]
    entry = bbase + gd["blocks"][0]["id"]
    jump = {"i": base + 100000 + cid, "o": "br", "succ": [entry]}
    if "l" in call:
        jump["l"] = call["l"]
    blk["insts"] = head + [jump]
    cont = {"id": cont_id, "insts": []}
    if "t" in call and any(v is not None for v, _ in rets):
        phi = {"i": cid, "o": "phi", "t": call["t"], "inc": [[v if v is not None else ["u"], pb] for (v, pb) in rets]}
        if "l" in call:
            phi["l"] = call["l"]
        if "n" in call:
            phi["n"] = call["n"]
        cont["insts"].append(phi)
    cont["insts"].extend(tail)
    # phis in successors of the original block now come from the continuation block
    succ_ids = set()
    t = tail[-1] if tail else None
    if t is not None:
        succ_ids |= set(t.get("succ", []) or [])
        succ_ids |= set(x for _, x in (t.get("cases") or []))
        if "default" in t:
            succ_ids.add(t["default"])
    for b in fd["blocks"]:
        if b["id"] in succ_ids:
            for ins in b["insts"]:
                if ins["o"] != "phi":
                    break
                for inc in ins["inc"]:
                    if inc[1] == cb:
                        inc[1] = cont_id
    if cb in succ_ids:
        pass
    fd["blocks"].append(cont)
    fd["blocks"].extend(newblocks)
    # block ids must equal their index for the model: renumber densely
    order = sorted(fd["blocks"], key=lambda b: b["id"])
    remap = {b["id"]: i for i, b in enumerate(order)}
    for b in order:
        b["id"] = remap[b["id"]]
        for ins in b["insts"]:
            if ins.get("succ"):
                ins["succ"] = [remap[x] for x in ins["succ"]]
            if ins.get("cases"):
                ins["cases"] = [[v, remap[x]] for (v, x) in ins["cases"]]
            if "default" in ins:
                ins["default"] = remap[ins["default"]]
            if ins.get("inc"):
                ins["inc"] = [[o, remap[pb]] for (o, pb) in ins["inc"]]
            for key in ("a",):
                if key in ins:
                    ins[key] = [(["bb", remap[o[1]]] if isinstance(o, list) and o and o[0] == "bb" else o) for o in ins[key]]
    fd["blocks"] = order


def lower_selects(facts):
    """`x = select c, a, b` (clang emits it for simple ternaries even at -O0) becomes a diamond: the block is split, the two
    arms are empty blocks and x is a phi in the join block. Afterwards a ternary and the if/else it replaced give the same
    paths, atoms and phi-resolved constants to every rule."""
    n = 0
    for fname, fd in facts["functions"].items():
        if not _own(fd):
            continue
        guard = 0
        while guard < 200:
            guard += 1
            hit = None
            for b in fd["blocks"]:
                for k, ins in enumerate(b["insts"]):
                    if ins["o"] == "select" and len(ins.get("a", [])) == 3:
                        hit = (b, k, ins)
                        break
                if hit:
                    break
            if not hit:
                break
            b, k, sel = hit
            n += 1
            max_id = max([p["id"] for p in fd["params"]] + [i["i"] for bb in fd["blocks"] for i in bb["insts"]] + [0])
            max_bb = max(bb["id"] for bb in fd["blocks"])
            tb, fb, jb = max_bb + 1, max_bb + 2, max_bb + 3
            head = b["insts"][:k]
            tail = b["insts"][k + 1:]
            br = {"i": max_id + 1, "o": "br", "a": [sel["a"][0]], "succ": [tb, fb]}
            if "l" in sel:
                br["l"] = sel["l"]
            b["insts"] = head + [br]
            tblk = {"id": tb, "insts": [{"i": max_id + 2, "o": "br", "succ": [jb]}]}
            fblk = {"id": fb, "insts": [{"i": max_id + 3, "o": "br", "succ": [jb]}]}
            phi = {"i": sel["i"], "o": "phi", "t": sel.get("t"), "inc": [[sel["a"][1], tb], [sel["a"][2], fb]]}
            for key in ("l", "n"):
                if key in sel:
                    phi[key] = sel[key]
            jblk = {"id": jb, "insts": [phi] + tail}
            # successors' phis that named the old block now come from the join block
            t = tail[-1] if tail else None
            succ_ids = set()
            if t is not None:
                succ_ids |= set(t.get("succ", []) or [])
                succ_ids |= set(x for _, x in (t.get("cases") or []))
                if "default" in t:
                    succ_ids.add(t["default"])
            for bb in fd["blocks"]:
                if bb["id"] in succ_ids:
                    for ins in bb["insts"]:
                        if ins["o"] != "phi":
                            break
                        for inc in ins["inc"]:
                            if inc[1] == b["id"]:
                                inc[1] = jb
            fd["blocks"].extend([tblk, fblk, jblk])
    facts.setdefault("meta", {})["selects_lowered"] = n
    return n
