"""Affine path evaluation: the values of integer/pointer SSA values and of memory cells along ONE enumerated path,
as affine forms {leaf: coeff} + const over the symbols of the path (parameters, initial cell contents, allocation
results, results of unmodelled calls), plus the branch facts of the path in the same symbol space.

Used by the buffer-bookkeeping rules (C19.3-C19.6): "offset + length <= capacity" style obligations are decided by
affine entailment from single branch facts - no solver, no search: an obligation D >= 0 (or > 0) is discharged iff
after substituting the path's equality facts D is a non-negative constant, or has only non-negative coefficients over
unsigned symbols, or D - F is such a form for one inequality fact F of the path.

Assumptions (stated in the evidence of the rules that use this): distinct access paths do not alias; size arithmetic
does not wrap around (message sizes are bounded by configuration far below 2^32)."""
from ..frontend import AnalysisBroken

CASTS = ("zext", "sext", "trunc", "bitcast", "ptrtoint", "inttoptr", "addrspacecast")
PURE_CALLS = {"malloc", "calloc", "realloc", "free", "memcpy", "memmove", "memset", "memcmp", "strlen", "log_err", "log_warn",
              "log_info", "print_converted_ret", "cjet_malloc", "cjet_free", "cjet_calloc"}
ALLOC = {"malloc": 0, "cjet_malloc": 0, "realloc": 1}


def a_add(x, y, sy=1):
    d = dict(x[0])
    for k, c in y[0].items():
        v = d.get(k, 0) + sy * c
        if v:
            d[k] = v
        else:
            d.pop(k, None)
    return (d, x[1] + sy * y[1])


def a_scale(x, c):
    if c == 0:
        return ({}, 0)
    return ({k: v * c for k, v in x[0].items()}, x[1] * c)


def a_const(x):
    return x[1] if not x[0] else None


def a_key(x):
    return (tuple(sorted(x[0].items(), key=repr)), x[1])


def a_fmt(x):
    def leaf(l):
        if l[0] == "param":
            return l[2]
        if l[0] == "init":
            return "initial(%s)" % _cell_fmt(l[1])
        if l[0] == "alloc":
            return "%s@%d#%d" % (l[1], l[2], l[3])
        if l[0] == "ret":
            return "%s()#%d" % (l[1], l[3])
        if l[0] == "clob":
            return "%s after %s()" % (_cell_fmt(l[1]), l[2])
        if l[0] in ("rem", "quot"):
            return "%s#%d" % (l[0], l[1])
        return str(l)
    parts = []
    for k, c in sorted(x[0].items(), key=repr):
        parts.append(("%s" % leaf(k)) if c == 1 else ("%d*%s" % (c, leaf(k))))
    if x[1] or not parts:
        parts.append(str(x[1]))
    return " + ".join(parts)


def _cell_fmt(key):
    from .program import fmt_term
    if isinstance(key, tuple) and key and key[0] == "ptrcell":
        return "%s[%s]" % (key[1], a_fmt((dict(key[2][0]), key[2][1])))
    try:
        return fmt_term(key)
    except Exception:
        return str(key)


class Event:
    __slots__ = ("pos", "kind", "inst", "data", "mem")

    def __init__(self, pos, kind, inst, data, mem=None):
        self.pos, self.kind, self.inst, self.data = pos, kind, inst, data
        self.mem = dict(mem) if mem is not None else {}


class PathEval:
    """evaluate one PathView. cell_calls: {srcname: ('load'|'store', cellname)} for helper functions that read/write a
    cell addressed by the VALUE of their first argument (e.g. a length header at the start of a heap buffer)."""

    def __init__(self, P, f, view, cell_calls=None, pure=(), watch_ops=()):
        self.P, self.f, self.view = P, f, view
        self.watch_ops = set(watch_ops)
        self.cell_calls = cell_calls or {}
        self.pure = set(PURE_CALLS) | set(pure) | set(self.cell_calls)
        self.vals = {}
        self.mem = {}        # cell key -> affine
        self.alloc = {}      # pointer leaf -> affine size
        self.facts = []      # (pos, kind, D) kind in gt0, ge0, eq0, ne0
        self.events = []     # stores / calls / rets with evaluated operands
        self.visit = {}
        self.conds = {}      # i1-ish value id -> ("cmp", pred, xaff, yaff) | ("const", bool), evaluated where it was computed
        self.infeasible = False
        self._run()
        self.facts = [(p, k, _reduce(k, d)) for (p, k, d) in self.facts]
        for (p, k, d) in list(self.facts):
            if k in ("ne0", "gt0"):
                dd = self._subst_eq(d, p if k == "gt0" else self.npos)
                c = a_const(dd)
                if c is not None and ((k == "ne0" and c == 0) or (k == "gt0" and c <= 0)):
                    self.infeasible = True
        for (p, k, d) in self.facts:
            c = a_const(d)
            if c is not None and ((k == "eq0" and c != 0) or (k == "ne0" and c == 0) or (k == "gt0" and c <= 0) or (k == "ge0" and c < 0)):
                self.infeasible = True

    # ----- values -----
    def leaf(self, l):
        return ({l: 1}, 0)

    def val(self, o):
        P, f = self.P, self.f
        if isinstance(o, list):
            c = P.const_int(o)
            if c is not None:
                return ({}, c)
            if P.is_null(o):
                return ({}, 0)
            if o and o[0] == "ce" and o[1] in CASTS:
                return self.val(o[2][0])
            return self.leaf(("k", repr(o)))
        if o < f.nparams:
            return self.leaf(("param", o, f.params[o]["name"]))
        if o in self.vals:
            return self.vals[o]
        # value defined in a block that is not on the path before its use (should not happen); opaque
        return self.leaf(("v", o, 0))

    def cell_of_addr(self, o):
        """cell key for an address operand: the address TERM with loads of pointer cells kept syntactic"""
        return self.P.term(self.f, o)

    def _gep_val(self, i):
        base = self.val(i.a[0])
        out = base
        for st in i.path:
            if st[0] in ("p", "a"):
                c = self.P.const_int(st[1])
                if c is not None:
                    out = a_add(out, ({}, c * st[2]))
                else:
                    out = a_add(out, a_scale(self.val(st[1]), st[2]))
            else:
                return None
        return out

    def _run(self):
        P, f, view = self.P, self.f, self.view
        pos = 0
        blocks = view.blocks
        for bi, b in enumerate(blocks):
            self.visit[b] = self.visit.get(b, 0) + 1
            nv = self.visit[b]
            prev = blocks[bi - 1] if bi > 0 else None
            # phis: simultaneous assignment from the values on the incoming edge
            newv = {}
            newc = {}
            for i in f.blocks[b]:
                if i.op != "phi":
                    break
                got = None
                for (v, pb) in i.inc:
                    if pb == prev:
                        got = self.val(v)
                        c = self._cond_of(v)
                        if c is not None:
                            newc[i.id] = c
                        break
                newv[i.id] = got if got is not None else self.leaf(("v", i.id, nv))
            self.vals.update(newv)
            for k_ in list(newv):
                self.conds.pop(k_, None)
            self.conds.update(newc)
            for i in f.blocks[b]:
                op = i.op
                if op == "phi":
                    continue
                pos += 1
                if op == "icmp":
                    inner = self._cond_of(i.a[0]) if (P.const_int(i.a[1]) == 0 and i.pred in ("eq", "ne")) else None
                    if inner is not None and inner[0] in ("cmp", "const"):
                        self.conds[i.id] = inner if i.pred == "ne" else _neg(inner)
                    else:
                        self.conds[i.id] = ("cmp", i.pred, self.val(i.a[0]), self.val(i.a[1]))
                elif op in ("zext", "sext", "trunc") or (op == "call" and i.callee and i.callee.startswith("llvm.expect")):
                    c = self._cond_of(i.a[0])
                    if c is not None:
                        self.conds[i.id] = c
                    else:
                        self.conds.pop(i.id, None)
                elif op == "xor" and P.const_int(i.a[1]) in (1, -1, True):
                    c = self._cond_of(i.a[0])
                    if c is not None:
                        self.conds[i.id] = _neg(c)
                if op in CASTS:
                    self.vals[i.id] = self.val(i.a[0])
                elif op in ("add", "sub"):
                    self.vals[i.id] = a_add(self.val(i.a[0]), self.val(i.a[1]), 1 if op == "add" else -1)
                    if op in self.watch_ops:
                        self.events.append(Event(pos, "op", i, {"op": op, "x": self.val(i.a[0]), "y": self.val(i.a[1]), "value": self.vals[i.id]}))
                elif op == "mul":
                    x, y = self.val(i.a[0]), self.val(i.a[1])
                    if a_const(x) is not None:
                        self.vals[i.id] = a_scale(y, x[1])
                    elif a_const(y) is not None:
                        self.vals[i.id] = a_scale(x, y[1])
                    else:
                        self.vals[i.id] = self.leaf(("v", i.id, nv))
                elif op == "shl" and P.const_int(i.a[1]) is not None:
                    self.vals[i.id] = a_scale(self.val(i.a[0]), 1 << P.const_int(i.a[1]))
                elif op in ("udiv", "sdiv", "lshr") and P.const_int(i.a[1]) is not None:
                    x = self.val(i.a[0])
                    d = P.const_int(i.a[1])
                    if op == "lshr":
                        d = 1 << d
                    if d and x[1] % d == 0 and all(c % d == 0 for c in x[0].values()):
                        self.vals[i.id] = ({k: c // d for k, c in x[0].items()}, x[1] // d)
                    elif d and d > 0 and op != "sdiv":
                        # q = x div d :  0 <= x - d*q <= d-1
                        q = self.leaf(("quot", i.id, nv))
                        self.vals[i.id] = q
                        r = a_add(x, a_scale(q, d), -1)
                        self.facts.append((pos, "ge0", r))
                        self.facts.append((pos, "ge0", a_add(({}, d - 1), r, -1)))
                    else:
                        self.vals[i.id] = self.leaf(("v", i.id, nv))
                elif (op == "urem" and P.const_int(i.a[1]) is not None and P.const_int(i.a[1]) > 0) or \
                        (op == "and" and P.const_int(i.a[1]) is not None and P.const_int(i.a[1]) > 0 and
                         (P.const_int(i.a[1]) & (P.const_int(i.a[1]) + 1)) == 0):
                    # r = x mod m (or x & (2^k - 1)) :  0 <= r <= m-1
                    m = P.const_int(i.a[1]) if op == "urem" else P.const_int(i.a[1]) + 1
                    r = self.leaf(("rem", i.id, nv))
                    self.vals[i.id] = r
                    self.facts.append((pos, "ge0", a_add(({}, m - 1), r, -1)))
                elif op == "getelementptr":
                    g = self._gep_val(i)
                    self.vals[i.id] = g if g is not None else self.leaf(("addr", self.cell_of_addr(i.id)))
                elif op == "load":
                    key = self._addr_key(i.a[0])
                    if key in self.mem:
                        self.vals[i.id] = self.mem[key]
                    else:
                        v = self.leaf(("init", key))
                        self.mem[key] = v
                        self.vals[i.id] = v
                    if isinstance(key, tuple) and key and key[0] == "ptrcell":
                        self.events.append(Event(pos, "load", i, {"cell": key, "value": self.vals[i.id]}, self.mem))
                    if "ld" in self.watch_ops:   # every load with the VALUE of its address
                        self.events.append(Event(pos, "ld", i, {"addr": self.val(i.a[0]), "value": self.vals[i.id]}))
                elif op == "store":
                    key = self._addr_key(i.a[1])
                    v = self.val(i.a[0])
                    self.mem[key] = v
                    self.events.append(Event(pos, "store", i, {"cell": key, "value": v}, self.mem))
                elif op == "call":
                    self._call(i, pos, nv)
                elif op == "ret":
                    self.events.append(Event(pos, "ret", i, {"value": self.val(i.a[0]) if i.a else None}, self.mem))
                elif op in ("br", "switch"):
                    if bi + 1 < len(blocks):
                        self._branch_fact(i, blocks[bi + 1], pos)
                elif op == "alloca":
                    self.vals[i.id] = self.leaf(("alloca", i.id))
                else:
                    self.vals[i.id] = self.leaf(("v", i.id, nv))
        self.npos = pos

    def _addr_key(self, o):
        """cells are keyed by address. An address that is (pointer value + constant offset) with the pointer an affine
        value of the path is keyed by that value, so that p[k] through different SSA names is one cell; everything else
        by its address term."""
        P, f = self.P, self.f
        s = P.strip(f, o)
        if isinstance(s, int) and s >= f.nparams and f.insts[s].op == "getelementptr":
            g = self.vals.get(s)
            ins = f.insts[s]
            if g is not None and all(st[0] in ("p", "a") for st in ins.path):
                return ("ptrcell", "mem", a_key(g))
        if isinstance(s, int) and s >= f.nparams and f.insts[s].op == "phi" and s in self.vals:
            # a pointer that walks (p = phi(start, p + 1)): the cell is the one its current value names
            g = self.vals[s]
            if any(l[0] in ("param", "alloc", "ret", "alloca") for l in g[0]):
                return ("ptrcell", "mem", a_key(g))
        return P.term(f, o)

    def _call(self, i, pos, nv):
        P, f = self.P, self.f
        cn = P.srcname_of(i.callee) if i.callee else None
        args = [self.val(x) for x in i.a]
        if cn and cn.startswith("llvm.expect"):
            self.vals[i.id] = args[0]
            return
        if cn and (cn.startswith("llvm.dbg") or cn.startswith("llvm.lifetime")):
            return
        if cn and cn.startswith("llvm.mem"):
            cn = {"llvm.memcpy": "memcpy", "llvm.memmove": "memmove", "llvm.memset": "memset"}.get(".".join(cn.split(".")[:2]), cn)
        ev = {"callee": cn, "args": args}
        if cn in self.cell_calls:
            kind, name = self.cell_calls[cn]
            key = ("ptrcell", name, a_key(args[0]))
            if kind == "load":
                if key not in self.mem:
                    self.mem[key] = self.leaf(("init", key))
                self.vals[i.id] = self.mem[key]
            else:
                self.mem[key] = args[1]
                ev["cell"] = key
                ev["value"] = args[1]
            self.events.append(Event(pos, "cellcall", i, ev, self.mem))
            return
        if cn in ALLOC:
            l = ("alloc", cn, i.id, nv)
            self.vals[i.id] = self.leaf(l)
            self.alloc[l] = args[ALLOC[cn]]
            if cn == "realloc":
                # contents are preserved: cells addressed through the old pointer value are readable through the new one
                old = a_key(args[0])
                for k in list(self.mem.keys()):
                    if isinstance(k, tuple) and k and k[0] == "ptrcell" and k[2] == old:
                        self.mem[("ptrcell", k[1], a_key(self.leaf(l)))] = self.mem[k]
            ev["result"] = self.vals[i.id]
            self.events.append(Event(pos, "call", i, ev, self.mem))
            return
        if i.ty and i.ty != "void":
            self.vals[i.id] = self.leaf(("ret", cn or "indirect", i.id, nv))
            ev["result"] = self.vals[i.id]
        self.events.append(Event(pos, "call", i, ev, self.mem))
        if cn in self.pure:
            return
        # an unmodelled callee may write every cell reachable from its pointer arguments
        argterms = [P.term(f, x) for x in i.a]
        for k in list(self.mem.keys()):
            if isinstance(k, tuple) and k and k[0] == "ptrcell":
                hit = any(k[2] == a_key(av) for av in args)
            else:
                hit = any(_prefix(at, k) for at in argterms if at[0] not in ("const", "null", "str"))
            if hit:
                self.mem[k] = self.leaf(("clob", k, cn or "indirect", i.id, nv))

    def _cond_of(self, o):
        P = self.P
        c = P.const_int(o)
        if c is not None:
            return ("const", bool(c))
        if isinstance(o, int):
            return self.conds.get(o)
        return None

    # ----- branch facts -----
    def _cmp_of(self, o, pol=True, depth=0):
        """operand-level walk to the comparison deciding a branch: returns (pred, lhs, rhs, pol) or None"""
        P, f = self.P, self.f
        if depth > 20 or not isinstance(o, int) or o < f.nparams:
            return None
        i = f.insts[o]
        if i.op in ("zext", "sext", "trunc"):
            return self._cmp_of(i.a[0], pol, depth + 1)
        if i.op == "call" and i.callee and i.callee.startswith("llvm.expect"):
            return self._cmp_of(i.a[0], pol, depth + 1)
        if i.op == "xor" and P.const_int(i.a[1]) in (1, -1, True):
            return self._cmp_of(i.a[0], not pol, depth + 1)
        if i.op == "icmp":
            rc = P.const_int(i.a[1])
            if rc == 0 and i.pred in ("eq", "ne"):
                inner = self._cmp_of(i.a[0], pol if i.pred == "ne" else not pol, depth + 1)
                if inner is not None:
                    return inner
            return (i.pred, i.a[0], i.a[1], pol)
        return None

    def _branch_fact(self, t, nxt, pos):
        P = self.P
        if t.op == "switch":
            v = self.val(t.a[0])
            hits = [cv for (cv, s) in t.cases if s == nxt]
            if len(hits) == 1 and nxt != t.default:
                self.facts.append((pos, "eq0", a_add(v, ({}, hits[0]), -1)))
            return
        if len(t.succ) != 2 or t.succ[0] == t.succ[1]:
            return
        c = self._cond_of(t.a[0])
        if c is None or c[0] != "cmp":
            return
        _, pred, x, y = c
        pol = True
        if nxt == t.succ[1]:
            pol = not pol
        elif nxt != t.succ[0]:
            return
        if not pol:
            pred = NEGPRED[pred]
        d = a_add(x, y, -1)   # x - y
        if pred == "eq":
            self.facts.append((pos, "eq0", d))
        elif pred == "ne":
            self.facts.append((pos, "ne0", d))
            # unsigned x != 0 means x > 0
            if a_const(y) == 0:
                self.facts.append((pos, "gt0", x))
        elif pred in ("ugt", "sgt"):
            self.facts.append((pos, "gt0", d))
        elif pred in ("uge", "sge"):
            self.facts.append((pos, "ge0", d))
        elif pred in ("ult", "slt"):
            self.facts.append((pos, "gt0", a_scale(d, -1)))
        elif pred in ("ule", "sle"):
            self.facts.append((pos, "ge0", a_scale(d, -1)))

    # ----- entailment -----
    def _subst_eq(self, d, upto):
        for _ in range(4):
            changed = False
            for (p, k, e) in self.facts:
                if k != "eq0" or p > upto:
                    continue
                for lf, c in e[0].items():
                    if abs(c) == 1 and lf in d[0]:
                        # lf = -(e - c*lf)/c
                        rest = ({kk: vv for kk, vv in e[0].items() if kk != lf}, e[1])
                        repl = a_scale(rest, -c)
                        coeff = d[0][lf]
                        d = a_add(({kk: vv for kk, vv in d[0].items() if kk != lf}, d[1]), a_scale(repl, coeff))
                        changed = True
                        break
            if not changed:
                break
        return d

    @staticmethod
    def _unsigned_leaf(l):
        return l[0] in ("param", "init", "clob", "rem", "quot")

    def _trivial(self, d, strict):
        if any(c < 0 or not self._unsigned_leaf(l) for l, c in d[0].items()):
            return False
        return d[1] > 0 if strict else d[1] >= 0

    def entails(self, d, strict=False, upto=None, after=0):
        """is d >= 0 (d > 0 if strict) implied by the facts recorded at positions in (after, upto]?"""
        upto = self.npos if upto is None else upto
        d = self._subst_eq(d, upto)
        if self._trivial(d, strict):
            return True
        for (p, k, fct) in self.facts:
            if p > upto or p <= after or k not in ("gt0", "ge0"):
                continue
            fct = self._subst_eq(fct, upto)
            r = a_add(d, fct, -1)
            # d = fct + r ; integers: fct > 0 means fct >= 1
            if k == "gt0":
                r = a_add(r, ({}, 1))
            if self._trivial(r, strict):
                return True
        # two facts: d = f1 + f2 + r
        fs = [(p, k, self._subst_eq(fct, upto)) for (p, k, fct) in self.facts if p <= upto and p > after and k in ("gt0", "ge0")]
        if len(fs) <= 60:
            for x in range(len(fs)):
                for y in range(x + 1, len(fs)):
                    r = a_add(a_add(d, fs[x][2], -1), fs[y][2], -1)
                    bonus = (1 if fs[x][1] == "gt0" else 0) + (1 if fs[y][1] == "gt0" else 0)
                    r = a_add(r, ({}, bonus))
                    if self._trivial(r, strict):
                        return True
        return False

    def equal(self, x, y, upto=None):
        upto = self.npos if upto is None else upto
        d = self._subst_eq(a_add(x, y, -1), upto)
        return not d[0] and d[1] == 0

    def cell(self, key):
        return self.mem.get(key)


NEGPRED = {"eq": "ne", "ne": "eq", "ult": "uge", "uge": "ult", "ugt": "ule", "ule": "ugt",
           "slt": "sge", "sge": "slt", "sgt": "sle", "sle": "sgt"}


def _neg(c):
    if c[0] == "const":
        return ("const", not c[1])
    return ("cmp", NEGPRED[c[1]], c[2], c[3])


def _reduce(kind, d):
    """divide a fact by the gcd of its coefficients where that keeps it exact"""
    from math import gcd
    g = 0
    for c in d[0].values():
        g = gcd(g, abs(c))
    if g > 1 and d[1] % g == 0:
        return ({k: c // g for k, c in d[0].items()}, d[1] // g)
    return d


def _prefix(base, cell):
    """is the address term `cell` a field/index path starting at pointer term `base`?"""
    t = cell
    for _ in range(12):
        if t == base:
            return True
        if isinstance(t, tuple) and t and t[0] in ("field", "index", "byteoff", "container_of"):
            t = t[1]
            continue
        return False
    return False
