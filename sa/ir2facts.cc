// ir2facts: dump a linked LLVM-14 module (after mem2reg) as JSON facts for the
// Python rule engine. Build: see /verif/setup.sh
#include "llvm/IR/Constants.h"
#include "llvm/IR/DataLayout.h"
#include "llvm/IR/DebugInfo.h"
#include "llvm/IR/DebugInfoMetadata.h"
#include "llvm/IR/Function.h"
#include "llvm/IR/GetElementPtrTypeIterator.h"
#include "llvm/IR/InstIterator.h"
#include "llvm/IR/Instructions.h"
#include "llvm/IR/IntrinsicInst.h"
#include "llvm/IR/LLVMContext.h"
#include "llvm/IR/Module.h"
#include "llvm/IR/Operator.h"
#include "llvm/IRReader/IRReader.h"
#include "llvm/Support/JSON.h"
#include "llvm/Support/SourceMgr.h"
#include "llvm/Support/raw_ostream.h"
#include <map>
#include <set>
#include <string>

using namespace llvm;

static std::string canonStruct(StringRef n) {
  // strip llvm-link's numeric suffix (struct.peer.81 -> struct.peer), but keep
  // anonymous aggregates distinct (struct.anon.3 is a real name).
  size_t dot = n.rfind('.');
  if (dot == StringRef::npos) return n.str();
  StringRef suf = n.substr(dot + 1);
  if (suf.empty()) return n.str();
  for (char c : suf) if (c < '0' || c > '9') return n.str();
  StringRef base = n.substr(0, dot);
  if (base.endswith("anon") ) return n.str();
  if (base.find('.') == StringRef::npos) return n.str(); // "struct.12"? keep
  return base.str();
}

static std::string typeStr(Type *t) {
  if (auto *st = dyn_cast<StructType>(t)) {
    if (st->hasName()) return "%" + canonStruct(st->getName());
  }
  if (auto *pt = dyn_cast<PointerType>(t)) {
    return typeStr(pt->getPointerElementType()) + "*";
  }
  if (auto *at = dyn_cast<ArrayType>(t)) {
    return "[" + std::to_string(at->getNumElements()) + " x " + typeStr(at->getElementType()) + "]";
  }
  if (auto *ft = dyn_cast<FunctionType>(t)) {
    std::string s = typeStr(ft->getReturnType()) + " (";
    for (unsigned i = 0; i < ft->getNumParams(); i++) {
      if (i) s += ", ";
      s += typeStr(ft->getParamType(i));
    }
    if (ft->isVarArg()) s += ft->getNumParams() ? ", ..." : "...";
    return s + ")";
  }
  std::string s;
  raw_string_ostream os(s);
  t->print(os);
  return os.str();
}

struct FnCtx {
  std::map<const Value *, int> ids;
  std::map<const BasicBlock *, int> bbs;
};

static void emitConst(json::OStream &J, const Constant *c, int depth);

static void emitOperand(json::OStream &J, const Value *v, FnCtx *fc) {
  if (fc) {
    auto it = fc->ids.find(v);
    if (it != fc->ids.end()) { J.value(it->second); return; }
    if (auto *bb = dyn_cast<BasicBlock>(v)) {
      J.array([&] { J.value("bb"); J.value(fc->bbs[bb]); });
      return;
    }
  }
  if (auto *c = dyn_cast<Constant>(v)) { emitConst(J, c, 0); return; }
  if (isa<MetadataAsValue>(v)) { J.array([&] { J.value("md"); }); return; }
  if (isa<InlineAsm>(v)) { J.array([&] { J.value("asm"); }); return; }
  J.array([&] { J.value("?"); });
}

static void emitConst(json::OStream &J, const Constant *c, int depth) {
  if (depth > 6) { J.array([&] { J.value("deep"); }); return; }
  if (auto *ci = dyn_cast<ConstantInt>(c)) {
    J.array([&] {
      J.value("c");
      if (ci->getBitWidth() == 1) J.value((int64_t)ci->getZExtValue());
      else if (ci->getBitWidth() <= 64) J.value(ci->getSExtValue()); else J.value(0);
      J.value((int64_t)ci->getBitWidth());
    });
    return;
  }
  if (isa<ConstantPointerNull>(c)) { J.array([&] { J.value("n"); }); return; }
  if (auto *f = dyn_cast<Function>(c)) { J.array([&] { J.value("f"); J.value(f->getName()); }); return; }
  if (auto *g = dyn_cast<GlobalVariable>(c)) {
    // string literal?
    if (g->isConstant() && g->hasInitializer()) {
      if (auto *cda = dyn_cast<ConstantDataArray>(g->getInitializer())) {
        if (cda->isString()) {
          StringRef s = cda->getAsString();
          if (!s.empty() && s.back() == 0) s = s.drop_back();
          bool ok = true;
          for (unsigned char ch : s) if (ch < 9 || ch > 126) ok = false;
          if (ok) { J.array([&] { J.value("s"); J.value(s); J.value(g->getName()); }); return; }
        }
      }
    }
    J.array([&] { J.value("g"); J.value(g->getName()); });
    return;
  }
  if (auto *fp = dyn_cast<ConstantFP>(c)) {
    J.array([&] {
      J.value("fp");
      if (&fp->getValueAPF().getSemantics() == &APFloat::IEEEdouble() ||
          &fp->getValueAPF().getSemantics() == &APFloat::IEEEsingle()) {
        double d = fp->getValueAPF().convertToDouble();
        if (d != d || d > 1e308 || d < -1e308) J.value("nonfinite"); else J.value(d);
      } else J.value("ext");
    });
    return;
  }
  if (isa<UndefValue>(c)) { J.array([&] { J.value("u"); }); return; }
  if (auto *ce = dyn_cast<ConstantExpr>(c)) {
    J.array([&] {
      J.value("ce");
      J.value(ce->getOpcodeName());
      J.array([&] {
        for (unsigned i = 0; i < ce->getNumOperands(); i++) emitConst(J, ce->getOperand(i), depth + 1);
      });
      if (auto *gep = dyn_cast<GEPOperator>(ce)) J.value(typeStr(gep->getSourceElementType()));
    });
    return;
  }
  if (isa<ConstantAggregateZero>(c)) { J.array([&] { J.value("z"); J.value(typeStr(c->getType())); }); return; }
  if (auto *cda = dyn_cast<ConstantDataSequential>(c)) {
    J.array([&] {
      J.value("agg");
      J.array([&] {
        unsigned n = cda->getNumElements();
        if (n > 4096) n = 0;
        for (unsigned i = 0; i < n; i++) emitConst(J, cda->getElementAsConstant(i), depth + 1);
      });
      J.value(typeStr(c->getType()));
    });
    return;
  }
  if (isa<ConstantAggregate>(c)) {
    J.array([&] {
      J.value("agg");
      J.array([&] {
        for (unsigned i = 0; i < c->getNumOperands(); i++) emitConst(J, cast<Constant>(c->getOperand(i)), depth + 1);
      });
      J.value(typeStr(c->getType()));
    });
    return;
  }
  if (isa<BlockAddress>(c)) { J.array([&] { J.value("ba"); }); return; }
  if (auto *ga = dyn_cast<GlobalAlias>(c)) { J.array([&] { J.value("g"); J.value(ga->getName()); }); return; }
  J.array([&] { J.value("?c"); });
}

int main(int argc, char **argv) {
  if (argc < 3) { errs() << "usage: ir2facts in.bc|in.ll out.json\n"; return 2; }
  LLVMContext ctx;
  SMDiagnostic err;
  std::unique_ptr<Module> M = parseIRFile(argv[1], err, ctx);
  if (!M) { err.print(argv[0], errs()); return 2; }
  const DataLayout &DL = M->getDataLayout();
  std::error_code ec;
  raw_fd_ostream out(argv[2], ec);
  if (ec) { errs() << "cannot open output\n"; return 2; }
  json::OStream J(out, 0);

  // debug-info composite types by name
  DebugInfoFinder dif;
  dif.processModule(*M);
  std::map<std::string, const DICompositeType *> ditypes;
  for (auto *t : dif.types()) {
    if (auto *ct = dyn_cast<DICompositeType>(t)) {
      if (ct->getName().empty() || ct->isForwardDecl()) continue;
      std::string key;
      if (ct->getTag() == dwarf::DW_TAG_structure_type) key = "struct." + ct->getName().str();
      else if (ct->getTag() == dwarf::DW_TAG_union_type) key = "union." + ct->getName().str();
      else continue;
      if (!ditypes.count(key)) ditypes[key] = ct;
    }
  }

  J.object([&] {
    J.attributeObject("structs", [&] {
      std::set<std::string> done;
      for (StructType *st : M->getIdentifiedStructTypes()) {
        if (st->isOpaque()) continue;
        std::string name = canonStruct(st->getName());
        if (!done.insert(name).second) continue;
        J.attributeObject(name, [&] {
          const StructLayout *sl = DL.getStructLayout(st);
          J.attribute("size", (int64_t)sl->getSizeInBytes());
          J.attributeArray("fields", [&] {
            for (unsigned i = 0; i < st->getNumElements(); i++) {
              J.object([&] {
                J.attribute("ty", typeStr(st->getElementType(i)));
                J.attribute("off", (int64_t)sl->getElementOffset(i));
              });
            }
          });
          auto it = ditypes.find(name);
          if (it != ditypes.end()) {
            J.attributeArray("members", [&] {
              for (auto *e : it->second->getElements()) {
                auto *m = dyn_cast<DIDerivedType>(e);
                if (!m || m->getTag() != dwarf::DW_TAG_member) continue;
                uint64_t offb = m->getOffsetInBits();
                unsigned idx;
                if (offb / 8 >= sl->getSizeInBytes()) {
                  // flexible array member: lives at the end of the struct
                  unsigned last = st->getNumElements() - 1;
                  if (st->getNumElements() == 0 || sl->getElementOffset(last) != offb / 8) continue;
                  idx = last;
                } else idx = sl->getElementContainingOffset(offb / 8);
                J.object([&] {
                  J.attribute("name", m->getName());
                  J.attribute("off_bits", (int64_t)offb);
                  J.attribute("size_bits", (int64_t)m->getSizeInBits());
                  J.attribute("idx", (int64_t)idx);
                  J.attribute("bitfield", m->isBitField());
                  // members of an anonymous nested aggregate (no name to look it up by)
                  const DIType *bt = m->getBaseType();
                  while (bt) {
                    auto *dt = dyn_cast<DIDerivedType>(bt);
                    if (!dt || (dt->getTag() != dwarf::DW_TAG_typedef && dt->getTag() != dwarf::DW_TAG_const_type &&
                                dt->getTag() != dwarf::DW_TAG_volatile_type)) break;
                    bt = dt->getBaseType();
                  }
                  if (auto *sub = dyn_cast_or_null<DICompositeType>(bt)) {
                    if (sub->getName().empty() && (sub->getTag() == dwarf::DW_TAG_structure_type || sub->getTag() == dwarf::DW_TAG_union_type)) {
                      J.attributeArray("sub", [&] {
                        for (auto *se : sub->getElements()) {
                          auto *sm = dyn_cast<DIDerivedType>(se);
                          if (!sm || sm->getTag() != dwarf::DW_TAG_member) continue;
                          J.object([&] {
                            J.attribute("name", sm->getName());
                            J.attribute("off_bits", (int64_t)sm->getOffsetInBits());
                            J.attribute("size_bits", (int64_t)sm->getSizeInBits());
                            J.attribute("bitfield", sm->isBitField());
                          });
                        }
                      });
                    }
                  }
                });
              }
            });
          }
        });
      }
    });

    J.attributeObject("enums", [&] {
      std::set<std::string> seen;
      for (auto *t : dif.types()) {
        auto *ct = dyn_cast<DICompositeType>(t);
        if (!ct || ct->getTag() != dwarf::DW_TAG_enumeration_type) continue;
        for (auto *e : ct->getElements()) {
          if (auto *en = dyn_cast<DIEnumerator>(e)) {
            std::string n = en->getName().str();
            if (!seen.insert(n).second) continue;
            J.attribute(n, en->getValue().getSExtValue());
          }
        }
      }
    });

    J.attributeObject("globals", [&] {
      for (GlobalVariable &g : M->globals()) {
        if (g.getName().startswith("llvm.")) continue;
        J.attributeObject(g.getName(), [&] {
          J.attribute("ty", typeStr(g.getValueType()));
          J.attribute("const", g.isConstant());
          J.attribute("internal", g.hasLocalLinkage());
          SmallVector<DIGlobalVariableExpression *, 1> dbg;
          g.getDebugInfo(dbg);
          if (!dbg.empty()) {
            auto *v = dbg[0]->getVariable();
            J.attribute("file", v->getFilename());
            J.attribute("line", (int64_t)v->getLine());
            J.attribute("srcname", v->getName());
          }
          if (g.hasInitializer()) {
            J.attributeBegin("init");
            emitConst(J, g.getInitializer(), 0);
            J.attributeEnd();
          }
        });
      }
    });

    J.attributeArray("declared", [&] {
      for (Function &F : *M) if (F.isDeclaration() && !F.getName().startswith("llvm.dbg")) J.value(F.getName());
    });

    J.attributeObject("functions", [&] {
      for (Function &F : *M) {
        if (F.isDeclaration()) continue;
        FnCtx fc;
        int next = 0;
        for (Argument &a : F.args()) fc.ids[&a] = next++;
        int nb = 0;
        for (BasicBlock &B : F) {
          fc.bbs[&B] = nb++;
          for (Instruction &I : B) {
            if (isa<DbgInfoIntrinsic>(I)) continue;
            fc.ids[&I] = next++;
          }
        }
        // variable names from dbg.value / dbg.declare
        std::map<const Value *, std::string> vnames;
        for (BasicBlock &B : F)
          for (Instruction &I : B)
            if (auto *dv = dyn_cast<DbgVariableIntrinsic>(&I)) {
              Value *v = dv->getVariableLocationOp(0);
              if (v && !vnames.count(v)) vnames[v] = dv->getVariable()->getName().str();
            }
        J.attributeObject(F.getName(), [&] {
          if (DISubprogram *sp = F.getSubprogram()) {
            J.attribute("file", sp->getFilename());
            J.attribute("dir", sp->getDirectory());
            J.attribute("line", (int64_t)sp->getLine());
            J.attribute("srcname", sp->getName());
          }
          J.attribute("internal", F.hasLocalLinkage());
          J.attribute("ret", typeStr(F.getReturnType()));
          J.attribute("vararg", F.isVarArg());
          J.attributeArray("params", [&] {
            for (Argument &a : F.args()) {
              J.object([&] {
                J.attribute("id", fc.ids[&a]);
                J.attribute("ty", typeStr(a.getType()));
                auto it = vnames.find(&a);
                J.attribute("name", it != vnames.end() ? it->second : a.getName().str());
              });
            }
          });
          J.attributeArray("blocks", [&] {
            for (BasicBlock &B : F) {
              J.object([&] {
                J.attribute("id", fc.bbs[&B]);
                J.attributeArray("insts", [&] {
                  for (Instruction &I : B) {
                    if (isa<DbgInfoIntrinsic>(I)) continue;
                    J.object([&] {
                      J.attribute("i", fc.ids[&I]);
                      J.attribute("o", I.getOpcodeName());
                      if (!I.getType()->isVoidTy()) J.attribute("t", typeStr(I.getType()));
                      if (const DebugLoc &dl = I.getDebugLoc()) {
                        J.attribute("l", (int64_t)dl.getLine());
                        if (auto *sc = dyn_cast_or_null<DIScope>(dl.getScope())) {
                          if (F.getSubprogram() && sc->getFilename() != F.getSubprogram()->getFilename())
                            J.attribute("lf", sc->getFilename());
                        }
                      }
                      auto vn = vnames.find(&I);
                      if (vn != vnames.end()) J.attribute("n", vn->second);
                      if (auto *ph = dyn_cast<PHINode>(&I)) {
                        J.attributeArray("inc", [&] {
                          for (unsigned k = 0; k < ph->getNumIncomingValues(); k++) {
                            J.array([&] {
                              emitOperand(J, ph->getIncomingValue(k), &fc);
                              J.value(fc.bbs[ph->getIncomingBlock(k)]);
                            });
                          }
                        });
                        return;
                      }
                      if (auto *cb = dyn_cast<CallBase>(&I)) {
                        Value *cv = cb->getCalledOperand()->stripPointerCasts();
                        if (auto *cf = dyn_cast<Function>(cv)) J.attribute("callee", cf->getName());
                        else {
                          J.attributeBegin("ind");
                          emitOperand(J, cv, &fc);
                          J.attributeEnd();
                        }
                        J.attributeArray("a", [&] {
                          for (unsigned k = 0; k < cb->arg_size(); k++) emitOperand(J, cb->getArgOperand(k), &fc);
                        });
                        return;
                      }
                      if (auto *br = dyn_cast<BranchInst>(&I)) {
                        if (br->isConditional()) {
                          J.attributeArray("a", [&] { emitOperand(J, br->getCondition(), &fc); });
                          J.attributeArray("succ", [&] { J.value(fc.bbs[br->getSuccessor(0)]); J.value(fc.bbs[br->getSuccessor(1)]); });
                        } else {
                          J.attributeArray("succ", [&] { J.value(fc.bbs[br->getSuccessor(0)]); });
                        }
                        return;
                      }
                      if (auto *sw = dyn_cast<SwitchInst>(&I)) {
                        J.attributeArray("a", [&] { emitOperand(J, sw->getCondition(), &fc); });
                        J.attribute("default", fc.bbs[sw->getDefaultDest()]);
                        J.attributeArray("cases", [&] {
                          for (auto &c : sw->cases()) {
                            J.array([&] { J.value(c.getCaseValue()->getSExtValue()); J.value(fc.bbs[c.getCaseSuccessor()]); });
                          }
                        });
                        return;
                      }
                      if (auto *ic = dyn_cast<CmpInst>(&I)) J.attribute("pred", CmpInst::getPredicateName(ic->getPredicate()));
                      if (auto *al = dyn_cast<AllocaInst>(&I)) {
                        J.attribute("at", typeStr(al->getAllocatedType()));
                        auto sz = al->getAllocationSizeInBits(DL);
                        if (sz) J.attribute("size", (int64_t)(sz->getFixedSize() / 8));
                      }
                      if (auto *gep = dyn_cast<GetElementPtrInst>(&I)) {
                        J.attribute("st", typeStr(gep->getSourceElementType()));
                        // typed walk: one step per index
                        J.attributeArray("path", [&] {
                          bool first = true;
                          for (gep_type_iterator gi = gep_type_begin(gep), ge = gep_type_end(gep); gi != ge; ++gi) {
                            Value *idx = gi.getOperand();
                            if (first) {
                              first = false;
                              J.array([&] { J.value("p"); emitOperand(J, idx, &fc);
                                J.value((int64_t)DL.getTypeAllocSize(gep->getSourceElementType()).getFixedSize()); });
                              continue;
                            }
                            if (StructType *sty = gi.getStructTypeOrNull()) {
                              J.array([&] {
                                J.value("f");
                                J.value(sty->hasName() ? canonStruct(sty->getName()) : std::string("literal"));
                                J.value((int64_t)cast<ConstantInt>(idx)->getZExtValue());
                              });
                            } else {
                              J.array([&] { J.value("a"); emitOperand(J, idx, &fc);
                                J.value((int64_t)DL.getTypeAllocSize(gi.getIndexedType()).getFixedSize()); });
                            }
                          }
                        });
                      }
                      J.attributeArray("a", [&] {
                        for (unsigned k = 0; k < I.getNumOperands(); k++) emitOperand(J, I.getOperand(k), &fc);
                      });
                    });
                  }
                });
              });
            }
          });
        });
      }
    });
  });
  out << "\n";
  return 0;
}
