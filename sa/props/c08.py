"""C08 — access control: structural clauses (DESIGN.md 3/C08)."""
from ..frontend import AnalysisBroken
from ..core import queries as Q
from ..core.program import fmt_term, fmt_atom
from ..core.taint import Taint

META = {
    "explanation": (
        "Static rules over the resolved program (LLVM IR of the current tree, two configurations): "
        "(1) R-INIT: the three group fields of struct peer are written on every success path of the peer constructor "
        "(or every allocation of an object embedding a peer is zeroing); "
        "(2) R-WHO/R-GATE: the only other stores to those fields are in the authenticate handler, reachable only through the "
        "edge credentials_ok(...) != NULL, each fed by get_groups(GetObjectItem(auth, <kind>Groups)) of the matching kind; "
        "(3) R-GATE: every disclosure site (add notification + registration into the subscriber table, get result builder) is "
        "reachable only through has_access(e->fetch_groups, f->peer->fetch_groups) on the same element/fetch; the routing site of "
        "set/call only through has_access on the kind-matching (element, caller) group pair; who may register subscribers; "
        "(4) R-TAINT: values derived from the 'password' member flow only to the credential functions, never to a log, "
        "response, JSON constructor or send; "
        "(5) origin classification: sockaddr_storage is reinterpreted as in/in6 only under the matching ss_family test; the "
        "local-only gate in the add handler is control-dependent on peer.is_local_connection in the configuration that enables it."),
    "not_decided": "the matrix users x groups x histories at run time; crypt(); the behaviour of has_access/get_groups arithmetic "
                   "beyond their call structure",
    "assumptions": ["group bit arithmetic inside has_access/get_groups is not interpreted"],
}

GROUP_FIELDS = ("fetch_groups", "set_groups", "call_groups")
KIND_KEY = {"fetch_groups": "fetchGroups", "set_groups": "setGroups", "call_groups": "callGroups"}


def _embeds_peer(P, tyname):
    sd = P.structs.get(tyname)
    if not sd:
        return False
    return any(fl["ty"] == "%struct.peer" for fl in sd["fields"])


def clause1_init(ctx, P):
    init = P.fn("peer.c:init_peer")
    views = Q.path_views(ctx, P, init)
    succ = [v for v in views if v.ret_const() == 0 or (v.ret_const() is None and not v.ret_is_null())]
    if not succ:
        raise AnalysisBroken("init_peer has no path returning 0")
    # allocation sites of peer-embedding objects
    allocs = []
    for f in P.own_functions():
        for i in f.calls(("cjet_malloc", "cjet_calloc", "malloc", "calloc")):
            tys = set()
            for u in f.users(i.id):
                if u.op == "bitcast":
                    tys.add(u.ty)
                if u.op == "ret":
                    tys.add(f.ret)
            for t in tys:
                if t and t.startswith("%struct.") and t.endswith("*") and _embeds_peer(P, t[1:-1]):
                    allocs.append((f, i, t))
    zeroing = bool(allocs) and all(P.srcname_of(i.callee) in ("cjet_calloc", "calloc") for (_, i, _) in allocs)
    for fld in GROUP_FIELDS:
        bad = None
        for v in succ:
            ok = False
            for _, i in v.insts():
                if i.op == "store":
                    t = P.term(init, i.a[1])
                    if t[0] == "field" and t[2] == "struct.peer" and t[3] == fld and t[1][0] == "param" and t[1][1] == 0:
                        ok = True
            if not ok:
                bad = v
                break
        ok = bad is None or zeroing
        nz = [("%s in %s" % (P.srcname_of(i.callee), f.key)) for (f, i, _) in allocs
              if P.srcname_of(i.callee) not in ("cjet_calloc", "calloc")]
        ctx.ob("C08.1 R-INIT", init, "field:" + fld, ok,
               "peer.%s is read by the access checks but not written on a success path of init_peer, and a peer-embedding "
               "object is allocated without zeroing (%s)" % (fld, ", ".join(nz)) if not ok else
               "peer.%s initialised for every new peer" % fld,
               witness=bad.witness() if bad is not None and not ok else None)
    ctx.floor("C08.1 R-INIT", 3)
    if len(allocs) < 2:
        raise AnalysisBroken("expected >= 2 allocation sites of peer-embedding objects, found %d" % len(allocs))


def clause2_who(ctx, P):
    auth = P.fn("authenticate.c:handle_authentication")
    init = P.fn("peer.c:init_peer")
    n = 0
    for fld in GROUP_FIELDS:
        for st in Q.field_stores(P, "struct.peer", fld):
            f = st.fn
            n += 1
            site = Q.ordinal_site(f, st, P)
            if f is init:
                c = P.const_int(st.a[0])
                ctx.ob("C08.2 R-WHO", f, site, c == 0,
                       "constructor stores a non-zero value into peer.%s" % fld if c != 0 else "constructor clears peer.%s" % fld)
                continue
            if f is not auth:
                ctx.ob("C08.2 R-WHO", f, site, False,
                       "peer.%s is assigned outside the constructor and the authenticate handler (at %s)" % (fld, st.loc))
                continue
            # gate: credentials_ok(...) != NULL
            def gate(atom, pol):
                if atom[0] != "cmp":
                    return False
                l, r = atom[2], atom[3]
                if Q.is_call_to(l, "credentials_ok") and r == ("null",):
                    return (atom[1] == "ne" and pol) or (atom[1] == "eq" and not pol)
                return False
            ok = Q.must_pass(P, auth, st.block, gate)
            w = None
            if not ok:
                pth = Q.witness_to(P, auth, st.block, drop=gate)
                w = Q.fmt_witness(P, auth, pth) if pth else None
            ctx.ob("C08.2 R-GATE", auth, site, ok,
                   "store to peer.%s reachable without credentials_ok(...) != NULL" % fld if not ok else
                   "peer.%s assigned only after credentials_ok succeeded" % fld, witness=w)
            # value provenance
            vt = P.term(auth, st.a[0])
            good = False
            if Q.is_call_to(vt, "get_groups"):
                a0 = vt[2][0]
                if Q.is_call_to(a0, "cJSON_GetObjectItem") and a0[2][1] == ("str", KIND_KEY[fld]) \
                        and Q.is_call_to(a0[2][0], "credentials_ok"):
                    good = True
            ctx.ob("C08.2 R-PAIR", auth, site, good,
                   "peer.%s is fed by %s, expected get_groups(cJSON_GetObjectItem(<credentials_ok result>, \"%s\"))"
                   % (fld, fmt_term(vt), KIND_KEY[fld]) if not good else "peer.%s <- auth[%s]" % (fld, KIND_KEY[fld]))
            # the peer written is the handler's own peer
            dt = P.term(auth, st.a[1])
            ctx.ob("C08.2 R-SELF", auth, site, dt[1][0] == "param" and dt[1][1] == 0,
                   "groups are assigned to a peer other than the authenticating one")
    # credentials_ok arguments: user and password of this request
    cs = auth.calls("credentials_ok")
    ctx.ob("C08.2 R-WHO", auth, "credentials_ok", len(cs) == 1,
           "authenticate handler must call credentials_ok exactly once (found %d)" % len(cs))
    for c in cs:
        t0 = P.term(auth, c.a[0])
        t1 = P.term(auth, c.a[1])

        def member(t, key):
            b = Q.is_field_load(t, "struct.cJSON", "valuestring")
            return b is not None and Q.is_call_to(b, "cJSON_GetObjectItem") and b[2][1] == ("str", key)
        ctx.ob("C08.2 R-PAIR", auth, "credentials_ok:args", member(t0, "user") and member(t1, "password"),
               "credentials_ok is not called with (params.user, params.password): %s, %s" % (fmt_term(t0), fmt_term(t1)))
    # a failed authentication changes nothing: no store to a field of the peer on any path that answers with an error
    bad = None
    nerr = 0
    for v in Q.path_views(ctx, P, auth):
        rt = Q.ret_value_term(v)
        if rt is None or not Q.is_call_to(rt, ("create_error_response_from_request", "create_error_response")):
            continue
        nerr += 1
        for _, i in v.insts():
            if i.op == "store":
                t = P.term(auth, i.a[1])
                if t[0] == "field" and t[2] == "struct.peer" and t[1][0] == "param":
                    bad = (v, t[3], i)
    ctx.ob("C08.2 R-COMMIT", auth, "error-changes-nothing", bad is None and nerr >= 5,
           "authenticate answers with an error on a path that has already written peer.%s (at %s): a failed authentication "
           "must change nothing" % (bad[1], bad[2].loc) if bad else "no peer field is written on any of the %d error paths" % nerr,
           witness=bad[0].witness() if bad else None)
    ctx.floor("C08.2 R-GATE", 3)
    ctx.floor("C08.2 R-PAIR", 4)


def _has_access_gate(elem_pred, peer_pred, kind):
    """edge predicate: has_access(load E->kind, load X->kind) is true, E/X satisfying the given term predicates"""
    def gate(atom, pol):
        t = atom[1] if atom[0] == "truth" else None
        if atom[0] == "cmp" and atom[3] == ("const", 0) and atom[1] in ("ne", "eq"):
            t = atom[2]
            pol = pol if atom[1] == "ne" else not pol
        if t is None or not Q.is_call_to(t, "has_access") or not pol:
            return False
        a, b = t[2][0], t[2][1]
        eb = Q.is_field_load(a, "struct.element", kind)
        pb = Q.is_field_load(b, "struct.peer", kind)
        return eb is not None and pb is not None and elem_pred(eb) and peer_pred(pb)
    return gate


def clause3_disclosure(ctx, P):
    # --- add notification + registration
    pair = P.fn("fetch.c:add_fetch_to_state_and_notify")
    getel = P.fn("fetch.c:get_element")
    n_sites = 0

    def fetch_peer_of(fterm):
        return lambda t: Q.is_field_load(t, "struct.fetch", "peer") == fterm

    for f in P.own_functions():
        for i in f.calls(("notify_fetching_peer", "add_fetch_to_state")):
            cal = P.srcname_of(i.callee)
            if f.srcname == "add_fetch_to_state" and cal == "add_fetch_to_state":
                continue  # tail self call after growing the table
            if cal == "notify_fetching_peer":
                ev = Q.arg_literal(P, i, 2)
                if ev != "add":
                    # change/remove travel through the subscriber table: covered by who-may-register below
                    if f.srcname != "notify_fetchers":
                        ctx.ob("C08.3 R-WHO", f, Q.ordinal_site(f, i, P), False,
                               "notification emitted outside the subscriber-table walk and the guarded add pairing (%s)" % i.loc)
                    continue
            n_sites += 1
            e_t = P.term(f, i.a[0])
            f_t = P.term(f, i.a[1])
            gate = _has_access_gate(lambda t: t == e_t, fetch_peer_of(f_t), "fetch_groups")
            ok = Q.must_pass(P, f, i.block, gate)
            w = None
            if not ok:
                pth = Q.witness_to(P, f, i.block, drop=gate)
                w = Q.fmt_witness(P, f, pth) if pth else None
            ctx.ob("C08.3 R-GATE", f, Q.ordinal_site(f, i, P), ok,
                   "%s(%s, %s) reachable without has_access(e->fetch_groups, f->peer->fetch_groups) on the same element/fetch"
                   % (cal, fmt_term(e_t), fmt_term(f_t)) if not ok else "disclosure guarded by fetch-group check", witness=w)
    # --- get: the element appended to the result array
    n_get = 0
    for i in getel.calls("cJSON_AddItemToArray"):
        n_get += 1
        e_t = ("param", 2, getel.params[2]["name"])
        f_t = ("param", 3, getel.params[3]["name"])
        gate = _has_access_gate(lambda t: t == e_t, fetch_peer_of(f_t), "fetch_groups")
        ok = Q.must_pass(P, getel, i.block, gate)
        ctx.ob("C08.3 R-GATE", getel, Q.ordinal_site(getel, i, P), ok,
               "get result entry reachable without the fetch-group check" if not ok else "get result guarded by fetch-group check")
    # values disclosed anywhere else? every cJSON_Duplicate of element.value must be in the guarded/known emitters
    allowed_dup = {"fetch.c:notify_fetching_peer", "fetch.c:get_element"}
    for f in P.own_functions():
        for i in f.calls("cJSON_Duplicate"):
            t = P.term(f, i.a[0])
            if Q.is_field_load(t, "struct.element", "value") is not None:
                ctx.ob("C08.3 R-WHO", f, Q.ordinal_site(f, i, P), f.key in allowed_dup,
                       "element value copied for output outside the guarded emitters (%s)" % i.loc)
    # --- the peer used by get_element's fetch is the requester: create_fetch(request_peer, ...)
    ge = P.fn("fetch.c:get_elements")
    for c in ge.calls("create_fetch"):
        t = P.term(ge, c.a[0])
        ctx.ob("C08.3 R-SELF", ge, "create_fetch:peer", t[0] == "param",
               "the transient fetch of get is not bound to the requesting peer")
    af = P.fn("fetch.c:alloc_fetch")
    sts = [s for s in Q.field_stores(P, "struct.fetch", "peer")]
    ctx.ob("C08.3 R-WHO", af, "store:fetch.peer", len(sts) == 1 and sts[0].fn is af and
           P.term(af, sts[0].a[0])[0] == "param",
           "fetch.peer must be assigned exactly once, from the creating peer")
    # --- routing gate in set_or_call
    soc = P.fn("element.c:set_or_call")
    STATE, METHOD = Q.enum(P, "STATE"), Q.enum(P, "METHOD")
    route_sites = [i for i in soc.calls(("setup_routing_information", "create_routed_message", "alloc_routing_request"))]
    for i in soc.all_insts():
        if i.op == "call" and not i.callee:
            t = P.term(soc, i.ind)
            if t[0] == "load" and t[1][0] == "field" and t[1][3] == "send_message":
                route_sites.append(i)
    if len(route_sites) < 3:
        raise AnalysisBroken("set_or_call: routing sites not found")
    what_idx = 2
    views = Q.path_views(ctx, P, soc)
    e_pred = lambda t: Q.is_call_to(t, "element_table_get")
    p_pred = lambda t: t[0] == "param" and t[1] == 0
    g_set = _has_access_gate(e_pred, p_pred, "set_groups")
    g_call = _has_access_gate(e_pred, p_pred, "call_groups")

    def what_is(atom, pol, k):
        return Q.const_relation(atom, pol, lambda t: t[0] == "param" and t[1] == what_idx, k) is True

    def what_not(atom, pol, k):
        return Q.const_relation(atom, pol, lambda t: t[0] == "param" and t[1] == what_idx, k) is False
    for site in route_sites:
        bad = None
        npaths = 0
        for v in views:
            if site.block not in v.blocks:
                continue
            npaths += 1
            upto = v.blocks.index(site.block)
            atoms = [(a, p) for (b, a, p) in v.path[:upto + 1] if a is not None]
            is_state = any(what_is(a, p, STATE) for a, p in atoms)
            is_method = any(what_is(a, p, METHOD) for a, p in atoms)
            not_state = any(what_not(a, p, STATE) for a, p in atoms)
            not_method = any(what_not(a, p, METHOD) for a, p in atoms)
            okp = (is_state and any(g_set(a, p) for a, p in atoms)) or \
                  (is_method and any(g_call(a, p) for a, p in atoms))
            if not okp and not_state and not_method:
                okp = True  # what is neither kind: excluded by the caller rule below
            if not okp:
                bad = v
                break
        ctx.ob("C08.3 R-GATE", soc, Q.ordinal_site(soc, site, P), bad is None and npaths > 0,
               "routing step reachable on a path whose conditions do not include the kind-matching has_access "
               "(set_groups for STATE, call_groups for METHOD) between the element and the caller" if bad is not None
               else "routing guarded by kind-matching access check on %d path(s)" % npaths,
               witness=bad.witness() if bad is not None else None)
    for c in P.callers_of(soc):
        k = P.const_int(c.a[what_idx])
        ctx.ob("C08.3 R-WHO", c.fn, Q.ordinal_site(c.fn, c, P), k in (STATE, METHOD),
               "set_or_call invoked with a kind that is neither STATE nor METHOD")
    # who may write the subscriber table
    for st in Q.field_stores(P, "struct.element", "fetcher_table"):
        ctx.ob("C08.3 R-WHO", st.fn, Q.ordinal_site(st.fn, st, P),
               st.fn.key in ("element.c:init_element", "fetch.c:add_fetch_to_state"),
               "element.fetcher_table replaced outside init_element/add_fetch_to_state (%s)" % st.loc)
    # stores of a fetch pointer into a table slot: only add_fetch_to_state (value = its parameter) / NULL in remove
    for f in P.own_functions():
        for i in f.all_insts():
            if i.op != "store":
                continue
            dt = P.term(f, i.a[1])
            if dt[0] == "index" and Q.is_field_load(dt[1], "struct.element", "fetcher_table") is not None:
                okw = f.key == "fetch.c:add_fetch_to_state" or P.is_null(i.a[0])
                ctx.ob("C08.3 R-WHO", f, Q.ordinal_site(f, i, P), okw,
                       "subscriber slot written outside add_fetch_to_state (%s)" % i.loc)
    ctx.floor("C08.3 R-GATE", 6, "2 pairing sites + 1 get site + >=3 routing sites")
    if n_sites < 2 or n_get < 1:
        raise AnalysisBroken("disclosure sites not found (add pairing %d, get %d)" % (n_sites, n_get))


def clause4_taint(ctx, P, cg):
    allowed = {"credentials_ok", "change_password", "crypt", "clear_password", "strlen", "strcmp", "memset",
               "llvm.memset.p0i8.i64", "explicit_bzero", "handle_authentication", "handle_change_password"}
    forbidden_prefix = ("log_", "jet_log", "create_", "cJSON_Create", "cJSON_Add", "cJSON_Print", "cJSON_Duplicate",
                        "printf", "fprintf", "snprintf", "vsnprintf", "sprintf", "syslog", "vsyslog", "fputs", "puts",
                        "write", "send", "duplicate_string", "strdup")
    T = Taint(P, cg)
    nsrc = 0
    for f in P.own_functions():
        for i in f.calls("cJSON_GetObjectItem"):
            if Q.arg_literal(P, i, 1) == "password" and f.base in ("authenticate.c",):
                T.add_source(f, i.id, "params.password in %s" % f.srcname)
                nsrc += 1
    if nsrc < 2:
        raise AnalysisBroken("password sources not found (%d)" % nsrc)
    T.sanitizers = {"crypt"}
    T.run()
    nsink = 0
    for (f, call, k, origin) in T.sink_hits():
        name = P.srcname_of(call.callee) if call.callee else "indirect call"
        own_target = call.callee in P.functions and P.own(P.functions[call.callee])
        if own_target and k < P.functions[call.callee].nparams and not name.startswith(("log_", "jet_log")):
            continue  # followed interprocedurally (variadic arguments and log functions are sinks themselves)
        nsink += 1
        bad = name.startswith(forbidden_prefix) or (not call.callee)
        unknown = (not bad) and name not in allowed and not name.startswith("llvm.")
        ctx.ob("C08.4 R-TAINT", f, Q.ordinal_site(f, call, P), not (bad or unknown),
               "password-derived value (%s) is passed to %s (argument %d) at %s" % (origin, name, k, call.loc)
               if (bad or unknown) else "password reaches only %s" % name)
    # stores of tainted values into memory that outlives the request (struct fields other than cJSON password replacement)
    for (f, st, origin) in T.store_hits():
        dt = P.term(f, st.a[1])
        if dt[0] == "field":
            nsink += 1
            ctx.ob("C08.4 R-TAINT", f, Q.ordinal_site(f, st, P), False,
                   "password-derived value stored into %s at %s" % (fmt_term(dt), st.loc))
    # the raw bytes of a request (which may be an authenticate / passwd request, well-formed or not) are never logged
    T2 = Taint(P, cg)
    pm = P.fn("parse.c:parse_message")
    T2.add_source(pm, 0, "raw request bytes (parse_message msg)")
    T2.out_props = {"cJSON_ParseWithLengthOpts": (0, 2), "cJSON_ParseWithOpts": (0, 1)}
    T2.run()
    nraw = 0
    for (f, call, k, origin) in T2.sink_hits():
        name = P.srcname_of(call.callee) if call.callee else "indirect call"
        if name.startswith(("log_", "jet_log", "printf", "fprintf", "syslog", "vsyslog", "fputs", "puts")):
            nraw += 1
            ctx.ob("C08.4 R-TAINT", f, Q.ordinal_site(f, call, P) + ":raw-bytes", False,
                   "%s are passed to %s (argument %d) at %s: a malformed authenticate / passwd request puts the password into the log"
                   % (origin, name, k, call.loc))
    ctx.ob("C08.4 R-TAINT", pm, "raw-request-bytes-not-logged", nraw == 0, "raw request bytes reach a log function")
    ctx.note("password taint: %d sources, %d tainted values, %d external sink call sites examined"
             % (nsrc, T.n_tainted(), nsink))
    ctx.floor("C08.4 R-TAINT", 2)


def clause5_origin(ctx, P):
    # sockaddr_storage reinterpretation must be dominated by the matching family test
    lio = [f for f in P.own_functions() if f.base == "linux_io.c"]
    AF = {"struct.sockaddr_in": None, "struct.sockaddr_in6": None}
    AF["struct.sockaddr_in"] = Q.macro(P, "linux_io.c", "AF_INET")
    AF["struct.sockaddr_in6"] = Q.macro(P, "linux_io.c", "AF_INET6")
    n = 0
    for f in lio:
        for i in f.all_insts():
            if i.op == "bitcast" and i.ty in ("%struct.sockaddr_in*", "%struct.sockaddr_in6*"):
                src = P.strip(f, i.a[0])
                srcty = None
                if isinstance(src, int):
                    srcty = f.params[src]["ty"] if src < f.nparams else f.insts[src].ty
                if srcty != "%struct.sockaddr_storage*":
                    continue
                n += 1
                want = AF[i.ty[1:-1]]
                base_t = P.term(f, src)

                def fam(atom, pol, want=want, base_t=base_t):
                    if atom[0] == "switch":
                        b = Q.is_field_load(atom[1], "struct.sockaddr_storage", "ss_family")
                        return b is not None and b == base_t and atom[2] == want
                    if atom[0] != "cmp":
                        return False
                    l, r = atom[2], atom[3]
                    b = Q.is_field_load(l, "struct.sockaddr_storage", "ss_family")
                    if b is None or b != base_t or r != ("const", want):
                        return False
                    return (atom[1] == "eq" and pol) or (atom[1] == "ne" and not pol)
                ok = Q.must_pass(P, f, i.block, fam)
                w = None
                if not ok:
                    pth = Q.witness_to(P, f, i.block, drop=fam)
                    w = Q.fmt_witness(P, f, pth) if pth else None
                ctx.ob("C08.5 R-GATE", f, "cast:" + i.ty[1:-1], ok,
                       "sockaddr_storage reinterpreted as %s without a dominating ss_family == %d test (any other family, "
                       "e.g. AF_UNIX, is compared as that address type)" % (i.ty[1:-1], want) if not ok else
                       "reinterpretation guarded by family test", witness=w)
    if n < 2:
        raise AnalysisBroken("sockaddr reinterpretation sites not found")
    # "local" is decided by comparing the WHOLE address: every memcmp against a socket address covers all its bytes
    il = P.fn("linux_io.c:is_localhost")
    SIZES = {"sin_addr": 4, "sin6_addr": 16}
    ncmp = 0
    for c in il.calls("memcmp"):
        ts = [P.term(il, c.a[0]), P.term(il, c.a[1])]
        fld = None
        whole = False
        for t in ts:
            for nm in SIZES:
                if Q.mentions(t, lambda x, nm=nm: x[0] == "field" and x[3] == nm):
                    fld = nm
                    # offset 0 into the address: no index / byte offset with a non-zero constant on the way
                    whole = not Q.mentions(t, lambda x: (x[0] == "index" and x[2] != ("const", 0)) or (x[0] == "byteoff" and x[2] != 0))
        if fld is None:
            continue
        ncmp += 1
        nbytes = P.const_int(c.a[2])
        ctx.ob("C08.5 R-PAIR", il, Q.ordinal_site(il, c, P) + ":whole-address-compared", whole and nbytes == SIZES[fld],
               "is_localhost() compares %s bytes of the %s-byte address%s: addresses that agree with a loopback address only in the "
               "compared part are classified local (e.g. fd00::ffff:7f00:1)" % (nbytes, SIZES[fld], "" if whole else " from an offset"))
    if ncmp < 3:
        raise AnalysisBroken("is_localhost: address comparisons found: %d" % ncmp)
    # local-only gate
    add = P.fn("element.c:add_element_to_peer")
    is_local_cfg = P.meta.get("config") == "localadd"
    sites = add.calls(("alloc_element", "init_element", "element_table_put"))

    def gate(atom, pol):
        t = atom[1] if atom[0] == "truth" else None
        if t is None:
            return False
        b = Q.is_field_load(t, "struct.peer", "is_local_connection")
        if b is None and t[0] == "op" and t[1] == "and":
            b = Q.is_field_load(t[2][0], "struct.peer", "is_local_connection")
        return b is not None and b[0] == "param" and b[1] == 0 and pol
    if is_local_cfg:
        for i in sites:
            ok = Q.must_pass(P, add, i.block, gate)
            ctx.ob("C08.5 R-GATE", add, "localonly:" + Q.ordinal_site(add, i, P), ok,
                   "with local-only add configured, %s is reachable without p->is_local_connection being true"
                   % P.srcname_of(i.callee) if not ok else "add gated by is_local_connection")
        # is_local_connection is assigned only from the accept path's classification
        for st in Q.field_stores(P, "struct.peer", "is_local_connection"):
            ctx.ob("C08.5 R-WHO", st.fn, Q.ordinal_site(st.fn, st, P), st.fn.key == "peer.c:init_peer",
                   "peer.is_local_connection written outside init_peer")
    else:
        ctx.note("local-only add gate is configured away in '%s' (checked in 'localadd')" % P.meta.get("config"))
    # classification value flows unchanged from is_localhost() into the handler
    ac = P.fn("linux_io.c:accept_common")
    for i in ac.all_insts():
        if i.op == "call" and not i.callee:
            t = P.term(ac, i.a[2]) if len(i.a) > 2 else None
            ok = t is not None and Q.mentions(t, lambda x: Q.is_call_to(x, "is_localhost"))
            ctx.ob("C08.5 R-PAIR", ac, "peer_function:is_local", ok,
                   "the connection handler's is_local argument is not the result of is_localhost(&addr)")


def clause7_auth_gates(ctx, P):
    """(a) rights are (re)assigned only while the peer has no fetch attached: notifications are filtered when a fetch is
    attached, not when they are sent, so changing a peer's groups under a live fetch leaves it subscribed to what it may no
    longer see; (b) a peer is in a group iff the names are EQUAL"""
    ha = P.fn("authenticate.c:handle_authentication")
    sts = [i for i in ha.all_insts() if i.op == "store" and P.term(ha, i.a[1])[0] == "field" and P.term(ha, i.a[1])[2] == "struct.peer"
           and P.term(ha, i.a[1])[3] in ("fetch_groups", "set_groups", "call_groups", "user_name")]
    if len(sts) < 3:
        raise AnalysisBroken("handle_authentication: stores to the peer's rights not found")

    def no_fetch(atom, pol):
        t = atom[1] if atom[0] == "truth" else (atom[2] if atom[0] == "cmp" and atom[3] == ("const", 0) else None)
        if t is None or not Q.is_call_to(t, "list_empty"):
            return False
        if not Q.mentions(t[2][0], lambda x: x[0] == "field" and x[2] == "struct.peer" and x[3] == "fetch_list"):
            return False
        return pol if atom[0] == "truth" else not Q._poleq(atom, pol)
    for i in sts:
        ctx.ob("C08.2 R-GATE", ha, Q.ordinal_site(ha, i, P) + ":only-without-live-fetch", Q.must_pass(P, ha, i.block, no_fetch),
               "peer.%s is written on a path that did not establish list_empty(&p->fetch_list): a peer that re-authenticates under a "
               "live fetch keeps receiving events of elements its new groups may not see" % P.term(ha, i.a[1])[3])
    # a successful authenticate REPLACES the rights: every path that answers success has written all three masks
    badv = None
    nsucc = 0
    for v in Q.path_views(ctx, P, ha):
        if not any(True for _ in v.calls("create_success_response_from_request")):
            continue
        nsucc += 1
        written = {P.term(ha, i.a[1])[3] for _, i in v.insts() if i.op == "store" and P.term(ha, i.a[1])[0] == "field"
                   and P.term(ha, i.a[1])[2] == "struct.peer"}
        if not {"fetch_groups", "set_groups", "call_groups"} <= written:
            badv = (v, sorted({"fetch_groups", "set_groups", "call_groups"} - written))
    ctx.ob("C08.2 R-COMMIT", ha, "success-replaces-all-rights", badv is None and nsucc > 0,
           "authenticate answers success on a path that leaves peer.%s as it was: a connection that re-authenticates as a user without "
           "that right keeps the right of the previous user" % (", ".join(badv[1]) if badv else ""),
           witness=badv[0].witness() if badv else None)
    gg = P.fn("groups.c:get_groups")
    nset = 0
    for i in gg.all_insts():
        if i.op == "or" and any(isinstance(a, int) and a >= gg.nparams and gg.insts[a].op in ("shl", "zext", "sext") for a in i.a):
            nset += 1

            def equal_names(atom, pol):
                return atom[0] == "cmp" and Q.is_call_to(atom[2], "strcmp") and atom[3] == ("const", 0) and Q._poleq(atom, pol) and \
                    all(Q.is_field_load(x, "struct.cJSON", "valuestring") is not None for x in atom[2][2])
            ctx.ob("C08.6 R-PAIR", gg, Q.ordinal_site(gg, i, P) + ":group-names-equal", Q.must_pass(P, gg, i.block, equal_names),
                   "a group bit is set without strcmp(group name, peer's group name) == 0: a prefix or partial comparison puts peers into "
                   "groups they were not given")
    if nset < 1:
        raise AnalysisBroken("get_groups: group bit accumulation not found")


def clause6_group_bits(ctx, P):
    """every registered group has a bit of its own in a group mask: the bit is built at the width of the mask and the number of
    groups that can be registered does not exceed that width"""
    gg = P.fn("groups.c:get_groups")
    width = int(gg.ret[1:]) if gg.ret and gg.ret.startswith("i") and gg.ret[1:].isdigit() else None
    if width is None:
        raise AnalysisBroken("get_groups: return type %s" % gg.ret)
    widened = []
    nshl = 0
    for i in gg.all_insts():
        if i.op == "shl" and P.const_int(i.a[0]) == 1:
            nshl += 1
            if i.ty != "i%d" % width:
                widened.append(i)
    ctx.ob("C08.6 R-PAIR", gg, "group-bit-built-at-mask-width", nshl > 0 and not widened,
           "the bit of a group is built as a %s shift and then converted to the %d bit mask: group numbers beyond the narrower width "
           "alias lower ones (or are lost), so a peer is shown elements of groups it is not in" %
           (", ".join(sorted({w.ty for w in widened})) or "?", width))
    # registration limit <= width
    lim = None
    for f in P.own_functions():
        if f.base != "groups.c":
            continue
        for i in f.all_insts():
            if i.op == "icmp" and i.pred in ("sge", "uge", "sgt", "ugt"):
                t = P.term(f, i.a[0])
                c = P.const_int(i.a[1])
                if c is not None and Q.mentions(t, lambda x: Q.is_call_to(x, "cJSON_GetArraySize")):
                    lim = c + (1 if i.pred in ("sgt", "ugt") else 0)
    ctx.ob("C08.6 R-BOUND", gg, "registered-groups-fit-the-mask", lim is not None and lim <= width,
           "up to %s groups can be registered, a group mask has %d bits" % (lim, width))


def clause8_switched_on(ctx, P):
    """has_access() lets everything pass while the group registry does not exist ('no credential file'): so a loaded credential
    file implies an existing registry - every successful path of load_passwd_data() for a given file name has called
    create_groups() and seen it succeed, whatever the file contains (a file in which no user names a group still restricts)"""
    f = P.fn("auth_file.c:load_passwd_data")
    ha = P.fn("groups.c:has_access")
    open_door = any(v.ret_const() not in (0, None) and v.has_atom(lambda a, p: a[0] == "cmp" and a[3] == ("null",) and a[2][0] == "load" and
                                                                   a[2][1][0] == "global" and Q._poleq(a, p)) for v in Q.path_views(ctx, P, ha))
    bad = None
    n = 0
    for v in Q.path_views(ctx, P, f):
        if v.ret_const() != 0:
            continue
        if v.has_atom(lambda a, p: a[0] == "cmp" and a[2] == ("param", 0, f.params[0]["name"]) and a[3] == ("null",) and Q._poleq(a, p)):
            continue    # no file given
        n += 1
        created = any(v.has_atom(lambda a, p, c=c: a[0] == "cmp" and a[2][0] == "call" and a[2][3] == c.id and a[3] == ("const", 0) and
                                 (a[1] if p else Q.negate_pred(a[1])) in ("sge", "eq")) for _, c in v.calls("create_groups"))
        if not created:
            bad = v
    ctx.ob("C08.1 R-ORDER", f, "loaded-file-implies-group-registry", (bad is None and n > 0) or not open_door,
           "load_passwd_data() can succeed without a successful create_groups(): has_access() answers 'yes' to everybody while the "
           "registry does not exist, so with a credential file in which no user names a group nothing is protected",
           witness=bad.witness() if bad else None)


def clause9_unconditional_yes(ctx, P):
    """has_access() answers 'yes' without looking at the two masks in exactly one situation: no credential file was loaded (the group
    registry does not exist).  Every other path that returns the constant true - an existing but empty registry, say, which is what a
    credential file whose users carry no groups produces - opens every element to unauthenticated peers"""
    ha = P.fn("groups.c:has_access")
    bad = None
    n = 0
    for v in Q.path_views(ctx, P, ha):
        if v.ret_const() != 1:
            continue
        n += 1
        no_registry = v.has_atom(lambda a, p: a[0] == "cmp" and a[3] == ("null",) and a[2][0] == "load" and a[2][1][0] == "global" and Q._poleq(a, p))
        if not no_registry:
            bad = v
    ctx.ob("C08.1 R-GATE", ha, "yes-without-looking-only-without-a-registry", bad is None and n >= 1,
           "has_access() returns true without comparing the masks on a path that has not found the group registry absent: with a "
           "credential file loaded, peers that share no group with an element get it anyway", witness=bad.witness() if bad else None)


def run(ctx):
    for cfg in ctx.configs():
        P, cg = cfg.P, cfg.cg
        clause6_group_bits(ctx, P)
        clause7_auth_gates(ctx, P)
        clause1_init(ctx, P)
        clause2_who(ctx, P)
        clause3_disclosure(ctx, P)
        clause4_taint(ctx, P, cg)
        clause5_origin(ctx, P)
        clause8_switched_on(ctx, P)
        clause9_unconditional_yes(ctx, P)
