"""C10 — outbound streams: five structural clauses."""
from ..frontend import AnalysisBroken
from ..core import queries as Q
from ..core import affine as A
from ..core.program import fmt_term, fmt_atom

META = {
    "technique": 'static analysis: repository-specific cursor (affine), guard-dominance and path rules over LLVM IR (CFG, SSA, resolved call graph), plus table extraction of the six byte-order helpers by finite evaluation of their IR',
    "explanation": (
        "(1) never blocks / never spins: every buffered_socket_init in the accept handlers is dominated by the success class of "
        "prepare_peer_socket, whose success paths all pass set_fd_non_blocking(fd) >= 0 for the same descriptor, and "
        "set_fd_non_blocking sets O_NONBLOCK with F_SETFL; every loop around a socket write leaves the loop on a -1 result in both "
        "the would-block and the error class; "
        "(2) all-or-nothing queueing (R-COMMIT): in buffered_socket_writev the queueing of a frame's unsent rest is dominated by a "
        "capacity test over the WHOLE rest ((pending + frame) - written against the write buffer size), so that no part of a frame "
        "(e.g. its length prefix) can be queued while the remainder is refused; otherwise a path of the queueing helper that "
        "returns -1 after having queued an earlier vector element is a torn frame; "
        "(3) order: the gathered write offers the pending buffer first (write_buffer, to_write), then the caller's vectors in "
        "index order; the retry loop compacts from the advanced pointer; "
        "(4) frame header of the raw transport: big-endian 32-bit length of the same len that is the payload vector's length, "
        "after the len <= UINT32_MAX gate; (WebSocket length encoding: C12.3); "
        "(5) R-CURSOR (write side), affine equalities: send_buffer advances its pointer and reduces to_write by the same returned "
        "count and compacts with the current values on would-block; buffered_socket_writev consumes the pending part first "
        "(written <= to_write => to_write -= written and compaction by written; otherwise the excess is the offset into the "
        "vectors and to_write becomes 0); copy_single_buffer copies n bytes to write_buffer + to_write and adds n under the guard "
        "n <= SIZE - to_write; copy_iovec_to_write_buffer skips exactly iovec_written bytes across elements."),
    "not_decided": "byte-exact equality of the stream with the concatenation of frames under all kernel behaviours",
    "assumptions": ["writev(2) transmits a prefix of the gathered vectors and returns its length, or -1"],
}

BS = "struct.buffered_socket"


def _fld(t, name):
    return t[0] == "field" and t[2] == BS and t[3] == name


def clause1_nonblocking(ctx, P, cg):
    pps = P.fn("linux_io.c:prepare_peer_socket")
    snb = P.fn("linux_io.c:set_fd_non_blocking")
    NB = Q.macro(P, "linux_io.c", "O_NONBLOCK")
    SETFL = Q.macro(P, "linux_io.c", "F_SETFL")
    okset = False
    for c in snb.calls("fcntl"):
        if P.const_int(c.a[1]) == SETFL:
            vt = P.term(snb, c.a[2])
            okset = Q.mentions(vt, lambda x: x[0] == "op" and x[1] == "or" and ("const", NB) in x[2]) and P.term(snb, c.a[0])[0] == "param"
    ctx.ob("C10.1 R-PAIR", snb, "sets-O_NONBLOCK", okset, "set_fd_non_blocking does not F_SETFL flags | O_NONBLOCK on its descriptor")
    bad = None
    n = 0
    for v in Q.path_views(ctx, P, snb):
        if v.ret_const() == 0:
            n += 1
            if not v.has_atom(lambda a, p: a[0] == "cmp" and Q.is_call_to(a[2], "fcntl") and a[3] == ("const", 0) and (a[1] if p else Q.negate_pred(a[1])) == "sge"
                              and a[2][2][1] == ("const", SETFL)):
                bad = v
    ctx.ob("C10.1 R-GATE", snb, "success-means-set", bad is None and n > 0, "set_fd_non_blocking reports success without F_SETFL having succeeded")
    bad = None
    n = 0
    for v in Q.path_views(ctx, P, pps):
        if v.ret_const() == 0:
            n += 1
            if not v.has_atom(lambda a, p: a[0] == "cmp" and Q.is_call_to(a[2], "set_fd_non_blocking") and a[2][2][0][0] == "param"
                              and a[3] == ("const", 0) and (a[1] if p else Q.negate_pred(a[1])) == "sge"):
                bad = v
    ctx.ob("C10.1 R-GATE", pps, "success-means-nonblocking", bad is None and n > 0,
           "prepare_peer_socket can succeed without the descriptor having been made non-blocking", witness=bad.witness() if bad else None)
    ninit = 0
    for c in Q.call_sites(P, "buffered_socket_init"):
        f = c.fn
        if f.base != "linux_io.c":
            continue
        ninit += 1
        fd_t = P.term(f, c.a[1])

        def prepared(atom, pol):
            if atom[0] != "cmp" or not Q.is_call_to(atom[2], "prepare_peer_socket") or atom[3] != ("const", 0):
                return False
            same = A.equal(P, atom[2][2][0], fd_t) or Q.mentions(fd_t, lambda x: x == atom[2][2][0])
            return same and (atom[1] if pol else Q.negate_pred(atom[1])) == "sge"
        ctx.ob("C10.1 R-ORDER", f, Q.ordinal_site(f, c, P), Q.must_pass(P, f, c.block, prepared),
               "a buffered socket is created for a descriptor that was not prepared (non-blocking) successfully")
    if ninit < 2:
        raise AnalysisBroken("buffered_socket_init sites in linux_io.c: %d" % ninit)
    # socket options: only options that cannot make an operation on the loop thread wait
    allowed = {}
    for nm in ("SO_REUSEADDR", "SO_KEEPALIVE", "TCP_NODELAY", "TCP_KEEPIDLE", "TCP_KEEPINTVL", "TCP_KEEPCNT", "IPV6_V6ONLY"):
        try:
            allowed[nm] = Q.macro(P, "linux_io.c", nm)
        except AnalysisBroken:
            pass
    levels = {nm: Q.const(P, "linux_io.c", nm) for nm in ("SOL_SOCKET", "IPPROTO_TCP", "IPPROTO_IPV6")}
    ok_pairs = {(levels["SOL_SOCKET"], allowed.get("SO_REUSEADDR")), (levels["SOL_SOCKET"], allowed.get("SO_KEEPALIVE")),
                (levels["IPPROTO_TCP"], allowed.get("TCP_NODELAY")), (levels["IPPROTO_TCP"], allowed.get("TCP_KEEPIDLE")),
                (levels["IPPROTO_TCP"], allowed.get("TCP_KEEPINTVL")), (levels["IPPROTO_TCP"], allowed.get("TCP_KEEPCNT")),
                (levels["IPPROTO_IPV6"], allowed.get("IPV6_V6ONLY"))}
    nso = 0
    for c in Q.call_sites(P, "setsockopt"):
        nso += 1
        pair = (P.const_int(c.a[1]), P.const_int(c.a[2]))
        ctx.ob("C10.1 R-WHO", c.fn, Q.ordinal_site(c.fn, c, P), pair in ok_pairs,
               "setsockopt(level %s, option %s) is not in the table of options that cannot make close()/send()/recv() wait on the "
               "event-loop thread (e.g. SO_LINGER lets close() block until a non-reading peer acknowledges)" % pair, nontrivial=False)
    if nso < 5:
        raise AnalysisBroken("setsockopt sites: %d" % nso)
    # loops around the write wrapper
    nloops = 0
    for f in P.own_functions():
        for h, body in f.loops().items():
            ws = [i for b in body for i in f.blocks[b] if i.op == "call" and i.callee and P.srcname_of(i.callee) in ("socket_writev_with_prefix", "writev", "write", "send")]
            if not ws or f.base == "auth_file.c":
                continue
            nloops += 1
            w = ws[0]
            bad = None
            for v in Q.path_views(ctx, P, f):
                # walk the path: once an edge 'write == -1' has been taken, the write must not be executed again
                failed = False
                for (b, a, p) in v.path:
                    if a is not None and a[0] == "cmp" and a[2][0] == "call" and a[2][3] == w.id and a[3] == ("const", -1) and Q._poleq(a, p):
                        failed = True
                    if failed and b == w.block and (a is None or not (a[0] == "cmp" and a[2][0] == "call" and a[2][3] == w.id)):
                        bad = v
            ctx.ob("C10.1 R-LOOP", f, "write-loop-exits-on-failure", bad is None,
                   "%s retries the socket write after it returned -1 (spins on a slow reader)" % f.srcname, witness=bad.witness() if bad else None)
    if nloops < 1:
        raise AnalysisBroken("no loop around a socket write found")


def clause2_atomic(ctx, P, cg):
    wv = P.fn("buffered_socket.c:buffered_socket_writev")
    CAP = Q.enum(P, "CONFIG_MAX_WRITE_BUFFER_SIZE")
    ci = wv.calls("copy_iovec_to_write_buffer")
    sw = wv.calls("socket_writev_with_prefix")
    if len(ci) < 1 or len(sw) != 1:
        raise AnalysisBroken("buffered_socket_writev: expected one gathered write and at least one queueing call")
    cis, sw = ci, sw[0]
    ci = cis[0]
    # X: the value compared with the write result in the 'everything was sent' test
    total = None
    for v in Q.path_views(ctx, P, wv):
        for (a, p) in v.atoms:
            if a[0] == "cmp" and a[1] in ("eq", "ne") and a[2][0] == "call" and a[2][3] == sw.id and a[3][0] not in ("const", "null"):
                total = a[3]
    guard_ok = False
    if total is not None:
        def whole_rest_fits(atom, pol):
            if atom[0] != "cmp" or atom[3] != ("const", CAP):
                return False
            eff = atom[1] if pol else Q.negate_pred(atom[1])
            if eff != "ule":
                return False
            d = A.diff(P, atom[2], total)
            if d is None or d[1] != 0 or len(d[0]) != 1:
                return False
            (k, c), = d[0].items()
            # (total - written): written is the phi over {0, sent}
            if c != -1 or k[0] != "phi":
                return False
            ph = wv.insts[k[1]]
            vals = [P.term(wv, x) for x, _ in ph.inc]
            return ("const", 0) in vals and any(t[0] == "call" and t[3] == sw.id for t in vals)
        guard_ok = all(Q.must_pass(P, wv, c.block, whole_rest_fits) for c in cis)   # EVERY queueing site is behind the check
    # the helper's own tear path
    cv = P.fn("buffered_socket.c:copy_iovec_to_write_buffer")
    tear = None
    for v in Q.path_views(ctx, P, cv, loop_iters=2):
        rc = v.ret_const()
        if rc is not None and rc < 0:
            okc = 0
            for (a, p) in v.atoms:
                if a[0] == "cmp" and Q.is_call_to(a[2], "copy_single_buffer") and a[3] == ("const", 0):
                    eff = a[1] if p else Q.negate_pred(a[1])
                    if eff == "sge":
                        okc += 1
            if not P.by_src.get("copy_single_buffer"):
                # the helper folded into the loop by hand: a copy that succeeded is a store to to_write on the path
                okc = sum(1 for _, i in v.insts() if i.op == "store" and _fld(P.term(cv, i.a[1]), "to_write"))
            if okc > 0:
                tear = v
    ok = guard_ok or tear is None
    ctx.ob("C10.2 R-COMMIT", wv, "all-or-nothing-queueing", ok,
           "the unsent rest of a frame is queued element by element: an earlier vector element (the length prefix) can already be in "
           "the write buffer when a later one is refused with -1, and the callers keep the connection - the peer then sees a header "
           "followed by other frames" if not ok else
           ("queueing is dominated by (pending + frame) - written <= %d" % CAP if guard_ok else "the queueing helper cannot fail after a partial copy"),
           witness=tear.witness() if (tear is not None and not ok) else None)
    # a -1 from the queueing step is passed on (never 'success')
    bad = None
    for v in Q.path_views(ctx, P, wv):
        if v.has_atom(lambda a, p: a[0] == "cmp" and a[2][0] == "call" and a[2][3] in [c.id for c in cis] and a[3] == ("const", 0) and (a[1] if p else Q.negate_pred(a[1])) == "slt"):
            if v.ret_const() is None or v.ret_const() >= 0:
                bad = v
    ctx.ob("C10.2 R-COMMIT", wv, "refusal-reported", bad is None, "a refused frame is reported as sent")
    ctx.floor("C10.2 R-COMMIT", 2)


def clause3_order(ctx, P):
    wv = P.fn("buffered_socket.c:buffered_socket_writev")
    bs_t = None
    for c in wv.calls("socket_writev_with_prefix"):
        buf, ln, vec, cnt = (P.term(wv, x) for x in c.a[1:5])
        ok = Q.mentions(buf, lambda x: _fld(x, "write_buffer")) and ln[0] == "load" and _fld(ln[1], "to_write") and vec == ("param", 1, wv.params[1]["name"]) \
            and cnt == ("param", 2, wv.params[2]["name"])
        ctx.ob("C10.3 R-PAIR", wv, "pending-first", ok, "the gathered write does not offer (write_buffer, to_write) before the caller's vectors")
    sp = P.fn("socket.c:socket_writev_with_prefix")
    ok0 = okw = False
    okn = {"iov_base": False, "iov_len": False}
    seen_fields = {"iov_base": 0, "iov_len": 0}
    for i in sp.all_insts():
        if i.op == "store":
            dt = P.term(sp, i.a[1])
            vt = P.term(sp, i.a[0])
            for fld in ("iov_base", "iov_len"):
                if Q.mentions(dt, lambda x: x[0] == "field" and x[2] in ("struct.iovec", "struct.socket_io_vector") and x[3] == fld):
                    if fld == "iov_base" and vt == ("param", 1, sp.params[1]["name"]):
                        ok0 = dt[1][0] == "alloca" or Q.mentions(dt, lambda x: x[0] == "index" and x[2] == ("const", 0))
                    if Q.mentions(vt, lambda x: x[0] == "field" and x[2] == "struct.socket_io_vector"):
                        seen_fields[fld] += 1
                        # same field, destination index = source index + 1
                        same_field = Q.mentions(vt, lambda x: x[0] == "field" and x[3] == fld)
                        di = [x for x in Q.subterms(dt) if x[0] == "index"]
                        si = [x for x in Q.subterms(vt) if x[0] == "index"]
                        if di and si and same_field:
                            d = A.diff(P, di[0][2], si[0][2])
                            okn[fld] = d == ({}, 1) and si[0][2][0] == "phi"
    okn = okn["iov_base"] and okn["iov_len"] and seen_fields == {"iov_base": 1, "iov_len": 1}
    for c in sp.calls("writev"):
        n = P.term(sp, c.a[2])
        okw = A.diff(P, n, ("param", 4, sp.params[4]["name"])) in (({}, 1),) or Q.mentions(n, lambda x: x[0] == "param" and x[1] == 4)
    ctx.ob("C10.3 R-PAIR", sp, "vector-order", ok0 and okn and okw, "gathered write: prefix at index 0=%s, vector i at index i+1=%s, count+1 vectors=%s" % (ok0, okn, okw))
    sb = P.fn("buffered_socket.c:send_buffer")
    okm = False
    for c in sb.calls(("memmove", "llvm.memmove.p0i8.p0i8.i64")):
        d, s, n = (P.term(sb, x) for x in c.a[0:3])
        okm = Q.mentions(d, lambda x: _fld(x, "write_buffer")) and s[0] == "phi" and n[0] == "load" and _fld(n[1], "to_write")
    ctx.ob("C10.3 R-CURSOR", sb, "compaction-from-advanced-pointer", okm, "send_buffer does not compact from the advanced pointer with the current to_write")


def clause4_header(ctx, P):
    sm = P.fn("socket_peer.c:send_message")
    UMAX = 0xFFFFFFFF
    gate = False
    for v in Q.path_views(ctx, P, sm):
        if any(True for _, i in v.insts() if i.op == "call" and not i.callee):
            gate = v.has_atom(lambda a, p: a[0] == "cmp" and a[2][0] == "param" and a[2][1] == 2 and a[3][0] == "const" and a[3][1] in (UMAX, -1) and
                              (a[1] if p else Q.negate_pred(a[1])) == "ule")
    ctx.ob("C10.4 R-GATE", sm, "len-fits-prefix", gate, "a frame longer than UINT32_MAX is not refused before its length is truncated into the prefix")
    pre = False
    lens = {}
    bases = {}
    for i in sm.all_insts():
        if i.op == "store":
            dt = P.term(sm, i.a[1])
            vt = P.term(sm, i.a[0])
            if Q.mentions(vt, lambda x: x[0] == "call" and x[1] in ("jet_htobe32", "htobe32", "llvm.bswap.i32", "__bswap_32")) and \
                    Q.mentions(vt, lambda x: x[0] == "param" and x[1] == 2):
                pre = True
            for x in Q.subterms(dt):
                if x[0] == "field" and x[2] == "struct.socket_io_vector":
                    idx = [y for y in Q.subterms(dt) if y[0] == "index"]
                    k = idx[0][2][1] if idx and idx[0][2][0] == "const" else 0
                    (lens if x[3] == "iov_len" else bases)[k] = vt
    ok = pre and lens.get(0) == ("const", 4) and lens.get(1) == ("param", 2, sm.params[2]["name"]) and bases.get(1) == ("param", 1, sm.params[1]["name"]) \
        and bases.get(0, ("x",))[0] == "alloca"
    ctx.ob("C10.4 R-PAIR", sm, "prefix-is-be32-of-len", ok, "raw frame is not [be32(len), payload of len bytes]: prefix=%s lens=%s" % (pre, {k: fmt_term(v) for k, v in lens.items()}))
    for i in sm.all_insts():
        if i.op == "call" and not i.callee:
            cnt = P.const_int(i.a[2])
            ctx.ob("C10.4 R-PAIR", sm, "two-vectors", cnt == 2, "raw frame is sent as %s vectors" % cnt)


def clause5_cursor(ctx, P):
    SIZE = Q.enum(P, "CONFIG_MAX_WRITE_BUFFER_SIZE")
    sb = P.fn("buffered_socket.c:send_buffer")
    w = sb.calls("socket_writev_with_prefix")
    if len(w) != 1:
        raise AnalysisBroken("send_buffer: write call")
    w = w[0]
    wt = P.term(sb, w.id)
    okp = okt = False
    for i in sb.all_insts():
        if i.op == "phi" and i.ty == "i8*":
            for (v, pb) in i.inc:
                t = P.term(sb, v)
                d = A.diff(P, t, ("phi", i.id))
                if d is not None and d[1] == 0 and len(d[0]) == 1 and list(d[0])[0][0:2] == ("call", "socket_writev_with_prefix") and list(d[0].values())[0] == 1:
                    okp = True
        if i.op == "store" and _fld(P.term(sb, i.a[1]), "to_write"):
            t = P.term(sb, i.a[0])
            d = A.norm(P, t)
            if d is not None and d[1] == 0 and len(d[0]) == 2 and any(k[0:2] == ("call", "socket_writev_with_prefix") and c == -1 for k, c in d[0].items()) \
                    and any(k[0] == "load" and _fld(k[1], "to_write") and c == 1 for k, c in d[0].items()):
                okt = True
    ctx.ob("C10.5 R-CURSOR", sb, "pointer-and-count-move-together", okp and okt,
           "send_buffer: pointer advanced by the returned count=%s, to_write reduced by the returned count=%s" % (okp, okt))
    for c in [w]:
        buf, ln = P.term(sb, c.a[1]), P.term(sb, c.a[2])
        ctx.ob("C10.5 R-CURSOR", sb, "retry-writes-the-rest", buf[0] == "phi" and ln[0] == "load" and _fld(ln[1], "to_write"),
               "send_buffer does not write (advanced pointer, remaining count)")
    # buffered_socket_writev: pending consumed first
    wv = P.fn("buffered_socket.c:buffered_socket_writev")
    bs = None
    tw = None
    bad = None
    n_le = n_gt = 0
    for v in Q.path_views(ctx, P, wv):
        le = None
        for (a, p) in v.atoms:
            if a[0] == "cmp" and a[2][0] == "phi" and a[3][0] == "load" and _fld(a[3][1], "to_write"):
                eff = a[1] if p else Q.negate_pred(a[1])
                if eff == "ule":
                    le = True
                elif eff == "ugt":
                    le = False
                wphi = a[2]
                twt = a[3]
        if le is None:
            continue
        sts = [i for _, i in v.insts() if i.op == "store" and _fld(P.term(wv, i.a[1]), "to_write")]
        if le:
            n_le += 1
            ok = bool(sts) and A.diff(P, P.term(wv, sts[0].a[0]), twt) == ({wphi: -1}, 0)
            mm = [i for _, i in v.calls(("memmove", "llvm.memmove.p0i8.p0i8.i64"))]
            okm = len(mm) == 1 and Q.mentions(P.term(wv, mm[0].a[0]), lambda x: _fld(x, "write_buffer"))
            if okm:
                src = P.term(wv, mm[0].a[1])
                dd = A.diff(P, src, P.term(wv, mm[0].a[0]))
                okm = dd == ({wphi: 1}, 0)
            off = [i for _, i in v.calls("copy_iovec_to_write_buffer")]
            oko = all(P.term(wv, v.resolve(o.a[3])) == ("const", 0) for o in off)
            if not (ok and okm and oko):
                bad = (v, "written <= pending: to_write -= written=%s, compaction by written=%s, vector offset 0=%s" % (ok, okm, oko))
        else:
            n_gt += 1
            ok = bool(sts) and P.const_int(sts[0].a[0]) == 0
            off = [i for _, i in v.calls("copy_iovec_to_write_buffer")]
            oko = True
            for o in off:
                d = A.diff(P, P.term(wv, v.resolve(o.a[3])), wphi)
                oko = oko and d is not None and d == ({twt: -1}, 0)
            if not (ok and oko):
                bad = (v, "written > pending: to_write = 0=%s, vector offset = written - pending=%s" % (ok, oko))
    # what the kernel accepted is accounted for on EVERY continuation, including refusals: a path on which the gathered write
    # sent something (not everything) and which returns without updating to_write leaves sent bytes queued (sent twice)
    sw = wv.calls("socket_writev_with_prefix")[0]
    unacc = None
    for v in Q.path_views(ctx, P, wv):
        partial = v.has_atom(lambda a, p: a[0] == "cmp" and a[2][0] == "call" and a[2][3] == sw.id and a[3] == ("const", 0) and (a[1] if p else Q.negate_pred(a[1])) == "sgt")
        allsent = v.has_atom(lambda a, p: a[0] == "cmp" and a[1] in ("eq", "ne") and a[2][0] == "call" and a[2][3] == sw.id and a[3][0] not in ("const", "null") and Q._poleq(a, p))
        if partial and not allsent:
            sts = [i for _, i in v.insts() if i.op == "store" and _fld(P.term(wv, i.a[1]), "to_write")]
            if not sts:
                unacc = v
    ctx.ob("C10.5 R-CURSOR", wv, "sent-bytes-always-accounted", unacc is None,
           "a path returns after a partial gathered write without removing the bytes the kernel accepted from the pending buffer: "
           "they stay queued and are transmitted a second time", witness=unacc.witness() if unacc else None)
    ctx.ob("C10.5 R-CURSOR", wv, "pending-consumed-first", bad is None and n_le > 0 and n_gt > 0, bad[1] if bad else
           "partial write accounting is exact on %d + %d paths" % (n_le, n_gt), witness=bad[0].witness() if bad else None)
    # total = pending + sum of vector lengths
    oksum = False
    for i in wv.all_insts():
        if i.op == "phi" and i.ty == "i64":
            vals = [P.term(wv, x) for x, _ in i.inc]
            if any(t[0] == "load" and _fld(t[1], "to_write") for t in vals):
                for t in vals:
                    d = A.diff(P, t, ("phi", i.id))
                    if d is not None and d[1] == 0 and len(d[0]) == 1:
                        (k, c), = d[0].items()
                        if c == 1 and k[0] == "load" and Q.mentions(k, lambda x: x[0] == "field" and x[3] == "iov_len"):
                            oksum = True
    ctx.ob("C10.5 R-CURSOR", wv, "total-is-pending-plus-vectors", oksum, "the expected byte count is not to_write + sum of iov_len")
    # the copy into the write buffer: in copy_single_buffer(), or in the vector loop itself when the helper was folded into it
    cv = P.fn("buffered_socket.c:copy_iovec_to_write_buffer")
    cs = P.fn("buffered_socket.c:copy_single_buffer", required=False) or cv
    cb = ("param", 0, cs.params[0]["name"])
    ctw = ("load", ("field", cb, BS, "to_write"))
    okc = okg = oka = False
    n_ = src_ = None
    for c in cs.calls(("memcpy", "llvm.memcpy.p0i8.p0i8.i64")):
        d, s_, n = (P.term(cs, x) for x in c.a[0:3])
        if A.diff(P, d, ("field", cb, BS, "write_buffer")) != ({ctw: 1}, 0):
            continue
        okc = True
        n_, src_ = n, s_

        def fits(atom, pol, n_=n):
            if atom[0] != "cmp" or atom[2] != n_:
                return False
            eff = atom[1] if pol else Q.negate_pred(atom[1])
            return eff == "ule" and A.diff(P, atom[3], ("const", SIZE)) == ({ctw: -1}, 0)
        okg = Q.must_pass(P, cs, c.block, fits)
    for i in cs.all_insts():
        if i.op == "store" and _fld(P.term(cs, i.a[1]), "to_write") and n_ is not None:
            dd = A.diff(P, P.term(cs, i.a[0]), ctw)
            dn = A.norm(P, n_) if hasattr(A, "norm") else None
            oka = dd is not None and (dd == ({n_: 1}, 0) or (dn is not None and dd == dn))
    ctx.ob("C10.5 R-CURSOR", cs, "copy-at-end-under-capacity", okc and okg and oka,
           "%s: destination write_buffer+to_write=%s, guard n <= SIZE - to_write=%s, to_write += n=%s" % (cs.srcname, okc, okg, oka))
    oks = False
    pairs = []
    if cs is cv:
        if src_ is not None:
            pairs.append((src_, n_))
    else:
        if src_ == ("param", 1, cs.params[1]["name"]) and n_ == ("param", 2, cs.params[2]["name"]):
            for c in cv.calls("copy_single_buffer"):
                pairs.append((P.term(cv, c.a[1]), P.term(cv, c.a[2])))
    for (st, n) in pairs:
        base = [x for x in Q.subterms(st) if x[0] == "load" and Q.mentions(x, lambda y: y[0] == "field" and y[3] == "iov_base")]
        ln = [x for x in Q.subterms(n) if x[0] == "load" and Q.mentions(x, lambda y: y[0] == "field" and y[3] == "iov_len")]
        if base and ln:
            d1 = A.diff(P, st, base[0])
            d2 = A.diff(P, n, ln[0])
            oks = d1 is not None and d2 is not None and len(d1[0]) == 1 and len(d2[0]) == 1 and list(d1[0].values()) == [1] and list(d2[0].values()) == [-1] \
                and list(d1[0]) == list(d2[0])
    ctx.ob("C10.5 R-CURSOR", cv, "skip-exactly-written", oks, "copy_iovec_to_write_buffer does not copy (base + skipped, len - skipped)")
    ctx.floor("C10.5 R-CURSOR", 6)


def clause6_flush(ctx, P, cg):
    """the backlog flush (the function that loops over the socket write for the write buffer): (a) whenever it returns
    'go on' with bytes still queued, the queue has been compacted to the start of the buffer - its cursor is a local;
    (b) it reports 'would block' as success, so no caller may call it in a loop: that loop spins while the peer does not read"""
    sb = None
    for f in P.own_functions():
        if f.base == "buffered_socket.c" and f.loops() and any(c.block in set().union(*f.loops().values())
                                                                for c in f.calls(("socket_writev_with_prefix", "socket_writev"))):
            if any(i.op == "store" and _fld(P.term(f, i.a[1]), "to_write") for i in f.all_insts()) and f.ret == "i32" and f.nparams == 1:
                sb = f
    if sb is None:
        raise AnalysisBroken("buffered_socket.c: backlog flush loop not found")
    bad = None
    n = 0
    for v in Q.path_views(ctx, P, sb, loop_iters=2):
        if v.ret_const() != 0:
            continue
        n += 1
        wrote = [k for k, i in v.insts() if i.op == "store" and _fld(P.term(sb, i.a[1]), "to_write")]
        # left through the loop condition (nothing queued any more)?
        drained = False
        if v.atoms:
            a, p = v.atoms[-1]
            drained = a[0] == "cmp" and a[3] == ("const", 0) and _fld(a[2][1] if a[2][0] == "load" else a[2], "to_write") and Q._poleq(a, p)
        moved = [k for k, i in v.calls() if i.callee and P.srcname_of(i.callee).startswith("llvm.memmove")]
        if not drained and not (moved and (not wrote or moved[-1] > wrote[-1])):
            bad = v
    ctx.ob("C10.5 R-CURSOR", sb, "leftover-is-moved-to-the-front", bad is None and n >= 2,
           "%s returns 'go on' with bytes still queued on a path that does not move them to the start of the write buffer after the "
           "last accounting step: the next flush starts at the buffer start again, re-sends bytes that are already out and drops "
           "the tail" % sb.srcname, witness=bad.witness() if bad else None)
    # the same on the error return: a hard write error after progress (ENOBUFS, ENOMEM raise no epoll error event) is only logged by
    # the callers that send on behalf of another peer - the connection stays, so the queue must be consistent there too
    bade = None
    ne = 0
    for v in Q.path_views(ctx, P, sb, loop_iters=2):
        rc = v.ret_const()
        if rc is None or rc >= 0:
            continue
        ne += 1
        wrote = [k for k, i in v.insts() if i.op == "store" and _fld(P.term(sb, i.a[1]), "to_write")]
        moved = [k for k, i in v.calls() if i.callee and P.srcname_of(i.callee).startswith("llvm.memmove")]
        if wrote and not (moved and moved[-1] > wrote[-1]):
            bade = v
    ctx.ob("C10.5 R-CURSOR", sb, "leftover-is-moved-to-the-front:error-return", bade is None and ne >= 1,
           "%s returns its error value after it has taken sent bytes off to_write, without moving the unsent rest to the start of the "
           "write buffer: callers that send on behalf of another peer only log the failure, the connection stays, and the next flush "
           "re-sends bytes that are already out and drops the tail" % sb.srcname, witness=bade.witness() if bade else None)
    sites = P.callers_of(sb)
    if len(sites) < 2:
        raise AnalysisBroken("%s: %d call sites" % (sb.srcname, len(sites)))
    for c in sites:
        g = c.fn
        inl = any(c.block in body for body in g.loops().values())
        ctx.ob("C10.1 R-LOOP", g, Q.ordinal_site(g, c, P) + ":flush-not-retried-in-a-loop", not inl,
               "%s() is called in a loop in %s: it answers 0 both for 'all sent' and for 'the socket would block', so the loop spins "
               "(the single-threaded daemon serves nobody) until the peer reads" % (sb.srcname, g.srcname))


def clause7_write_contract(ctx, P):
    """the flush loop of send_buffer() ends by returning or by writing a positive number of bytes; it tells 'the socket is full' from
    progress by the result -1 + errno of the write helper.  That works only while the helper hands back what the system call
    returned: socket_writev_with_prefix() returns the result of its write call itself on every path (a helper that turns
    'would block' into 0 makes the loop spin with the rest still queued)"""
    f = P.fn("socket.c:socket_writev_with_prefix")
    WRITES = ("writev", "sendmsg", "write", "send")
    bad = None
    n = 0
    for v in Q.path_views(ctx, P, f, loop_iters=1):
        ws = [i for _, i in v.calls(WRITES)]
        if not ws:
            continue      # nothing to write: no system call, nothing to classify
        n += 1
        ro = v.ret_operand()
        r = v.resolve(ro) if ro is not None else None
        r = P.strip(f, r) if r is not None else None
        if not (isinstance(r, int) and r == ws[-1].id):
            bad = bad or (v, P.term(f, r) if r is not None else ("const", "?"))
    ctx.ob("C10.1 R-RET", f, "write-helper-returns-the-system-call-result", bad is None and n >= 1,
           ("socket_writev_with_prefix() can return %s instead of what the write call returned: send_buffer() leaves its loop only on "
            "-1 or when everything is written, so a 'nothing written' that is not -1 keeps it spinning on a full socket" %
            fmt_term(bad[1])) if bad else "the helper returns the write call's own result", witness=bad[0].witness() if bad else None)


def clause8_skip_is_what_went_out(ctx, P):
    """after a short write the part of the new frame that still has to be queued starts behind what the kernel took OF THAT FRAME:
    on every path, the skip handed to copy_iovec_to_write_buffer() is 0 (nothing of the frame went out) or exactly
    (bytes written) - (bytes that were pending before the call) - evaluated along the path with the pending count as it was on
    entry (clearing it first and subtracting afterwards skips `pending` bytes too few and garbles the stream)"""
    from ..core.pathmem import PathEval, a_fmt
    f = P.fn("buffered_socket.c:buffered_socket_writev")
    bad = None
    n = 0
    for p_ in P.paths(f, loop_iters=1):
        pe = PathEval(P, f, Q.PathView(P, f, p_))
        if pe.infeasible:
            continue
        for e in pe.events:
            if e.kind != "call" or e.data.get("callee") != "copy_iovec_to_write_buffer":
                continue
            n += 1
            skip = e.data["args"][3]
            if skip == ({}, 0):
                continue
            leaves = skip[0]
            wr = [l for l, c in leaves.items() if c == 1 and l[0] == "ret"]
            pend = [l for l, c in leaves.items() if c == -1 and l[0] == "init" and "to_write" in repr(l)]
            # (written is the constant 0 on paths where nothing was written; 0 > pending cannot happen, the evaluator does not know)
            if not (skip[1] == 0 and len(pend) == 1 and len(wr) <= 1 and len(leaves) == len(pend) + len(wr)):
                bad = bad or (pe, a_fmt(skip))
    ctx.ob("C10.5 R-CURSOR", f, "queued-rest-starts-behind-what-went-out", bad is None and n >= 2,
           "buffered_socket_writev() tells the queueing helper to skip %s bytes of the new frame; expected 0 or (written - pending on "
           "entry): the queued rest does not continue where the kernel stopped, the peer's stream is garbled" % (bad[1] if bad else "?"),
           witness=bad[0].view.witness() if bad else None)


def clause9_byte_order(ctx, P):
    """the length prefix of a raw frame and the extended lengths of websocket frames go through the six byte-order helpers of
    jet_endian.c: each is evaluated as a table (finite evaluation of its IR, helpers it calls included) on values that have a
    different byte in every position and on the values around the length boundaries, and must reverse the bytes of its operand
    (the analysed targets are little-endian) - a prefix that announces another length than the message has tears every later frame"""
    from ..core.feval import FEval
    little = P.target_little_endian() if hasattr(P, "target_little_endian") else True
    n = 0
    bad = []
    for bits in (16, 32, 64):
        nb = bits // 8
        samples = [int.from_bytes(bytes(range(0x11, 0x11 + nb)), "big"), 0, (1 << bits) - 1, 1, 1 << (bits - 1)] + \
            [v & ((1 << bits) - 1) for v in (0xFF, 0x100, 0xFFFF, 0x10000, 65536 + 4464, 0xFFFFFF, 0x1000000, 0x7FFFFFFF, 0x80000000)] + \
            [0xFF << (8 * k) for k in range(nb)]
        for name in ("jet_be%dtoh" % bits, "jet_htobe%d" % bits):
            f = P.fn("jet_endian.c:" + name)
            ev = FEval(P, f, None, ptr_param=None)
            for x in samples:
                try:
                    r, _ = ev.run({}, {0: x})
                except AnalysisBroken as e:
                    ctx.broken("%s cannot be evaluated as a table: %s" % (name, e))
                    return
                n += 1
                want = int.from_bytes(x.to_bytes(nb, "little"), "big") if little else x
                if r != want:
                    bad.append("%s(%#x) = %#x" % (name, x, r))
    ctx.ob("C10.4 R-TABLE", P.fn("jet_endian.c:jet_htobe32"), "byte-order-helpers-reverse-the-bytes", not bad and n >= 60,
           "a byte-order helper does not give the big-endian form of its operand: %s - the length prefix (or extended frame length) "
           "announces another length than the message has, the receiver cuts the stream at the wrong places" % "; ".join(bad[:4]),
           detail={"evaluations": n})


def run(ctx):
    for cfg in ctx.configs():
        P, cg = cfg.P, cfg.cg
        clause9_byte_order(ctx, P)
        clause6_flush(ctx, P, cg)
        clause1_nonblocking(ctx, P, cg)
        clause2_atomic(ctx, P, cg)
        clause3_order(ctx, P)
        clause4_header(ctx, P)
        clause5_cursor(ctx, P)
        clause7_write_contract(ctx, P)
        clause8_skip_is_what_went_out(ctx, P)
        # 'a peer never sees part of a frame followed by other data': nothing is dispatched behind a request whose answer failed
        from .c02 import clause6_batch
        clause6_batch(ctx, P)
