"""C09 — segmentation independence: four structural clauses."""
from ..frontend import AnalysisBroken
from ..core import queries as Q
from ..core import affine as A
from ..core.program import fmt_term, fmt_atom

META = {
    "explanation": (
        "(1) a message is parsed from exactly its own bytes: the network message parser hands its (buffer, length) parameters to a "
        "length-taking parse entry; the strlen-based cJSON entries are not called from it; both transports pass their callback's "
        "buffer and length; "
        "(2) length handling: in the raw transport's length callback the zero-length path re-arms nothing and returns BS_OK; every "
        "read_exactly site with a non-constant count is guarded by count != 0 (a zero-byte exact read is indistinguishable from end "
        "of stream in this reader); a request the read buffer cannot hold reaches the error handler: the socket read in fill_buffer is "
        "dominated by the free-space test (after compaction), the refusal class is propagated unchanged through get_read_ptr and "
        "go_reading, and every negative class other than would-block reaches the error handler in read_function and on first run; "
        "(3) the reader functions write only fields of their buffered_socket, the out-parameter and locals (no global state), and the "
        "reader loop has no exit other than a negative class or close; "
        "(4) R-CURSOR, affine equalities on SSA values: fill_buffer reads into write_ptr with size &read_buffer[SIZE] - write_ptr and "
        "advances write_ptr by exactly the returned count on the positive path only; get_read_ptr hands out the old read_ptr, advances "
        "it by exactly the count it returns, under write_ptr - read_ptr >= count; internal_read_until returns found + strlen(delim) - "
        "read_ptr and advances read_ptr by that; compaction moves write_ptr - read_ptr bytes to the buffer start and resets both "
        "cursors accordingly."),
    "not_decided": "equality of output across all partitions of the input (a relational property over executions)",
    "assumptions": ["socket_read returns the number of bytes stored, 0 at end of stream, -1 on error"],
}

BS = "struct.buffered_socket"


def _fld(t, name):
    return t[0] == "field" and t[2] == BS and t[3] == name


def _ldfld(name):
    return lambda t: t[0] == "load" and _fld(t[1], name)


def helpers(P):
    """inline single-expression static helpers (free_space, unread_bytes) by their return term"""
    out = {}
    for name in ("free_space", "unread_bytes"):
        fs = [f for f in P.by_src.get(name, []) if f.base == "buffered_socket.c"]
        if len(fs) != 1:
            raise AnalysisBroken("helper %s not found" % name)
        f = fs[0]
        if f.nblocks != 1:
            raise AnalysisBroken("helper %s is no longer a single expression" % name)
        rt = P.term(f, f.term_inst(0).a[0])

        def sub(args, rt=rt, f=f):
            def rep(t):
                if not isinstance(t, tuple):
                    return t
                if t and t[0] == "param":
                    return args[t[1]]
                return tuple(rep(x) for x in t)
            return rep(rt)
        out[name] = sub
    return out


def clause1_parse(ctx, P):
    pm = P.fn("parse.c:parse_message")
    cs = pm.calls(("cJSON_ParseWithLengthOpts", "cJSON_ParseWithLength"))
    ok = len(cs) == 1 and P.term(pm, cs[0].a[0]) == ("param", 0, pm.params[0]["name"]) and P.term(pm, cs[0].a[1]) == ("param", 1, pm.params[1]["name"])
    ctx.ob("C09.1 R-PAIR", pm, "length-taking-parse", ok,
           "the network message is not parsed by a length-taking entry with (msg, length): bytes after the message (the next "
           "prefix, stale bytes of earlier messages) decide whether and how it parses")
    bad = pm.calls(("cJSON_Parse", "cJSON_ParseWithOpts"))
    ctx.ob("C09.1 R-WHO", pm, "no-strlen-parse", not bad, "parse_message calls the strlen-based %s on an unterminated buffer" % [P.srcname_of(c.callee) for c in bad])
    for key in ("socket_peer.c:read_msg", "websocket_peer.c:text_message_callback"):
        f = P.fn(key)
        for c in f.calls("parse_message"):
            a0, a1 = P.term(f, c.a[0]), P.term(f, c.a[1])
            ctx.ob("C09.1 R-PAIR", f, "own-buffer-and-length", a0[0] == "param" and a0[1] == 1 and a1[0] == "param" and a1[1] == 2,
                   "transport passes something other than its callback's (buffer, length) to the parser")
    ctx.floor("C09.1 R-PAIR", 3)


# content reads of the bundled parser that are not guarded inside their own function: the first byte at the function's entry
# offset, which every caller has established to be inside the message (parse_value tests can_access_at_index(0) before it
# dispatches on that byte; parse_object calls parse_string behind buffer_skip_whitespace(), which never leaves the offset at length)
PARSER_ENTRY_REREADS = ("parse_string", "parse_array")


def clause1b_parser_bounds(ctx, P, cg):
    """'exactly its own bytes' inside the parser: every read of content[offset + k] in the bundled cJSON parser is dominated by the
    test offset + k < length (can_access_at_index / can_read) - the byte behind the message (the next length prefix, a stale byte of an
    earlier message) is never looked at.  The two confirmed re-reads of the first byte at function entry are listed above."""
    PB = "struct.parse_buffer"
    ci, oi, li = "#0", "#2", "#1"
    pbs = P.facts.get("structs", {}).get(PB)
    if not pbs or len(pbs["fields"]) < 4 or pbs["fields"][0]["ty"] != "i8*":
        raise AnalysisBroken("struct parse_buffer: layout not recognised")

    def site(t):
        k = 0
        if t[0] == "byteoff":
            k = t[2]
            t = t[1]
        if t[0] == "index" and Q.is_field_load(t[1], PB, ci) is not None and Q.is_field_load(t[2], PB, oi) is not None and t[3] == 1:
            return (Q.is_field_load(t[1], PB, ci), k)
        return None
    n = 0
    bad = None
    for f in P.functions.values():
        if f.base != "cJSON.c":
            continue
        for i in f.all_insts():
            if i.op != "load":
                continue
            sk = site(P.term(f, i.a[0]))
            if sk is None:
                continue
            B, k = sk
            n += 1
            if not isinstance(k, int):
                bad = bad or (f, i, "a computed index")
                continue
            off, ln = ("load", ("field", B, PB, oi)), ("load", ("field", B, PB, li))

            def guard(atom, pol, k=k, off=off, ln=ln):
                if atom[0] != "cmp" or atom[3] != ln:
                    return False
                eff = atom[1] if pol else Q.negate_pred(atom[1])
                x = atom[2]
                c = 0 if x == off else (x[2][1][1] if x[0] == "op" and x[1] == "add" and x[2][0] == off and x[2][1][0] == "const" else None)
                if c is None:
                    return False
                return (eff == "ult" and c >= k) or (eff == "ule" and c > k)
            # what invalidates the test: a store to the offset, or a call that is handed the buffer and can move the offset
            offaddr = ("field", B, PB, oi)
            wr = Q.field_writers(P, PB, oi)
            killers = []
            for j in f.all_insts():
                if j.op == "store" and P.term(f, j.a[1]) == offaddr:
                    killers.append(j)
                elif j.op == "call" and j.callee and any(P.term(f, a) == B for a in j.a) and (wr & cg.reach(j.callee)):
                    killers.append(j)
            if Q.guarded_fresh(P, f, i, guard, killers):
                continue
            # entry re-read: k == 0 and no store to the offset can precede it
            moved = any(j.op == "store" and P.term(f, j.a[1]) == ("field", B, PB, oi) and
                        (f.dominates(j.block, i.block) and (j.block != i.block or j.idx < i.idx)) for j in f.all_insts())
            if k == 0 and f.srcname in PARSER_ENTRY_REREADS and not moved and _before_any_offset_store(P, f, i, ("field", B, PB, oi)):
                continue
            bad = bad or (f, i, "index %d" % k)
    ctx.ob("C09.1 R-BOUND", "cJSON.c", "parser-reads-stay-inside-the-message", bad is None and n >= 12,
           ("%s() reads the input at %s (%s) without having tested that offset + index < length on every path to it: for a message that "
            "ends there the byte BEHIND the message decides how it parses" % (bad[0].srcname, bad[1].loc, bad[2])) if bad else
           "%d content reads in the parser, all inside the tested range" % n)


def _before_any_offset_store(P, f, load, offaddr):
    """no path from the entry reaches `load` through a store to the offset member"""
    stores = [j for j in f.all_insts() if j.op == "store" and P.term(f, j.a[1]) == offaddr]
    for j in stores:
        if j.block == load.block:
            if j.idx < load.idx:
                return False
            continue
        g = P.edge_graph(f)
        for n_ in g:
            if n_[1] == j.block:
                if load.block in P.reach_blocks(f, start=n_):
                    return False
    return True


def clause2_length(ctx, P, cg):
    BS_OK = Q.enum(P, "BS_OK")
    rl = P.fn("socket_peer.c:read_msg_length")
    bad = None
    n = 0
    rkey = ("struct.buffered_reader", P.field_index("struct.buffered_reader", "read_exactly"))
    cts = [P.term(rl, i.a[1]) for i in rl.all_insts() if i.op == "call" and not i.callee and cg.icall_field(rl, i) == rkey
           and P.const_int(i.a[1]) is None]
    if len(cts) != 1:
        raise AnalysisBroken("read_msg_length: variable-count read_exactly site not found")
    ct0 = cts[0]
    for v in Q.path_views(ctx, P, rl):
        zero = v.has_atom(lambda a, p: a[0] == "cmp" and a[3] == ("const", 0) and Q._poleq(a, p) and A.equal(P, a[2], ct0))
        if zero:
            n += 1
            icalls = [i for _, i in v.insts() if i.op == "call" and not i.callee]
            if icalls or v.ret_const() != BS_OK:
                bad = v
    ctx.ob("C09.2 R-GATE", rl, "zero-length-skipped", bad is None and n > 0,
           "a zero length prefix is not skipped (BS_OK without re-arming the reader)", witness=bad.witness() if bad else None)
    # read_exactly sites with non-constant count
    key = ("struct.buffered_reader", P.field_index("struct.buffered_reader", "read_exactly"))
    nsites = 0
    for f in P.own_functions():
        for i in f.all_insts():
            if i.op == "call" and not i.callee and cg.icall_field(f, i) == key:
                if P.const_int(i.a[1]) is not None:
                    c = P.const_int(i.a[1])
                    ctx.ob("C09.2 R-GATE", f, Q.ordinal_site(f, i, P) + ":const", c > 0, "read_exactly with constant count %d" % c, nontrivial=False)
                    continue
                nsites += 1
                ct = P.term(f, i.a[1])

                def nz(atom, pol, ct=ct):
                    if atom[0] != "cmp" or atom[3] != ("const", 0):
                        return False
                    same = atom[2] == ct or (ct[0] == "op" and atom[2] == ct[2][0]) or (atom[2][0] == "load" and ct[0] == "load" and atom[2] == ct) or \
                        (ct[0] == "phi" and False)
                    if not same:
                        # both sides read the same field/local: compare by leaves
                        same = A.equal(P, atom[2], ct)
                    if not same:
                        return False
                    eff = atom[1] if pol else Q.negate_pred(atom[1])
                    return eff in ("ne", "ugt", "sgt")
                ok = Q.must_pass(P, f, i.block, nz)
                ctx.ob("C09.2 R-GATE", f, Q.ordinal_site(f, i, P) + ":nonzero", ok,
                       "read_exactly(%s) is reachable with a zero count, which this reader cannot tell from end of stream" % fmt_term(ct))
    if nsites < 3:
        raise AnalysisBroken("variable-count read_exactly sites: %d" % nsites)
    # too much data -> error handler
    fb = P.fn("buffered_socket.c:fill_buffer")
    TOO = Q.macro(P, "buffered_socket.c", "BS_IO_TOOMUCHDATA")
    WB = Q.macro(P, "buffered_socket.c", "BS_IO_WOULD_BLOCK")
    for c in fb.calls("socket_read"):
        def fits(atom, pol):
            if atom[0] != "cmp" or atom[1] not in ("ult", "uge"):
                return False
            if not (Q.is_call_to(atom[2], "free_space") and atom[3][0] == "param" and atom[3][1] == 1):
                return False
            return (atom[1] == "ult" and not pol) or (atom[1] == "uge" and pol)
        ctx.ob("C09.2 R-GATE", fb, "read-only-if-it-fits", Q.must_pass(P, fb, c.block, fits),
               "the socket read is reachable without free_space(bs) >= count")
    vs = Q.path_views(ctx, P, fb)
    ok = any(v.ret_const() == TOO for v in vs) and all(
        (v.ret_const() != TOO) or sum(1 for (a, p) in v.atoms if a[0] == "cmp" and Q.is_call_to(a[2], "free_space") and a[1] == "ult" and p) >= 2
        for v in vs)
    ctx.ob("C09.2 R-GATE", fb, "toomuch-after-compaction", ok, "BS_IO_TOOMUCHDATA is not returned exactly when the request still does not fit after compaction")
    for key2 in ("buffered_socket.c:get_read_ptr", "buffered_socket.c:internal_read_until"):
        g = P.fn(key2)
        bad = None
        n = 0
        for v in Q.path_views(ctx, P, g):
            neg = v.has_atom(lambda a, p: a[0] == "cmp" and Q.is_call_to(a[2], "fill_buffer") and a[3] == ("const", 0) and (a[1] if p else Q.negate_pred(a[1])) == "sle")
            if neg:
                n += 1
                rt = P.term(g, v.ret_operand())
                if not Q.is_call_to(rt, "fill_buffer"):
                    bad = v
        ctx.ob("C09.2 R-ORDER", g, "refusal-propagated", bad is None and n > 0, "%s does not hand fill_buffer's refusal class up unchanged" % g.srcname)
    gr = P.fn("buffered_socket.c:go_reading")
    bad = None
    n = 0
    for v in Q.path_views(ctx, P, gr):
        neg = v.has_atom(lambda a, p: a[0] == "cmp" and a[2][0] == "icall" and a[3] == ("const", 0) and (a[1] if p else Q.negate_pred(a[1])) == "slt")
        if neg:
            n += 1
            rt = P.term(gr, v.ret_operand())
            if rt[0] != "icall" and not Q.mentions(rt, lambda x: x[0] == "icall"):
                bad = v
    ctx.ob("C09.2 R-ORDER", gr, "refusal-propagated", bad is None and n > 0, "go_reading does not return the reader's negative class")
    for key2 in ("buffered_socket.c:read_function", "buffered_socket.c:buffered_socket_read_exactly", "buffered_socket.c:buffered_socket_read_until"):
        g = P.fn(key2)
        bad = None
        n = 0
        for v in Q.path_views(ctx, P, g):
            gk = [i for _, i in v.calls("go_reading")]
            if not gk:
                continue
            neg = v.has_atom(lambda a, p: a[0] == "cmp" and Q.is_call_to(a[2], "go_reading") and a[3] == ("const", 0) and (a[1] if p else Q.negate_pred(a[1])) == "slt")
            wb = v.has_atom(lambda a, p: a[0] == "cmp" and Q.is_call_to(a[2], "go_reading") and a[3] == ("const", WB) and Q._poleq(a, p))
            err = any(True for _ in v.calls("error_function"))
            if neg and not wb:
                n += 1
                if not err:
                    bad = v
            if err and (wb or not neg):
                bad = v
        ctx.ob("C09.2 R-GATE", g, "negative-class-closes", bad is None and n > 0,
               "%s: a negative reader class other than would-block does not reach the error handler (or would-block does)" % g.srcname,
               witness=bad.witness() if bad else None)
    ctx.floor("C09.2 R-GATE", 9)


def clause3_state(ctx, P):
    for key in ("buffered_socket.c:get_read_ptr", "buffered_socket.c:internal_read_until", "buffered_socket.c:fill_buffer",
                "buffered_socket.c:reorganize_read_buffer", "buffered_socket.c:go_reading"):
        g = P.fn(key)
        bad = []
        for i in g.all_insts():
            if i.op == "store":
                t = P.term(g, i.a[1])
                lv, _ = Q.leaves(P, g, i.a[1], through_loads=False)
                if any(l[0] == "global" for l in lv):
                    bad.append(i)
            if i.op == "load":
                t = P.term(g, i.a[0])
                if t[0] == "global" and not P.globals.get(t[1], {}).get("const"):
                    bad.append(i)
        ctx.ob("C09.3 R-EFFECT", g, "no-global-state", not bad, "%s keeps reader state outside the buffered_socket (%s)" % (g.srcname, [b.loc for b in bad]))
    gr = P.fn("buffered_socket.c:go_reading")
    loops = gr.loops()
    ok = len(loops) == 1
    if ok:
        (h, body), = loops.items()
        exits = [(b, s) for b in body for s in gr.succs[b] if s not in body]
        # every exit edge leads to a return; conditions: len < 0, or (len == 0 || ret == CLOSED)
        conds = []
        for (b, s) in exits:
            for (s2, atom, pol) in P.edge_conds(gr, b):
                if s2 == s:
                    conds.append((atom, pol))
        ok = len(exits) >= 2
    ctx.ob("C09.3 R-LOOP", gr, "drain-until-negative-or-closed", ok, "the reader loop does not drain the socket until a negative class or close (edge-triggered discipline)")
    # ... and for nothing else: every condition under which the loop is left is a verdict of the reader or of the read callback.  A
    # round counter (fairness cap) leaves input unread that no further readiness event will announce (the sockets are edge-triggered)
    def cond_leaves(o, seen):
        out = set()
        st = [o]
        while st:
            x = st.pop()
            if not isinstance(x, int):
                continue
            if x < gr.nparams or x in seen:
                continue
            seen.add(x)
            d = gr.insts[x]
            if d.op == "call":
                if d.callee and P.srcname_of(d.callee).startswith("llvm.expect"):
                    st.append(d.a[0])
                else:
                    out.add("icall" if not d.callee else "call:" + P.srcname_of(d.callee))
            elif d.op == "phi":
                st.extend(v_ for v_, _ in d.inc)
            elif d.op == "load":
                out.add("load")
            else:
                st.extend(a for a in d.a if isinstance(a, int))
        return out
    badx = None
    if len(loops) == 1:
        (h, body), = loops.items()
        for b in body:
            t = gr.term_inst(b)
            if t.op == "br" and len(t.succ) == 2 and any(s2 not in body for s2 in t.succ):
                lv = cond_leaves(t.a[0], set())
                if "icall" not in lv:
                    badx = t
    ctx.ob("C09.3 R-LOOP", gr, "reader-loop-left-only-on-a-reader-verdict", badx is None and len(loops) == 1,
           "go_reading() can leave its loop at %s on a condition that is no verdict of the reader or of the read callback (a round "
           "counter, say): complete messages that are already in the socket stay unread until the peer sends again" %
           (badx.loc if badx else "?"))
    # readiness bits: everything the loop registers for (besides the edge-trigger flag) is dispatched as data, not as an error
    add = P.fn("eventloop_epoll.c:eventloop_epoll_add")
    he = P.fn("eventloop_epoll.c:handle_events")
    ET = Q.const(P, "eventloop_epoll.c", "EPOLLET") & 0xFFFFFFFF
    reg = None
    for i in add.all_insts():
        if i.op == "store":
            t = P.term(add, i.a[1])
            if t[0] == "field" and t[2] == "struct.epoll_event" and t[3] == "events":
                reg = P.const_int(i.a[0])
    errmask = None
    for b in range(he.nblocks):
        for (s2, atom, pol) in P.edge_conds(he, b):
            if atom is not None and atom[0] == "cmp" and atom[3] == ("const", 0) and atom[2][0] == "op" and atom[2][1] == "and" \
                    and atom[2][2][1][0] == "const" and Q.mentions(atom[2][2][0], lambda x: x[0] == "field" and x[3] == "events"):
                k = atom[2][2][1][1] & 0xFFFFFFFF
                if bin(k).count("1") > 8:
                    errmask = k
    # input that is reported together with a hang-up or an error is still input: on every path of the dispatcher to the error
    # callback, the readable bit has been found clear or the read callback has run first.  (EPOLLHUP and EPOLLERR are reported
    # whether registered or not: a peer of the local socket that sends its last message and closes is seen as IN|HUP when both
    # happened before the daemon looked, and as IN, later HUP, when it looked in between.)
    IN = Q.const(P, "eventloop_epoll.c", "EPOLLIN") & 0xFFFFFFFF
    ekey = ("struct.io_event", P.field_index("struct.io_event", "error_function"))
    rkey = ("struct.io_event", P.field_index("struct.io_event", "read_function"))
    cgx = ctx.cur.cg
    badv = None
    nerr = 0
    for v in Q.path_views(ctx, P, he):
        read_done = False
        for k, i in v.insts():
            if i.op != "call" or i.callee:
                continue
            fld = cgx.icall_field(he, i)
            if fld == rkey:
                read_done = True
            elif fld == ekey:
                nerr += 1
                in_clear = v.has_atom(lambda a, p: a[0] == "cmp" and a[3] == ("const", 0) and a[2][0] == "op" and a[2][1] == "and" and
                                      a[2][2][1] == ("const", IN) and Q.mentions(a[2][2][0], lambda x: x[0] == "field" and x[3] == "events") and
                                      Q._poleq(a, p))
                no_reader = v.has_atom(lambda a, p: a[0] == "cmp" and a[3] == ("null",) and a[2][0] == "load" and a[2][1][0] == "field" and
                                       a[2][1][3] == "read_function" and Q._poleq(a, p))
                if not (read_done or in_clear or no_reader):
                    badv = v
    ctx.ob("C09.3 R-ORDER", he, "input-is-read-before-a-hangup-is-handled", badv is None and nerr > 0,
           "handle_events() calls the error callback of a connection on a path that has neither found EPOLLIN clear nor run the read "
           "callback: a last message that is reported together with the peer's hang-up (EPOLLIN|EPOLLHUP in one entry) is discarded, "
           "while the same bytes are processed when the two are reported one after the other", witness=badv.witness() if badv else None)
    # registering for a bit that the dispatcher treats as an error (EPOLLRDHUP, say) loses input only if the dispatcher does not
    # read first: with the order rule above discharged, such a registration changes nothing that a peer can observe
    order_ok = badv is None and nerr > 0
    okr = reg is not None and errmask is not None and (((reg & 0xFFFFFFFF) & errmask & ~ET) == 0 or order_ok)
    ctx.ob("C09.3 R-PAIR", add, "registered-bits-are-data-bits", okr,
           "connections are registered for readiness bits 0x%x, of which 0x%x are treated as an ERROR by the dispatcher, which does not "
           "read before it handles an error: input that arrives together with such a bit (e.g. data + half-close in one readiness "
           "report) is discarded instead of processed"
           % ((reg or 0) & 0xFFFFFFFF, ((reg or 0) & 0xFFFFFFFF) & (errmask or 0) & ~ET) if not okr else
           "registered bits are data bits, or the dispatcher reads before it handles an error")
    ctx.floor("C09.3 R-EFFECT", 5)


def clause4_cursor(ctx, P):
    H = helpers(P)
    SIZE = Q.enum(P, "CONFIG_MAX_MESSAGE_SIZE")
    fb = P.fn("buffered_socket.c:fill_buffer")
    bs = ("param", 0, fb.params[0]["name"])
    wp = ("load", ("field", bs, BS, "write_ptr"))
    rp = ("load", ("field", bs, BS, "read_ptr"))
    rbuf = ("field", bs, BS, "read_buffer")
    for c in fb.calls("socket_read"):
        dest = P.term(fb, c.a[1])
        size = P.term(fb, c.a[2])
        ctx.ob("C09.4 R-CURSOR", fb, "read:destination", A.equal(P, dest, wp, H), "socket read destination is %s, expected bs->write_ptr" % fmt_term(dest))
        want = ("op", "sub", (("index", rbuf, ("const", SIZE), 1), wp))
        d = A.diff(P, size, want, H)
        ctx.ob("C09.4 R-CURSOR", fb, "read:size", d == ({}, 0),
               "socket read size is %s, expected &read_buffer[%d] - write_ptr (difference %s)" % (fmt_term(size)[:80], SIZE, d))
    sts = [i for i in fb.all_insts() if i.op == "store" and _fld(P.term(fb, i.a[1]), "write_ptr")]
    ctx.ob("C09.4 R-CURSOR", fb, "write_ptr:stores", len(sts) == 1, "fill_buffer updates write_ptr %d times" % len(sts))
    for st in sts:
        vt = P.term(fb, st.a[0])
        d = A.diff(P, vt, wp, H)
        okv = d is not None and d[1] == 0 and len(d[0]) == 1 and list(d[0].items())[0][0][0:2] == ("call", "socket_read") and list(d[0].values())[0] == 1
        ctx.ob("C09.4 R-CURSOR", fb, "write_ptr:advance", okv, "write_ptr advances by %s, expected exactly the count socket_read returned" % (d,))
        # positive path only
        def pos(atom, pol):
            return atom[0] == "cmp" and Q.is_call_to(atom[2], "socket_read") and atom[3] in (("const", 0), ("const", -1)) and not Q._poleq(atom, pol)
        n = 0
        for v in Q.path_views(ctx, P, fb):
            if st.block in v.blocks:
                n += 1
                # if-form (cmp against the constant) or switch-form (case / default edge)
                is_sr = lambda t: Q.is_call_to(t, "socket_read")
                z = v.has_atom(lambda a, p: (a[0] == "cmp" and is_sr(a[2]) and a[3] == ("const", 0) and not Q._poleq(a, p)) or
                               Q.const_relation(a, p, is_sr, 0) is False)
                m = v.has_atom(lambda a, p: (a[0] == "cmp" and is_sr(a[2]) and a[3] == ("const", -1) and not Q._poleq(a, p)) or
                               Q.const_relation(a, p, is_sr, -1) is False)
                if not (z and m):
                    okv = False
        ctx.ob("C09.4 R-CURSOR", fb, "write_ptr:positive-only", okv and n > 0, "write_ptr is advanced on a path where the read returned 0 or -1")
    # get_read_ptr
    g = P.fn("buffered_socket.c:get_read_ptr")
    gbs = ("param", 0, g.params[0]["name"])
    grp = ("load", ("field", gbs, BS, "read_ptr"))
    gwp = ("load", ("field", gbs, BS, "write_ptr"))
    okp = False
    for v in Q.path_views(ctx, P, g):
        sts = [(k, i) for k, i in v.insts() if i.op == "store"]
        out_st = [i for k, i in sts if P.term(g, i.a[1])[0] == "param" and P.term(g, i.a[1])[1] == 2]
        rp_st = [i for k, i in sts if _fld(P.term(g, i.a[1]), "read_ptr")]
        if not out_st:
            continue
        rt = P.term(g, v.ret_operand())
        cnt = None
        c1 = len(out_st) == 1 and A.equal(P, P.term(g, out_st[0].a[0]), grp, H)
        c2 = len(rp_st) == 1
        if c2:
            d = A.diff(P, P.term(g, rp_st[0].a[0]), grp, H)
            dr = A.norm(P, rt, H)
            c2 = d is not None and dr is not None and d == dr and d != ({}, 0)
        guard = v.has_atom(lambda a, p: a[0] == "cmp" and (a[1] if p else Q.negate_pred(a[1])) == "uge" and
                           A.equal(P, a[2], ("op", "sub", (gwp, grp)), H) and A.equal(P, a[3], rt, H))
        okp = c1 and c2 and guard
        ctx.ob("C09.4 R-CURSOR", g, "handout", okp,
               "get_read_ptr: out=%s advance-equals-return=%s guard(write_ptr - read_ptr >= count)=%s" % (c1, c2, guard), witness=v.witness() if not okp else None)
    # the refill request is exactly the missing rest (count - unread): asking for more refuses legal messages that
    # arrive behind other data in the buffer
    for c in g.calls("fill_buffer"):
        want = ("op", "sub", (P.term(g, c.a[1]), ("const", 0)))
        d = A.norm(P, P.term(g, c.a[1]), H)
        cnt_leaf = None
        okf = False
        if d is not None and d[1] == 0:
            pos = [k for k, cf in d[0].items() if cf == 1]
            neg = [k for k, cf in d[0].items() if cf == -1]
            # count - (write_ptr - read_ptr)
            okf = len(d[0]) == 3 and gwp in neg and grp in pos and len(pos) == 2
        ctx.ob("C09.4 R-CURSOR", g, "refill-asks-for-missing-rest", okf,
               "get_read_ptr asks fill_buffer for %s, expected count - unread_bytes: a message that is partly buffered is refused as "
               "too large although it fits" % fmt_term(P.term(g, c.a[1]))[:80])
    # internal_read_until
    u = P.fn("buffered_socket.c:internal_read_until")
    ubs = ("param", 0, u.params[0]["name"])
    urp = ("load", ("field", ubs, BS, "read_ptr"))
    for v in Q.path_views(ctx, P, u):
        sts = [i for k, i in v.insts() if i.op == "store"]
        out_st = [i for i in sts if P.term(u, i.a[1])[0] == "param" and P.term(u, i.a[1])[1] == 2]
        if not out_st:
            continue
        rp_st = [i for i in sts if _fld(P.term(u, i.a[1]), "read_ptr")]
        rt = P.term(u, v.ret_operand())
        c1 = A.equal(P, P.term(u, out_st[0].a[0]), urp, H)
        d = A.diff(P, P.term(u, rp_st[0].a[0]), urp, H) if len(rp_st) == 1 else None
        dr = A.norm(P, rt, H)
        c2 = d is not None and d == dr
        # return = found + strlen(needle) - read_ptr
        c3 = dr is not None and any(k[0:2] == ("call", "jet_memmem") and c == 1 for k, c in dr[0].items()) and \
            any(k[0:2] == ("call", "strlen") and c == 1 for k, c in dr[0].items()) and dr[0].get(urp) == -1 and dr[1] == 0
        ctx.ob("C09.4 R-CURSOR", u, "handout", c1 and c2 and c3,
               "internal_read_until: out-is-old-read_ptr=%s advance-equals-return=%s return-is-found+len-read_ptr=%s" % (c1, c2, c3))
        break
    for c in u.calls("jet_memmem"):
        hay, n = P.term(u, c.a[0]), P.term(u, c.a[1])
        ctx.ob("C09.4 R-CURSOR", u, "search-window", Q.is_call_to(n, "unread_bytes") or A.equal(P, n, ("op", "sub", (("load", ("field", ubs, BS, "write_ptr")), urp)), H),
               "delimiter search window is not the unread bytes")
    # compaction
    r = P.fn("buffered_socket.c:reorganize_read_buffer")
    rbs = ("param", 0, r.params[0]["name"])
    rrp = ("load", ("field", rbs, BS, "read_ptr"))
    rwp = ("load", ("field", rbs, BS, "write_ptr"))
    rrb = ("field", rbs, BS, "read_buffer")
    okm = False
    for c in r.calls(("memmove", "llvm.memmove.p0i8.p0i8.i64")):
        d, s, n = P.term(r, c.a[0]), P.term(r, c.a[1]), P.term(r, c.a[2])
        okm = A.equal(P, d, rrb, H) and A.equal(P, s, rrp, H) and A.equal(P, n, ("op", "sub", (rwp, rrp)), H)
    ctx.ob("C09.4 R-CURSOR", r, "compaction:move", okm, "compaction does not move exactly the unread bytes (read_ptr .. write_ptr) to the buffer start")
    bad = None
    for v in Q.path_views(ctx, P, r):
        wst = [i for _, i in v.insts() if i.op == "store" and _fld(P.term(r, i.a[1]), "write_ptr")]
        rst = [i for _, i in v.insts() if i.op == "store" and _fld(P.term(r, i.a[1]), "read_ptr")]
        moved = any(True for _ in v.calls(("memmove", "llvm.memmove.p0i8.p0i8.i64")))
        okw = len(wst) == 1 and len(rst) == 1 and A.equal(P, P.term(r, rst[0].a[0]), rrb, H)
        if okw:
            want = ("op", "add", (rrb, ("op", "sub", (rwp, rrp)))) if moved else rrb
            okw = A.equal(P, P.term(r, wst[0].a[0]), want, H)
        if not okw:
            bad = v
    ctx.ob("C09.4 R-CURSOR", r, "compaction:cursors", bad is None, "after compaction read_ptr/write_ptr are not buffer start / start + unread",
           witness=bad.witness() if bad else None)
    ctx.floor("C09.4 R-CURSOR", 10)


def clause_wouldblock_source(ctx, P, cg):
    """edge-triggered readiness: 'would block' may only be reported after the socket itself said so. A reader that reports
    it on its own leaves bytes - or the peer's FIN - unread with no further event to come."""
    WB = Q.macro(P, "buffered_socket.c", "BS_IO_WOULD_BLOCK")
    fb = None
    for f in P.own_functions():
        if f.base == "buffered_socket.c" and f.calls("socket_read"):
            fb = f
    if fb is None or WB is None:
        raise AnalysisBroken("buffered_socket.c: the function that calls socket_read / BS_IO_WOULD_BLOCK not found")
    # in the socket-facing function: would-block is returned only under the errno test after a failed read
    okfb = True
    nwb = 0
    for v in Q.path_views(ctx, P, fb):
        if v.ret_const() == WB:
            nwb += 1
            failed = v.has_atom(lambda a, p: (a[0] == "cmp" and Q.is_call_to(a[2], "socket_read") and a[3] == ("const", -1) and Q._poleq(a, p)) or
                                Q.const_relation(a, p, lambda t: Q.is_call_to(t, "socket_read"), -1) is True)
            if not failed:
                okfb = False
    ctx.ob("C09.2 R-WHO", fb, "would-block-only-after-the-socket-said-so", okfb and nwb > 0,
           "%s reports 'would block' on a path on which socket_read() did not fail" % fb.srcname)
    n = 0
    for f in P.own_functions():
        if f.base != "buffered_socket.c" or f is fb or f.ret != fb.ret:
            continue
        if fb.name not in cg.reach(f.name):
            continue
        n += 1
        own_wb = []
        for i in f.all_insts():
            if i.op == "ret" and i.a:
                lv, _ = Q.leaves(P, f, i.a[0], through_loads=False)
                if ("const", WB) in lv:
                    own_wb.append(i)
        ctx.ob("C09.2 R-WHO", f, "would-block-is-forwarded-not-invented", not own_wb,
               "%s returns BS_IO_WOULD_BLOCK as a constant of its own instead of forwarding what %s reported: with edge-triggered "
               "epoll nothing wakes the connection again, queued bytes or the peer's FIN stay unread" % (f.srcname, fb.srcname))
    if n < 2:
        raise AnalysisBroken("reader functions on top of %s: %d" % (fb.srcname, n))


def clause_forward_verdict(ctx, P, cg):
    """a read callback that hands over to another read callback by calling it directly returns that callee's verdict: the
    verdict CLOSED is how the reading loop learns that the connection (and its buffer) is gone"""
    key = ("struct.buffered_socket", P.field_index("struct.buffered_socket", "read_callback"))
    cbs = set(cg.field_funcs.get(key, ()))
    # helpers that hand a callback's verdict on (return the result of a direct call to one on some path) carry a verdict themselves
    grew = True
    while grew:
        grew = False
        for g in P.own_functions():
            if g.name in cbs or g.ret != "i32":
                continue
            cs = [c for c in g.all_insts() if c.op == "call" and c.callee in cbs]
            if not cs:
                continue
            ids = {c.id for c in cs}
            for v in Q.path_views(ctx, P, g):
                ro = v.ret_operand()
                if ro is not None and isinstance(P.strip(g, ro), int) and P.strip(g, ro) in ids:
                    cbs.add(g.name)
                    grew = True
                    break
    n = 0
    for name in sorted(cbs):
        f = P.functions[name]
        direct = [c for c in f.all_insts() if c.op == "call" and c.callee in cbs]
        for c in direct:
            n += 1
            bad = None
            for v in Q.path_views(ctx, P, f):
                if not any(i.id == c.id for _, i in v.calls()):
                    continue
                ro = v.ret_operand()
                fwd = ro is not None and P.strip(f, ro) == c.id
                if not fwd:
                    # forwarded through a helper's return block: the leaves of the returned value are this call only
                    try:
                        lv, _ = Q.leaves(P, f, ro, through_loads=False) if ro is not None else (set(), None)
                    except AnalysisBroken:
                        lv = set()
                    fwd = bool(lv) and all(l[0] == "call" and l[3] == c.id for l in lv)
                if not fwd:
                    bad = v
            ctx.ob("C09.3 R-RET", f, Q.ordinal_site(f, c, P) + ":verdict-forwarded", bad is None,
                   "%s() calls the read callback %s() directly and does not return its verdict: after that callee closed the "
                   "connection the reading loop goes on with a released buffer and descriptor" % (f.srcname, P.srcname_of(c.callee)),
                   witness=bad.witness() if bad else None)
    if n < 1:
        raise AnalysisBroken("no read callback calls another one directly (anchor ws_get_mask -> ws_get_payload)")


def clause_readable_drains(ctx, P, cg):
    """edge-triggered readiness: the read callback of a connection reads on EVERY invocation - a readable event that is
    consumed without reading (because output is pending, say) is never repeated"""
    key = ("struct.io_event", P.field_index("struct.io_event", "read_function"))
    n = 0
    for name in sorted(cg.field_funcs.get(key, ())):
        f = P.functions[name]
        if f.base != "buffered_socket.c":
            continue
        n += 1
        bad = None
        for v in Q.path_views(ctx, P, f):
            reads = False
            for _, i in v.calls():
                for t in cg.targets(f, i):
                    if P.srcname_of(t) == "socket_read" or any(P.srcname_of(x) == "socket_read" for x in cg.reach(t)):
                        reads = True
            if not reads:
                bad = v
        ctx.ob("C09.2 R-GATE", f, "readable-event-always-reads", bad is None,
               "%s has a path that returns without reading from the socket: the edge-triggered readable event is used up, the bytes that "
               "caused it are processed only if something else arrives later" % f.srcname, witness=bad.witness() if bad else None)
    if n < 1:
        raise AnalysisBroken("buffered_socket.c: read callback of the io_event not found")


def clause_no_escape(ctx, P, cg):
    """a read callback gets a pointer into the connection's read buffer that is valid only until it returns (the buffer is
    compacted and refilled afterwards): the pointer is not stored into an object that outlives the call - bytes are copied"""
    key = ("struct.buffered_socket", P.field_index("struct.buffered_socket", "read_callback"))
    cbs = sorted(cg.field_funcs.get(key, ()))
    if len(cbs) < 8:
        raise AnalysisBroken("read callbacks discovered: %d" % len(cbs))
    for name in cbs:
        f = P.functions[name]
        if f.nparams < 2:
            continue
        esc = []
        for i in f.all_insts():
            if i.op != "store":
                continue
            dt = P.term(f, i.a[1])
            if dt[0] != "field":
                continue
            try:
                lv, _ = Q.leaves(P, f, i.a[0], through_loads=False)
            except AnalysisBroken:
                continue
            if ("param", 1, f.params[1]["name"]) in lv:
                esc.append((i, dt))
        ctx.ob("C09.3 R-OWN", f, "buffer-pointer-does-not-escape", not esc,
               "%s keeps a pointer into the read buffer in %s: the buffer is compacted / refilled before the next callback, so what "
               "the pointer refers to depends on how the stream was segmented" % (f.srcname, ", ".join(fmt_term(d) for _, d in esc[:2])))


def clause_message_is_read_only(ctx, P, cg):
    """what a message callback of the websocket (text/binary message or frame, ping, pong) gets is a window into the connection's
    read buffer: the bytes behind it belong to the next frame that the same read() delivered.  Own code behind these callback slots
    does not store through the message pointer at all (the only in-place change, unmasking, happens before, inside the window)"""
    slots = ("text_message_received", "text_frame_received", "binary_message_received", "binary_frame_received",
             "ping_received", "pong_received")
    n = 0
    bad = []
    for sl in slots:
        try:
            key = ("struct.websocket", P.field_index("struct.websocket", sl))
        except Exception:
            continue
        for name in sorted(cg.field_funcs.get(key, ())):
            f = P.functions.get(name)
            if f is None or not P.own(f) or f.nparams < 3:
                continue
            n += 1
            msg = ("param", 1, f.params[1]["name"])
            for i in f.all_insts():
                if i.op == "store":
                    try:
                        lv, _ = Q.leaves(P, f, i.a[1], through_loads=False)
                    except AnalysisBroken:
                        continue
                    if msg in lv:
                        bad.append((f, i))
    ctx.ob("C09.1 R-EFFECT", P.fn("websocket_peer.c:text_message_callback"), "message-window-is-not-written", not bad and n >= 2,
           ("%s() stores through its message pointer at %s: the window it was handed ends at its length - one byte further is the header "
            "of the next frame when two frames arrive in one read, so the outcome depends on how the stream was segmented" %
            (bad[0][0].srcname, bad[0][1].loc)) if bad else "%d callbacks behind the message slots, none writes through the message pointer" % n)


def clause_until_asks_for_one_byte(ctx, P):
    """the reader for 'up to a delimiter' cannot know how many bytes are missing - the very next byte may complete the line - so it
    asks the buffer for exactly one more byte; asking for more refuses a line that fits the buffer exactly (TOOMUCHDATA) or waits
    for bytes that never come, depending on where the reads happened to cut the stream"""
    f = P.fn("buffered_socket.c:internal_read_until")
    cs = f.calls("fill_buffer")
    if not cs:
        raise AnalysisBroken("internal_read_until: call of fill_buffer not found")
    bad = [c for c in cs if P.const_int(c.a[1]) != 1]
    ctx.ob("C09.2 R-BOUND", f, "until-reader-asks-for-one-byte", not bad,
           "internal_read_until() asks fill_buffer() for %s byte(s) at %s instead of 1: a line that ends at the last free byte of the read "
           "buffer is refused when its end arrives in a later read, and accepted when it arrives in one piece" %
           (fmt_term(P.term(f, bad[0].a[1])) if bad else "", bad[0].loc if bad else ""))


def run(ctx):
    for cfg in ctx.configs():
        P, cg = cfg.P, cfg.cg
        clause1_parse(ctx, P)
        clause1b_parser_bounds(ctx, P, cg)
        clause2_length(ctx, P, cg)
        clause3_state(ctx, P)
        clause4_cursor(ctx, P)
        clause_wouldblock_source(ctx, P, cg)
        clause_no_escape(ctx, P, cg)
        clause_readable_drains(ctx, P, cg)
        clause_forward_verdict(ctx, P, cg)
        clause_message_is_read_only(ctx, P, cg)
        clause_until_asks_for_one_byte(ctx, P)
