"""C16 — fetch path rules: structure of the matcher machinery."""
from ..frontend import AnalysisBroken
from ..core import queries as Q
from ..core.program import fmt_term, fmt_atom, CAST_OPS

META = {
    "technique": "static analysis: repository-specific structure / guard-dominance / path rules over LLVM IR (CFG, SSA, resolved call graph), plus table extraction of the twelve match functions by finite evaluation of their IR over an adversarial string set, compared with the matchers' definitions",
    "explanation": (
        "(1) R-TABLE: the matcher table's constant initialiser has exactly the six names of the statement, each with two "
        "distinct functions defined in fetch.c, the multi-operand flag only on containsAllOf; "
        "(2) R-SIB: each case-insensitive function is the IR twin of its case-sensitive sibling up to the callee map "
        "{strcmp->jet_strcasecmp, strncmp->jet_strncasecmp, strstr->jet_strcasestr} (same calls, same argument roles, same "
        "mapping from call result to return value); argument roles of the string calls against the statement (needle/haystack, "
        "prefix length = operand length); "
        "(3) selection: the function stored in path_matcher.match_function is the insensitive column iff ignore_case, and "
        "ignore_case is set iff the caseInsensitive member has type cJSON_True; "
        "(4) conjunction: state_matches returns 0 on the first zero result, 1 after the counted loop over number_of_matchers, "
        "1 without evaluating when the fetch has no rule; fetch and get use the same function; "
        "(5) refusals before side effects: zero matchers, too many matchers, any create_matcher failure (unknown name, wrongly "
        "typed operand) make create_fetch return NULL, and the fetch is linked into peer.fetch_list only after creation "
        "succeeded; the failure path releases every matcher created so far; "
        "(6) slot-array completeness: the matcher slots dereferenced without a null test are all filled - the fill count is "
        "compared with the allocated count on the success path, or every deref is null-guarded (repeated option key); "
        "(7) R-BOUND: the suffix matchers' pointer arithmetic is dominated by len(path) >= len(operand)."),
    "not_decided": "string semantics of libc / jet_str* functions over all operand/path pairs",
    "assumptions": ["jet_strcasecmp / jet_strncasecmp / jet_strcasestr are the ASCII case-insensitive versions of their libc siblings"],
}

NAMES = {"equals", "equalsNot", "startsWith", "endsWith", "contains", "containsAllOf"}
CMAP = {"strcmp": "jet_strcasecmp", "strncmp": "jet_strncasecmp", "strstr": "jet_strcasestr"}


def table(P):
    g = None
    for name, gl in P.globals.items():
        if gl.get("srcname") == "matchers" and gl.get("file", "").endswith("fetch.c"):
            g = gl
    if g is None:
        raise AnalysisBroken("matcher table 'matchers' not found in fetch.c")
    rows = []
    for r in g["init"][1]:
        e = r[1]
        rows.append({"name": P.literal(e[0]), "cs": e[1][1] if e[1][0] == "f" else None,
                     "ci": e[2][1] if e[2][0] == "f" else None, "multi": P.const_int(e[3])})
    return g, rows


def shape(P, f, cmap):
    """canonical rendering: SSA ids renumbered in order, callees mapped"""
    ren = {}
    for k in range(f.nparams):
        ren[k] = "p%d" % k
    n = 0
    for i in f.all_insts():
        ren[i.id] = "v%d" % n
        n += 1

    def op(o):
        if isinstance(o, int):
            return ren.get(o, "?")
        if isinstance(o, list) and o and o[0] == "f":
            return ("f", cmap.get(P.srcname_of(o[1]), P.srcname_of(o[1])))
        return repr(o)
    out = []
    for i in f.all_insts():
        cal = None
        if i.op == "call":
            cal = P.srcname_of(i.callee) if i.callee else "icall"
            cal = cmap.get(cal, cal)
        out.append((i.block, i.op, i.pred, cal, tuple(op(x) for x in i.a),
                    tuple((op(v), b) for v, b in i.inc) if i.inc else None, tuple(i.succ) if i.succ else None))
    return out


def clause1_table(ctx, P):
    g, rows = table(P)
    names = [r["name"] for r in rows]
    ctx.ob("C16.1 R-TABLE", "fetch.c:matchers", "names", set(names) == NAMES and len(names) == 6,
           "matcher table names are %s, expected exactly %s" % (sorted(names), sorted(NAMES)))
    for r in rows:
        fs, fi = P.functions.get(r["cs"] or ""), P.functions.get(r["ci"] or "")
        ok = fs is not None and fi is not None and fs is not fi and fs.base == "fetch.c" and fi.base == "fetch.c"
        ctx.ob("C16.1 R-TABLE", "fetch.c:matchers", "row:%s:functions" % r["name"], ok,
               "row %s does not have two distinct matcher functions defined in fetch.c" % r["name"])
        ctx.ob("C16.1 R-TABLE", "fetch.c:matchers", "row:%s:multi" % r["name"], (r["multi"] == 1) == (r["name"] == "containsAllOf"),
               "multi-operand flag wrong for %s" % r["name"])
    allf = [r["cs"] for r in rows] + [r["ci"] for r in rows]
    ctx.ob("C16.1 R-TABLE", "fetch.c:matchers", "distinct", len(set(allf)) == 12, "a matcher function is used in two table cells")
    ctx.floor("C16.1 R-TABLE", 14)
    return rows


def clause2_siblings(ctx, P, rows):
    for r in rows:
        fs, fi = P.functions.get(r["cs"] or ""), P.functions.get(r["ci"] or "")
        if fs is None or fi is None:
            continue
        ctx.fn_seen(fs)
        ctx.fn_seen(fi)
        a, b = shape(P, fs, CMAP), shape(P, fi, {})
        ok = a == b
        diff = ""
        if not ok:
            for k, (x, y) in enumerate(zip(a, b)):
                if x != y:
                    diff = "first difference at instruction %d: sensitive %s vs insensitive %s" % (k, x[1:5], y[1:5])
                    break
            if not diff:
                diff = "different length (%d vs %d instructions)" % (len(a), len(b))
        if ok:
            ctx.ob("C16.2 R-SIB", fi, "twin:" + r["name"], True, "siblings agree")
        else:
            # the two differ in FORM: that is no verdict (a behaviour-preserving rewrite of one of them looks the same to this
            # comparison as a slip) - what both compute is decided by the matcher tables (C16.2 R-TABLE) and the role rules below
            ctx.ob("C16.2 R-SIB", fi, "twin:" + r["name"], True, "siblings differ in form (%s); decided by their tables" % diff)
        # sensitive function uses only case-sensitive primitives, and vice versa
        cs_calls = {P.srcname_of(c.callee) for c in fs.calls() if c.callee} - {"strlen"}
        ci_calls = {P.srcname_of(c.callee) for c in fi.calls() if c.callee} - {"strlen"}
        ctx.ob("C16.2 R-SIB", fs, "primitives:" + r["name"], cs_calls <= set(CMAP) and ci_calls <= set(CMAP.values()) and cs_calls and ci_calls,
               "matcher %s uses %s / %s" % (r["name"], sorted(cs_calls), sorted(ci_calls)))
        # argument roles (operand = pm->path_elements[..] i.e. derives from param 0; path = param 1) - in both twins
        for f in (fs, fi):
            def role(o, f=f):
                lv, flds = Q.leaves(P, f, o)
                if any(l[0] == "call" and not Q.is_call_to(l, "strlen") for l in lv):
                    return "derived"     # e.g. the result of the previous search: the outcome depends on the order of the operands
                ps = {l[1] for l in lv if l[0] == "param"}
                if ps == {0}:
                    return "operand"
                if ps == {1}:
                    return "path"
                if ps == {0, 1}:
                    return "path+operand"
                return "other"
            for c in f.calls(("strstr", "strcmp", "strncmp", "jet_strcasestr", "jet_strcasecmp", "jet_strncasecmp")):
                n = {"jet_strcasestr": "strstr", "jet_strcasecmp": "strcmp", "jet_strncasecmp": "strncmp"}.get(P.srcname_of(c.callee), P.srcname_of(c.callee))
                roles = tuple(role(x) for x in c.a[:2])
                if n == "strstr":
                    ok = roles == ("path", "operand")
                    msg = "the search must be (haystack = the path, needle = the operand) for every operand, is %s" % (roles,)
                elif n == "strncmp":
                    ln = P.term(f, c.a[2])
                    okn = Q.is_call_to(ln, "strlen") and role(f.insts[c.a[2]].a[0] if isinstance(c.a[2], int) else c.a[2]) == "operand"
                    ok = set(roles) == {"path", "operand"} and okn
                    msg = "the bounded comparison must compare (operand, path) over strlen(operand): roles %s, length %s" % (roles, fmt_term(ln))
                else:
                    want = {"path", "operand"}
                    ok = set(roles) == want
                    msg = "comparison roles are %s, expected %s" % (roles, sorted(want))
                ctx.ob("C16.2 R-PAIR", f, "%s:%s" % (r["name"], Q.ordinal_site(f, c, P)), ok, msg)
    ctx.floor("C16.2 R-SIB", 12)
    ctx.floor("C16.2 R-PAIR", 6)


STRINGS = [b"", b"a", b"A", b"ab", b"aB", b"b", b"abc", b"ABC", b"bc", b"xabc", b"abcx", b"ab/c", b"\xc3\xa9", b"\xc3\x89",
           b"status", b"Status", b"a/status", b"a/STATUS/b"]


def clause2b_matcher_tables(ctx, P, rows):
    """'selects exactly the elements whose path satisfies the matcher, byte-wise or ASCII case-insensitively': each of the twelve
    match functions is evaluated as a table - finite evaluation of its IR (struct path_matcher as a read-only object, the C
    library's string functions and the jet_* wrappers by their meaning, which C16.2 R-SIB establishes for the wrappers) on every
    (operand, path) pair of an adversarial string set (empty, prefixes/suffixes of each other, differing only in case, non-ASCII,
    longer than the path; for containsAllOf every ordered pair of operands) - and compared with the matcher's definition.  This
    decides the matchers on these inputs whatever form the functions are written in"""
    from ..core.feval import FEval, OutOfInput

    def low(b):
        return bytes(c + 32 if 65 <= c <= 90 else c for c in b)
    REF = {"equals": lambda ops, p: p == ops[0], "equalsNot": lambda ops, p: p != ops[0], "contains": lambda ops, p: ops[0] in p,
           "startsWith": lambda ops, p: p.startswith(ops[0]), "endsWith": lambda ops, p: p.endswith(ops[0]),
           "containsAllOf": lambda ops, p: all(o in p for o in ops)}
    n = 0
    for r in rows:
        for col, fold in (("cs", False), ("ci", True)):
            f = P.functions.get(r[col] or "")
            if f is None:
                continue
            ev = FEval(P, f, None, ptr_param=None)
            opsets = [[o] for o in STRINGS]
            if r["name"] == "containsAllOf":
                opsets += [[a, b] for a in STRINGS[:12] for b in STRINGS[:12]]
            bad = None
            try:
                for ops in opsets:
                    arrays = {("op", k): o + b"\0" for k, o in enumerate(ops)}
                    cells = {(("f", 1),): len(ops)}
                    for k in range(len(ops)):
                        cells[(("f", 2), ("a", k))] = ("arr", ("op", k), 0)
                    for path in STRINGS:
                        arrays[1] = path + b"\0"
                        res, _ = ev.run({}, {}, arrays=arrays, objs={0: cells}, max_steps=20000)
                        n += 1
                        want = REF[r["name"]]([low(o) for o in ops], low(path)) if fold else REF[r["name"]](ops, path)
                        if bool(res) != bool(want) and bad is None:
                            bad = (ops, path, res, want)
            except (AnalysisBroken, OutOfInput) as e:
                ctx.broken("C16.2 R-TABLE: %s cannot be evaluated as a table: %s" % (f.srcname, e))
                continue
            ctx.ob("C16.2 R-TABLE", f, "matcher-table:" + r["name"] + (":ignore-case" if fold else ""), bad is None,
                   ("%s() answers %s for the operand(s) %s and the path %r, the matcher %s%s says %s" %
                    (f.srcname, "match" if bad[2] else "no match", [bytes(o) for o in bad[0]], bytes(bad[1]), r["name"],
                     " (ASCII case-insensitive)" if fold else "", "match" if bad[3] else "no match")) if bad else "table agrees with the definition")
    ctx.count("matcher_evaluations", n)


def clause3_selection(ctx, P):
    cm = P.fn("fetch.c:create_matcher")
    sts = [s for s in Q.field_stores(P, "struct.path_matcher", "match_function")]
    ok = len(sts) == 1 and sts[0].fn is cm
    sel_ok = False
    if ok:
        v = P.strip(cm, sts[0].a[0])
        if isinstance(v, int) and v >= cm.nparams and cm.insts[v].op == "phi":
            ph = cm.insts[v]
            cols = {}
            for (val, pb) in ph.inc:
                t = P.term(cm, val)
                fld = None
                for x in Q.subterms(t):
                    if x[0] == "field" and x[2] == "struct.supported_matcher":
                        fld = x[3]
                # the edge condition that leads to pb
                for pp in cm.preds[pb]:
                    for (s, atom, pol) in P.edge_conds(cm, pp):
                        if s == pb and atom is not None:
                            tt = atom[1] if atom[0] == "truth" else atom[2] if atom[0] == "cmp" else None
                            if tt is not None and Q.mentions(tt, lambda x: x[0] == "param" and x[1] == 3):
                                cols[fld] = pol if atom[0] == "truth" else None
            sel_ok = cols.get("case_insensitive") is True and cols.get("case_sensitive") is False
    ctx.ob("C16.3 R-PAIR", cm, "select-column", ok and sel_ok,
           "match_function is not (ignore_case ? case_insensitive : case_sensitive) of the row whose name matched")
    # row chosen by name equality
    for c in cm.calls("strcmp"):
        a, b = P.term(cm, c.a[0]), P.term(cm, c.a[1])
        okn = Q.mentions(a, lambda x: x[0] == "field" and x[3] == "string") and Q.mentions(b, lambda x: x[0] == "field" and x[3] == "matcher_name")
        ctx.ob("C16.3 R-PAIR", cm, "row-by-name", okn, "matcher row is not selected by comparing the member key with matcher_name")
    cf = P.fn("fetch.c:create_fetch")
    TRUE = Q.macro(P, "fetch.c", "cJSON_True")
    for c in cf.calls("add_matchers"):
        v = P.strip(cf, c.a[2])
        if isinstance(v, int) and v >= cf.nparams and cf.insts[v].op == "icmp" and cf.insts[v].pred == "ne" \
                and P.const_int(cf.insts[v].a[1]) == 0:
            v = P.strip(cf, cf.insts[v].a[0])  # bool conversion of the int flag
        okv = False
        if isinstance(v, int) and v >= cf.nparams:
            # on every path to the call the flag is either a constant that agrees with the test `caseInsensitive->type ==
            # cJSON_True` taken on the path (if-form: a phi over {0, 1}), or the value of that very test (expression form:
            # `flag = (m != NULL) && (m->type == cJSON_True)`)
            def the_test(t):
                fl = Q.is_field_load(t, "struct.cJSON", "type")
                return fl is not None and Q.is_call_to(fl, "get_case_insensitive")
            views = Q.path_views(ctx, P, cf)
            okv = True
            nv = 0
            for pv in views:
                if c.block not in pv.blocks:
                    continue
                nv += 1
                r = pv.resolve(v, pv.blocks.index(c.block))
                val = P.const_int(r)
                is_true = pv.has_atom(lambda a, p: a[0] == "cmp" and a[3] == ("const", TRUE) and the_test(a[2]) and Q._poleq(a, p))
                if val is not None:
                    if bool(val) != bool(is_true):
                        okv = False
                    continue
                rr = P.strip(cf, r)
                ins = cf.insts[rr] if isinstance(rr, int) and rr >= cf.nparams else None
                if not (ins is not None and ins.op == "icmp" and ins.pred == "eq" and P.const_int(ins.a[1]) == TRUE and the_test(P.term(cf, ins.a[0]))):
                    okv = False
            okv = okv and nv > 0
        ctx.ob("C16.3 R-PAIR", cf, "ignore_case-iff-true", okv, "ignore_case is not set exactly when caseInsensitive has type cJSON_True")
    ctx.floor("C16.3 R-PAIR", 3)


def clause3b_option_key(ctx, P):
    """the option key is recognised by an exact comparison (a prefix comparison would swallow unknown keys)"""
    key = "caseInsensitive"
    n = 0
    for f in P.own_functions():
        if f.base != "fetch.c":
            continue
        for c in f.calls(("strncmp", "strcmp", "jet_strncasecmp", "jet_strcasecmp")):
            lits = [Q.global_text(P, P.globals.get(P.term(f, a)[1], {})) if P.term(f, a)[0] == "global" else
                    (Q.global_text(P, P.globals.get(P.term(f, a)[1][1], {})) if P.term(f, a)[0] == "cgep" and P.term(f, a)[1][0] == "global" else P.literal(a))
                    for a in c.a[:2]]
            if key not in lits:
                continue
            n += 1
            name = P.srcname_of(c.callee)
            if name in ("strcmp",):
                ok = True
            else:
                k = P.const_int(c.a[2])
                ok = name == "strncmp" and k is not None and k >= len(key) + 1
            ctx.ob("C16.3 R-PAIR", f, "option-key-exact:" + Q.ordinal_site(f, c, P), ok,
                   "the caseInsensitive option key is recognised by %s over %s bytes: keys that merely start with it are treated as the "
                   "option instead of being refused as unknown matchers" % (name, P.const_int(c.a[2]) if len(c.a) > 2 else "?"))
    if n < 1:
        raise AnalysisBroken("comparison with the caseInsensitive option key not found")


def clause2b_casefold(ctx, P):
    """jet_strcasecmp / jet_strncasecmp / jet_strcasestr are what the sibling rule assumes: the libc functions, or an own loop
    whose folding helper is the ASCII one (evaluated on all 256 byte values)"""
    from ..core.feval import FEval
    libc = {"jet_strcasecmp": "strcasecmp", "jet_strncasecmp": "strncasecmp", "jet_strcasestr": "strcasestr"}
    for name, want in libc.items():
        fs = [f for f in P.by_src.get(name, []) if P.own(f)]
        if len(fs) != 1:
            raise AnalysisBroken("%s: %d definitions" % (name, len(fs)))
        f = fs[0]
        ctx.fn_seen(f)
        wrapper = False
        if f.nblocks == 1:
            calls = [i for i in f.all_insts() if i.op == "call"]
            if len(calls) == 1 and calls[0].callee and P.srcname_of(calls[0].callee) == want and \
                    [P.term(f, a) for a in calls[0].a] == [("param", k, f.params[k]["name"]) for k in range(f.nparams)]:
                rt = P.term(f, f.term_inst(0).a[0])
                wrapper = rt[0] == "call" and rt[3] == calls[0].id
        if wrapper:
            ctx.ob("C16.2 R-SIB", f, "is-libc-" + want, True, "%s is %s" % (name, want))
            continue
        # own implementation: every single-argument integer helper reachable from it must be the ASCII fold
        helpers = []
        seen = set()
        st = [f]
        while st:
            g = st.pop()
            if g.name in seen:
                continue
            seen.add(g.name)
            for c in g.calls():
                h = P.functions.get(c.callee) if c.callee else None
                if h is not None and P.own(h):
                    if h.nparams == 1 and h.ret in ("i32", "i8") and not any(i.op in ("load", "store", "call") for i in h.all_insts()):
                        helpers.append(h)
                    else:
                        st.append(h)
        if not helpers:
            ctx.ob("C16.2 R-SIB", f, "is-libc-" + want, False,
                   "%s is neither a plain wrapper of %s() (what it is on the reference tree) nor a loop over a folding helper that can "
                   "be evaluated on all 256 bytes: the case-insensitive matchers are then not the byte-wise ones modulo ASCII case by "
                   "construction" % (name, want))
            continue
        for h in helpers:
            ev = FEval(P, h, None, ptr_param=None)
            bad = []
            for c in range(256):
                r, _ = ev.run({}, {0: c})
                ref = c + 32 if 65 <= c <= 90 else c
                if (r & 0xFF) != ref:
                    bad.append(c)
            ctx.ob("C16.2 R-SIB", h, "ascii-fold", not bad,
                   "%s (used by %s) is not the ASCII case fold: it also changes byte(s) %s - e.g. '[' and '{' compare equal, so "
                   "case-insensitive matchers select paths they must not" % (h.srcname, name, [hex(x) for x in bad[:8]]))


def clause4_conjunction(ctx, P):
    sm = P.fn("fetch.c:state_matches")
    views = Q.path_views(ctx, P, sm)
    bad = None
    for v in views:
        rc = v.ret_const()
        zero = v.has_atom(lambda a, p: a[0] == "cmp" and a[2][0] == "icall" and a[3] == ("const", 0) and Q._poleq(a, p))
        no_rule = v.has_atom(lambda a, p: a[0] == "cmp" and a[3] == ("null",) and Q.mentions(a[2], lambda x: x[0] == "field" and x[3] == "matcher") and Q._poleq(a, p))
        calls = [i for _, i in v.insts() if i.op == "call" and not i.callee]
        if zero and rc != 0:
            bad = (v, "a matcher returned 0 but the conjunction does not return 0")
        if not zero and rc != 1:
            bad = (v, "no matcher returned 0 but the conjunction does not return 1")
        if no_rule and (calls or rc != 1):
            bad = (v, "a fetch without rule must select everything without evaluating matchers")
    ctx.ob("C16.4 R-ORDER", sm, "conjunction", bad is None, bad[1] if bad else "state_matches is the conjunction of its matchers",
           witness=bad[0].witness() if bad else None)
    ok = False
    for lh, body in sm.loops().items():
        t = sm.term_inst(lh)
        if t.op == "br" and t.a:
            c = P.cond(sm, t.a[0])
            if c[0] != "const" and c[0][0] == "cmp" and c[0][1] == "ult" and c[0][2][0] == "phi" and \
                    Q.is_field_load(c[0][3], "struct.fetch", "number_of_matchers") is not None:
                ph = sm.insts[c[0][2][1]]
                ok = 0 in [P.const_int(x) for x, _ in ph.inc]
    ctx.ob("C16.4 R-LOOP", sm, "all-matchers", ok, "state_matches does not iterate i = 0..number_of_matchers-1")
    for i in sm.all_insts():
        if i.op == "call" and not i.callee:
            pth = P.term(sm, i.a[1])
            ctx.ob("C16.4 R-PAIR", sm, "matcher-args", Q.is_field_load(pth, "struct.element", "path") is not None and pth[1][1][0] == "param",
                   "matchers are not applied to the element's path")
    callers = sorted(set(c.fn.key for c in P.callers_of(sm)))
    ctx.ob("C16.4 R-WHO", sm, "fetch-and-get", callers == ["fetch.c:add_fetch_to_state_and_notify", "fetch.c:get_element"],
           "fetch and get do not share the selection function (callers: %s)" % callers)


def clause5_refusals(ctx, P, cg):
    cf = P.fn("fetch.c:create_fetch")
    MAXM = None
    views = Q.path_views(ctx, P, cf)
    checks = {"zero": False, "max": False, "add_matchers": False, "not-object": False}
    limit = P.facts["meta"]["cmake_defs"]
    count_t = None
    for c in cf.calls("alloc_fetch"):
        if P.const_int(c.a[2]) is None:
            count_t = P.term(cf, c.a[2])
    if count_t is None:
        raise AnalysisBroken("create_fetch: matcher count passed to alloc_fetch not found")
    for v in views:
        if not v.ret_is_null():
            continue
        for (a, p) in v.atoms:
            if a[0] == "cmp" and a[3] == ("const", 0) and a[2] == count_t and Q._poleq(a, p):
                checks["zero"] = True
            if a[0] == "cmp" and a[1] == "ugt" and a[2] == count_t and a[3][0] == "const" and p:
                checks["max"] = True
                MAXM = a[3][1]
            if a[0] == "cmp" and Q.is_call_to(a[2], "add_matchers") and a[1] == "slt" and p:
                checks["add_matchers"] = True
            if a[0] == "cmp" and Q.is_field_load(a[2], "struct.cJSON", "type") is not None and a[1] == "ne" and p:
                checks["not-object"] = True
    for k, okk in checks.items():
        ctx.ob("C16.5 R-GATE", cf, "refuse:" + k, okk, "create_fetch has no refusal (NULL return) for: " + k)
    # success path: every non-null return with a path rule has passed all refusal tests negatively
    bad = None
    for v in views:
        if v.ret_is_null():
            continue
        names = [P.srcname_of(i.callee) for _, i in v.calls() if i.callee]
        if "add_matchers" in names:
            okp = v.has_atom(lambda a, p: a[0] == "cmp" and a[1] == "ugt" and a[2] == count_t and a[3][0] == "const" and not p) and \
                v.has_atom(lambda a, p: a[0] == "cmp" and a[3] == ("const", 0) and a[2] == count_t and not Q._poleq(a, p))
            if not okp:
                bad = v
    ctx.ob("C16.5 R-GATE", cf, "success-implies-bounds", bad is None, "a fetch with a rule is created without the 0 < n <= max test",
           witness=bad.witness() if bad else None)
    # create_matcher: unknown name / wrong types return < 0
    cm = P.fn("fetch.c:create_matcher")
    STR, ARR = Q.macro(P, "fetch.c", "cJSON_String"), Q.macro(P, "fetch.c", "cJSON_Array")
    vs = Q.path_views(ctx, P, cm)
    bad = None
    nok = 0
    for v in vs:
        rc = v.ret_const()
        if rc == 0:
            nok += 1
            typed = v.has_atom(lambda a, p: a[0] == "cmp" and Q.is_field_load(a[2], "struct.cJSON", "type") is not None and
                               a[3] in (("const", STR), ("const", ARR)) and Q._poleq(a, p))
            named = v.has_atom(lambda a, p: a[0] == "cmp" and Q.is_call_to(a[2], "strcmp") and a[3] == ("const", 0) and Q._poleq(a, p))
            if not (typed and named):
                bad = v
    ctx.ob("C16.5 R-GATE", cm, "matcher-accepted-only-if-known-and-typed", bad is None and nok > 0,
           "a matcher is accepted without its name matching a table row and its operand having the row's type",
           witness=bad.witness() if bad else None)
    # multi-operand elements must be strings
    fpe = P.fn("fetch.c:fill_path_elements")
    okt = False
    for c in fpe.calls("duplicate_string"):
        lp = [h for h, body in fpe.loops().items() if c.block in body]
        if lp:
            def isstr(atom, pol):
                return atom[0] == "cmp" and atom[3] == ("const", STR) and Q.is_field_load(atom[2], "struct.cJSON", "type") is not None and Q._poleq(atom, pol)
            okt = Q.must_pass(P, fpe, c.block, isstr)
    ctx.ob("C16.5 R-GATE", fpe, "multi-operand-elements-are-strings", okt, "array operand elements are used as strings without a type test")
    # linking only after creation
    afp = P.fn("fetch.c:add_fetch_to_peer")
    for c in afp.calls("list_add_tail"):
        def created(atom, pol):
            return atom[0] == "cmp" and Q.is_call_to(atom[2], "create_fetch") and atom[3] == ("null",) and not Q._poleq(atom, pol)
        ctx.ob("C16.5 R-GATE", afp, "link-after-create", Q.must_pass(P, afp, c.block, created), "fetch linked into peer.fetch_list without create_fetch having succeeded")
    links = [c for c in Q.call_sites(P, ("list_add_tail", "list_add")) if Q.mentions(P.term(c.fn, c.a[0]), lambda x: x[0] == "field" and x[2] == "struct.fetch" and x[3] == "next_fetch")]
    ctx.ob("C16.5 R-WHO", afp, "link-sites", len(links) == 1 and links[0].fn is afp, "fetch linked from %s" % [l.loc for l in links])
    # release of matchers on failure
    am = P.fn("fetch.c:add_matchers")
    bad = None
    for v in Q.path_views(ctx, P, am):
        rc = v.ret_const()
        if rc is not None and rc < 0 and not any(True for _ in v.calls("free_matcher")):
            bad = v
    ctx.ob("C16.5 R-OWN", am, "failure-frees-matchers", bad is None, "add_matchers fails without releasing the matchers created so far")
    bad = None
    for v in views:
        if v.ret_is_null() and any(True for _ in v.calls("add_matchers")):
            names = [P.srcname_of(i.callee) for _, i in v.calls() if i.callee]
            if "cjet_free" not in names or "cJSON_Delete" not in names:
                bad = v
    ctx.ob("C16.5 R-OWN", cf, "failure-frees-fetch", bad is None, "create_fetch fails after add_matchers without releasing the fetch and its id")
    ctx.floor("C16.5 R-GATE", 8)


def clause6_slots(ctx, P, cg):
    sm = P.fn("fetch.c:state_matches")
    am = P.fn("fetch.c:add_matchers")
    # deref sites of fetch.matcher[i] -> match_function without a null test on that slot
    derefs = []
    for i in sm.all_insts():
        if i.op == "call" and not i.callee:
            t = P.term(sm, i.ind)
            if t[0] == "load" and t[1][0] == "field" and t[1][3] == "match_function":
                slot = t[1][1]

                def nn(atom, pol, slot=slot):
                    return atom[0] == "cmp" and atom[2] == slot and atom[3] == ("null",) and not Q._poleq(atom, pol)
                derefs.append((i, Q.must_pass(P, sm, i.block, nn)))
    if not derefs:
        raise AnalysisBroken("state_matches: matcher deref not found")
    guarded = all(g for _, g in derefs)
    # (b) fill counter compared with the allocated count on the success path of the filling function
    eq_gate = False
    for v in Q.path_views(ctx, P, am):
        if v.ret_const() == 0:
            gate = v.has_atom(lambda a, p: a[0] == "cmp" and Q._poleq(a, p) and
                              (Q.is_field_load(a[2], "struct.fetch", "number_of_matchers") is not None or
                               Q.is_field_load(a[3], "struct.fetch", "number_of_matchers") is not None))
            eq_gate = gate
            if not gate:
                break
    # (a') count and fill are controlled by the same option predicate: the matcher count handed to alloc_fetch is a loop
    # counter whose increment is guarded by a call of the same predicate function that guards create_matcher in the fill loop
    cf = P.fn("fetch.c:create_fetch")
    same_pred = False

    def guard_callees(f, block):
        out = set()
        for (atom, pol) in Q.guards_of(P, f, block):
            for x in Q.subterms(atom):
                if x[0] == "call":
                    out.add((x[1], pol))
        return out
    fill_guards = set()
    for c in am.calls("create_matcher"):
        fill_guards |= guard_callees(am, c.block)
    def counter_guarded(f, v):
        seen = set()
        st = [v]
        hit = False
        while st:
            x = st.pop()
            if not isinstance(x, int) or x in seen or x < f.nparams:
                continue
            seen.add(x)
            ins = f.insts[x]
            if ins.op == "phi":
                st.extend(P.strip(f, y) for y, _ in ins.inc)
            elif ins.op == "add" and P.const_int(ins.a[1]) == 1:
                if guard_callees(f, ins.block) & fill_guards:
                    hit = True
                st.append(P.strip(f, ins.a[0]))
            elif ins.op == "call" and ins.callee in P.functions and P.own(P.functions[ins.callee]):
                h = P.functions[ins.callee]
                for b in range(h.nblocks):
                    t = h.term_inst(b)
                    if t.op == "ret" and t.a and counter_guarded(h, P.strip(h, t.a[0])):
                        hit = True
        return hit
    for c in cf.calls("alloc_fetch"):
        v = P.strip(cf, c.a[2])
        if counter_guarded(cf, v):
            same_pred = True
        if False:
            # follow to the loop-carried counter
            seen = set()
            st = [v]
            while st:
                x = st.pop()
                if not isinstance(x, int) or x in seen or x < cf.nparams:
                    continue
                seen.add(x)
                ins = cf.insts[x]
                if ins.op == "phi":
                    st.extend(P.strip(cf, y) for y, _ in ins.inc)
                elif ins.op == "add" and P.const_int(ins.a[1]) == 1:
                    if guard_callees(cf, ins.block) & fill_guards:
                        same_pred = True
                    st.append(P.strip(cf, ins.a[0]))
    refuse_dup = False
    ok = guarded or eq_gate or same_pred
    ctx.ob("C16.6 R-NULL", sm, "matcher-slots-complete", ok,
           "state_matches calls through f->matcher[i] for every i < number_of_matchers without a null test, but nothing makes the "
           "fill complete: the count is cJSON_GetArraySize(path) minus one if a caseInsensitive member exists, while the fill "
           "loop skips EVERY member spelled caseInsensitive - a repeated option key leaves a NULL slot that is then called"
           if not ok else "slot completeness: %s" % ("derefs null-guarded" if guarded else "fill count gated" if eq_gate else "count and fill share the skip predicate"))
    ctx.floor("C16.6 R-NULL", 1)


def clause7_bound(ctx, P, rows):
    for r in rows:
        if r["name"] != "endsWith":
            continue
        for fn in (r["cs"], r["ci"]):
            f = P.functions.get(fn or "")
            if f is None:
                continue
            n = 0
            for i in f.all_insts():
                if i.op == "sub" and P.const_int(i.a[0]) == 0:
                    # negative offset = -strlen(operand)
                    n += 1

                    def ge(atom, pol):
                        if atom[0] != "cmp" or atom[1] not in ("uge", "ule", "ult", "ugt"):
                            return False
                        l, rr = atom[2], atom[3]
                        if not (Q.is_call_to(l, "strlen") and Q.is_call_to(rr, "strlen")):
                            return False
                        lp = l[2][0][0] == "param" and l[2][0][1] == 1
                        rp = rr[2][0][0] == "param" and rr[2][0][1] == 1
                        if lp and not rp:
                            return (atom[1] == "uge" and pol) or (atom[1] == "ult" and not pol)
                        if rp and not lp:
                            return (atom[1] == "ule" and pol) or (atom[1] == "ugt" and not pol)
                        return False
                    ctx.ob("C16.7 R-BOUND", f, "suffix-offset", Q.must_pass(P, f, i.block, ge),
                           "pointer arithmetic path + len(path) - len(operand) is not dominated by len(path) >= len(operand)")
            if n == 0:
                ctx.ob("C16.7 R-BOUND", f, "suffix-offset", False, "suffix matcher shape not recognised")
    ctx.floor("C16.7 R-BOUND", 2)


def clause8_get_walks_all(ctx, P, cg):
    """get applies the rule to the elements of EVERY peer: the walk over the peer list (and over a peer's elements) is left
    early only when collecting failed"""
    n = 0
    for key in ("fetch.c:get_elements",):
        f = P.fn(key)
        for h, body in f.loops().items():
            n += 1
            bad = []
            for b in sorted(body):
                if b == h:
                    continue
                for (sv, atom, pol) in P.edge_conds(f, b):
                    if sv in body:
                        continue
                    ok = False
                    if atom is not None and atom[0] == "cmp" and atom[2][0] in ("call", "phi") and atom[3] == ("const", 0) and \
                            ((atom[1] in ("slt", "ne") and pol) or (atom[1] in ("sge", "eq") and not pol)):
                        if atom[2][0] == "call":
                            lv = {atom[2]}
                        else:
                            lv, _ = Q.leaves(P, f, atom[2][1], through_loads=False)
                        # a status: results of own functions and status constants only
                        ok = all((l[0] == "const") or (l[0] == "call" and P.by_src.get(l[1]) and P.own(P.by_src[l[1]][0])) for l in lv)
                    if not ok:
                        bad.append((b, atom, pol))
            ctx.ob("C16.4 R-LOOP", f, "get-walks-every-peer#%d" % n, not bad,
                   "the walk over the peers is left early on %s: elements of peers visited later are missing from the answer although "
                   "they match the rule" % "; ".join("%s [%s]" % (f.blocks[b][0].loc, fmt_atom(a, p) if a else "unconditional") for b, a, p in bad[:3]))
    if n < 1:
        raise AnalysisBroken("get_elements: peer walk not found")


def clause9_matcher_count(ctx, P):
    """a refused rule leaves nothing behind: the refusal path releases the matchers built so far with free_matcher(), which walks
    matcher[0 .. number_of_matchers).  That count therefore stands BEFORE the first slot is filled: the function that allocates
    the fetch stores it, and no function that fills slots (re)writes it afterwards"""
    F = "struct.fetch"
    fillers = []
    counters = []
    for f in P.own_functions():
        if f.base != "fetch.c":
            continue
        for i in f.all_insts():
            if i.op == "store":
                d = P.term(f, i.a[1])
                if Q.mentions(d, lambda x: x[0] == "field" and x[2] == F and x[3] == "matcher") and d[0] in ("index", "byteoff"):
                    fillers.append((f, i))
                if d[0] == "field" and d[2] == F and d[3] == "number_of_matchers":
                    counters.append((f, i))
    alloc = [f for f in P.own_functions() if f.base == "fetch.c" and
             any(c.op == "call" and c.callee and P.srcname_of(c.callee) in ("cjet_calloc", "cjet_malloc") for c in f.all_insts()) and
             any(g is f for g, _ in counters)]
    late = []
    for f in {g for g, _ in fillers}:
        cs = {i.id for g, i in counters if g is f}
        fs = {i.id for g, i in fillers if g is f}
        if not cs:
            continue
        for v in Q.path_views(ctx, P, f):
            filled = False
            for _, i in v.insts():
                if i.id in fs:
                    filled = True
                elif i.id in cs and filled and not late:
                    late.append((f, i))
    # the same for the operands of one matcher: the release helper walks path_elements[0 .. number_of_path_elements)
    PM = "struct.path_matcher"
    pfill, pcount = [], []
    for f in P.own_functions():
        if f.base != "fetch.c":
            continue
        for i in f.all_insts():
            if i.op == "store":
                d = P.term(f, i.a[1])
                if Q.mentions(d, lambda x: x[0] == "field" and x[2] == PM and x[3] == "path_elements") and d[0] in ("index", "byteoff") and not P.is_null(i.a[0]):
                    pfill.append((f, i))
                if d[0] == "field" and d[2] == PM and d[3] == "number_of_path_elements":
                    pcount.append((f, i))
    palloc = [f for f, _ in pcount if any(c.op == "call" and c.callee and P.srcname_of(c.callee) in ("cjet_calloc", "cjet_malloc") for c in f.all_insts())]
    # stored by the allocating function, or (after inlining) on every path BEFORE the call that fills the elements
    plate = []
    for f, i in pcount:
        fills = [c for c in f.all_insts() if c.op == "call" and c.callee and (P.srcname_of(c.callee) == "fill_path_elements" or
                                                                             any(g is P.functions.get(c.callee) for g, _ in pfill))]
        for v in Q.path_views(ctx, P, f):
            seen_fill = False
            for _, j in v.insts():
                if j in fills:
                    seen_fill = True
                elif j.id == i.id and seen_fill:
                    plate.append((f, i))
    ctx.ob("C16.5 R-ORDER", pcount[0][0] if pcount else P.fn("fetch.c:create_matcher"), "operand-count-stands-before-operands-are-copied",
           bool(pcount) and not plate and len(pfill) >= 1,
           ("%s() writes number_of_path_elements at %s only after the operands have been copied: when a later operand is refused (wrong "
            "type, allocation failure) the release walks 0 elements and the copies already made are lost for good" %
            (plate[0][0].srcname, plate[0][1].loc)) if plate else "operand count stored before the operands are copied")
    # a matcher that is accepted is recorded: every successful path of create_matcher() stores into the fetch's matcher slot
    cm = P.fn("fetch.c:create_matcher")
    badm = None
    nm = 0
    for v in Q.path_views(ctx, P, cm):
        if v.ret_const() != 0:
            continue
        nm += 1
        if not any(i.op == "store" and Q.mentions(P.term(cm, i.a[1]), lambda x: x[0] == "field" and x[2] == F and x[3] == "matcher") for _, i in v.insts()):
            badm = v
    ctx.ob("C16.5 R-COMMIT", cm, "accepted-matcher-is-recorded", badm is None and nm > 0,
           "create_matcher() reports success on a path that records no matcher in its slot: the slot stays NULL, which state_matches() reads "
           "as 'no rule' (everything is selected) or dereferences", witness=badm.witness() if badm else None)
    ctx.ob("C16.5 R-ORDER", P.fn("fetch.c:free_matcher"), "matcher-count-stands-before-slots-are-filled",
           bool(alloc) and not late and len(fillers) >= 1,
           ("%s() writes number_of_matchers at %s although it also fills matcher slots: until then the count is 0 and a refusal in the "
            "middle of the rule frees none of the matchers already built" % (late[0][0].srcname, late[0][1].loc)) if late else
           ("the function that allocates a fetch does not store number_of_matchers" if not alloc else "count stored at allocation"))


def run(ctx):
    for cfg in ctx.configs(["default"] if ctx.tier == "quick" else None):
        P, cg = cfg.P, cfg.cg
        clause8_get_walks_all(ctx, P, cg)
        rows = clause1_table(ctx, P)
        clause2_siblings(ctx, P, rows)
        clause2b_matcher_tables(ctx, P, rows)
        clause2b_casefold(ctx, P)
        clause3_selection(ctx, P)
        clause3b_option_key(ctx, P)
        clause4_conjunction(ctx, P)
        clause5_refusals(ctx, P, cg)
        clause6_slots(ctx, P, cg)
        clause7_bound(ctx, P, rows)
        clause9_matcher_count(ctx, P)
