"""C03 — routed set/call: life cycle of a routing entry."""
from ..frontend import AnalysisBroken
from ..core import queries as Q
from ..core.program import fmt_term, fmt_atom

META = {
    "technique": "static analysis: repository-specific dataflow / guard-dominance / path rules over LLVM IR (CFG, SSA, resolved call graph); one rule compares configuration constants read from the units' macro tables and the generated headers",
    "explanation": (
        "Typestate of struct routing_request (allocated -> registered in the owner's table with armed timer -> completed): "
        "(1) R-OWN: every successful removal from a routing table that yields the entry reaches a completion (free of the "
        "entry, directly or via clear_routing_entry) on every path - no entry is popped and dropped; "
        "(2) R-SIB: every completion function (discovered: functions that free a routing_request after registration) on every "
        "path has the entry out of the table, stops the timer (or is the expiry), destroys the timer, answers at most once and "
        "only under origin_request_id != NULL, deletes the id copy, frees the entry; "
        "(3) R-COMMIT: in set_or_call, after setup_routing_information succeeded no path returns an error response or frees the "
        "entry without unregistering it; before registration every failure path frees the entry exactly once; "
        "(4) R-SELF/dataflow: the routed message is sent to e->peer of the element looked up by the request's path; the entry "
        "is registered in e->peer's table and records e->peer as owner; the reply is looked up only in the replying peer's own "
        "table; the expiry removes from request->owner_peer's table; "
        "(5) payload relayed as a recursive cJSON_Duplicate of the caller's value/args resp. the owner's result/error member; "
        "(6) the routed id embeds a global counter that is incremented on every path of the id-filling function."),
    "not_decided": "timing (before the deadline: C14); JSON content equality beyond the copy provenance; hash-table behaviour (C17)",
    "assumptions": ["HASHTABLE_REMOVE returns HASHTABLE_SUCCESS iff it removed the key and filled the value out-parameter"],
}


def _rm_calls(f):
    return f.calls("hashtable_remove_route_table")


def _is_success_atom(P, a, p, call_id, succ):
    if a[0] != "cmp" or a[2][0] != "call" or a[2][3] != call_id or a[3] != ("const", succ):
        return None
    return Q._poleq(a, p)


def _frees_request(P, f, i):
    """call frees a routing_request: cjet_free(x) with x of that type, or clear_routing_entry(...)"""
    if i.op != "call" or not i.callee:
        return False
    n = P.srcname_of(i.callee)
    if n == "clear_routing_entry":
        return True
    if n == "cjet_free":
        o = i.a[0]
        src = P.strip(f, o)
        if isinstance(src, int):
            ty = f.params[src]["ty"] if src < f.nparams else f.insts[src].ty
            if ty == "%struct.routing_request*":
                return True
            # an i8* (context parameter, or loaded from val.vals[0]) that is also used as a routing_request*
            for u in f.users(src):
                if u.op == "bitcast" and u.ty == "%struct.routing_request*":
                    return True
    return False


def clause1_pop(ctx, P):
    succ = Q.macro(P, "router.c", "HASHTABLE_SUCCESS")
    n = 0
    for f in P.own_functions():
        for rm in _rm_calls(f):
            val = rm.a[2] if len(rm.a) > 2 else None
            if val is None or P.is_null(val):
                continue
            n += 1
            views = Q.path_views(ctx, P, f)
            bad = None
            cnt = 0
            for v in views:
                if rm.block not in v.blocks:
                    continue
                # walk the path: a pop becomes 'pending' when the success edge of the removal is taken and must be
                # completed before the next pop or the end of the path
                pending = False
                for (b, a, p) in v.path:
                    if a is not None:
                        sres = _is_success_atom(P, a, p, rm.id, succ)
                        if sres is True:
                            if pending:
                                bad = v
                            pending = True
                            cnt += 1
                    for i in f.blocks[b]:
                        if pending and _frees_request(P, f, i):
                            pending = False
                if pending:
                    bad = v
                if bad is not None:
                    break
            ctx.ob("C03.1 R-OWN", f, Q.ordinal_site(f, rm, P), bad is None and cnt > 0,
                   "a routing entry is removed from the table and then neither completed nor freed on this path: the caller never "
                   "gets the owner's answer (only a timeout), and the outcome depends on a third peer's disconnect" if bad else
                   "popped entry is completed on all %d success path(s)" % cnt, witness=bad.witness() if bad else None)
    # the reply handler POPS the entry it found before doing anything that can fail: a reply that is only looked up leaves the
    # request registered (with its timer already stopped) whenever the handler bails out
    hrr = P.fn("router.c:handle_routing_response")
    pops = [rm for rm in _rm_calls(hrr) if len(rm.a) > 2 and not P.is_null(rm.a[2])]
    gets = hrr.calls("hashtable_get_route_table")
    ctx.ob("C03.1 R-OWN", hrr, "reply-pops-the-entry", bool(pops) and not gets,
           "handle_routing_response() %s: if it returns early (reply cannot be copied) the request stays in the owner's table with a "
           "disarmed timer - no answer by the deadline, and a repeated reply is forwarded later" %
           ("looks the entry up with hashtable_get instead of removing it" if gets else "does not remove the entry with a value-yielding remove"))
    # the caller-gone sweep touches only entries of the leaving peer
    sw = P.fn("router.c:remove_peer_from_routing_table")
    for c in sw.calls(("hashtable_remove_route_table", "clear_routing_entry")):
        def leaver(atom, pol):
            if atom[0] != "cmp":
                return False
            for (x, y) in ((atom[2], atom[3]), (atom[3], atom[2])):
                if Q.is_field_load(x, "struct.routing_request", "requesting_peer") is not None and y[0] == "param" and y[1] == 1:
                    return Q._poleq(atom, pol)
            return False
        ctx.ob("C03.1 R-GATE", sw, Q.ordinal_site(sw, c, P) + ":only-leaver", Q.must_pass(P, sw, c.block, leaver),
               "when a peer leaves, %s is applied to routing entries of OTHER callers as well: a third peer's disconnect decides the "
               "outcome of their requests" % P.srcname_of(c.callee))
    # both sweeps walk the whole table unconditionally: every path through the function passes the loop header
    for key in ("router.c:remove_peer_from_routing_table", "router.c:remove_routing_info_from_peer"):
        g = P.fn(key)
        loops = g.loops()
        ok = len(loops) == 1
        if ok:
            (h, body), = loops.items()
            dom = g.dominators()
            exits = [b for b in range(g.nblocks) if g.term_inst(b).op == "ret"]
            ok = all(h in dom[b] for b in exits)
            t = g.term_inst(h)
            cnd = P.cond(g, t.a[0]) if t.op == "br" and t.a else None
            ok = ok and cnd is not None and cnd[0] != "const" and cnd[0][0] == "cmp" and cnd[0][1] == "ult" and cnd[0][2][0] == "phi" and cnd[0][3][0] == "const"
        ctx.ob("C03.1 R-LOOP", g, "sweep-is-unconditional", ok,
               "%s can return without walking every slot of the routing table (an early exit leaves entries of a leaving peer behind, "
               "to be answered later through a dangling peer pointer)" % g.srcname)
    # inside the walk, the only conditions between the loop header and the removal are "the slot is occupied" and (for the
    # sweep on behalf of a leaving requester) "the entry belongs to the leaver": anything else skips occupied slots
    for key in ("router.c:remove_peer_from_routing_table", "router.c:remove_routing_info_from_peer"):
        g = P.fn(key)
        loops = g.loops()
        if len(loops) != 1:
            continue
        (h, body), = loops.items()
        for c in g.calls("hashtable_remove_route_table"):
            if c.block not in body:
                continue
            extra = []
            for (atom, pol) in Q.guards_of(P, g, c.block):
                if atom[0] == "cmp" and atom[2][0] == "phi" and atom[1] in ("ult", "uge"):
                    continue   # the loop condition
                if atom[0] == "cmp" and Q.mentions(atom, lambda x: x[0] == "field" and x[2] == "struct.hashtable_string" and x[3] == "key") and \
                        ("const", -1) in (atom[2], atom[3]) or (atom[0] == "cmp" and ("null",) in (atom[2], atom[3]) and
                                                                Q.mentions(atom, lambda x: x[0] == "field" and x[3] == "key")):
                    continue   # slot occupied
                if atom[0] == "cmp" and Q.mentions(atom, lambda x: x[0] == "field" and x[2] == "struct.routing_request" and x[3] == "requesting_peer"):
                    continue   # entry of the leaver
                extra.append((atom, pol))
            ctx.ob("C03.1 R-LOOP", g, Q.ordinal_site(g, c, P) + ":visits-every-occupied-slot", not extra,
                   "the walk over the routing table skips occupied slots: the removal is additionally guarded by %s (the hop word "
                   "belongs to the HOME bucket of a key, not to the slot that stores it)" % "; ".join(fmt_atom(a, p) for a, p in extra[:3]))
    if n < 2:
        raise AnalysisBroken("expected >= 2 value-yielding removals from the routing table, found %d" % n)
    ctx.floor("C03.1 R-OWN", 3)   # two sweeps/handlers with a value-yielding remove + the reply-pops obligation


def _completion_functions(P):
    out = []
    for f in P.own_functions():
        if f.base != "router.c":
            continue
        if any(_frees_request(P, f, i) and P.srcname_of(i.callee) == "cjet_free" for i in f.all_insts()):
            if f.srcname == "alloc_routing_request":
                continue
            out.append(f)
    return out


def clause2_siblings(ctx, P, cg):
    comps = _completion_functions(P)
    names = sorted(f.srcname for f in comps)
    if len(comps) < 3:
        raise AnalysisBroken("completion functions discovered: %s (expected >= 3)" % names)
    ctx.note("completion functions: %s" % names)
    succ = Q.macro(P, "router.c", "HASHTABLE_SUCCESS")
    for f in comps:
        views = Q.path_views(ctx, P, f)
        is_expiry = f.name in cg.field_funcs.get(("struct.cjet_timer", P.field_index("struct.cjet_timer", "handler")), set())
        takes_val = any(p["ty"] == "%struct.value_route_table*" for p in f.params)
        res = {"table": None, "stop": None, "destroy": None, "answer": None, "id": None}
        nfree = 0
        for v in views:
            frees = [k for k, i in v.insts() if _frees_request(P, f, i)]
            if not frees:
                continue
            nfree += 1
            fk = frees[0]
            calls = [(k, i) for k, i in v.insts() if i.op == "call"]
            names_before = [(k, P.srcname_of(i.callee) if i.callee else None, i) for k, i in calls if k < fk]
            # (a) out of table
            a_ok = takes_val or any(n == "hashtable_remove_route_table" for _, n, _ in names_before)
            # (b) timer stopped
            b_ok = is_expiry or any((not i.callee) and P.term(f, i.ind)[0] == "load" and P.term(f, i.ind)[1][0] == "field"
                                    and P.term(f, i.ind)[1][3] == "cancel" for _, n, i in names_before)
            # (c) destroyed
            c_ok = any(n == "cjet_timer_destroy" for _, n, _ in names_before)
            # (d) answers
            sends = [i for _, n, i in names_before if n in ("format_and_send_response", "send_shutdown_response")]
            d_ok = len(sends) <= 1
            for s in sends:
                if P.srcname_of(s.callee) == "format_and_send_response":
                    def idnn(atom, pol):
                        return atom[0] == "cmp" and atom[3] == ("null",) and \
                            Q.is_field_load(atom[2], "struct.routing_request", "origin_request_id") is not None and not Q._poleq(atom, pol)
                    if not any(idnn(a, p) for (a, p) in v.atoms):
                        d_ok = False
            # (e) id deleted (when non-null: cJSON_Delete is NULL-safe)
            e_ok = any(n == "cJSON_Delete" and Q.is_field_load(P.term(f, i.a[0]), "struct.routing_request", "origin_request_id") is not None
                       for _, n, i in names_before)
            if v.has_atom(lambda a, p: a[0] == "cmp" and a[3] == ("null",) and
                          Q.is_field_load(a[2], "struct.routing_request", "origin_request_id") is not None and Q._poleq(a, p)):
                e_ok = True  # nothing to delete on this path
            if len(frees) > 1:
                d_ok = False
            for key, ok in (("table", a_ok), ("stop", b_ok), ("destroy", c_ok), ("answer", d_ok), ("id", e_ok)):
                if not ok and res[key] is None:
                    res[key] = v
        msgs = {"table": "frees a routing entry that may still be in the owner's table",
                "stop": "frees a routing entry without stopping its timer",
                "destroy": "completes a routing entry without cjet_timer_destroy: the timer descriptor and its event-loop "
                           "registration leak (siblings destroy it)",
                "answer": "may send more than one answer, or answers without origin_request_id != NULL",
                "id": "does not delete the copied origin request id"}
        for key in ("table", "stop", "destroy", "answer", "id"):
            v = res[key]
            ctx.ob("C03.2 R-SIB", f, "completion:" + key, v is None and nfree > 0, msgs[key] if v is not None else
                   "holds on all %d completing path(s)" % nfree, witness=v.witness() if v is not None else None)
    ctx.floor("C03.2 R-SIB", 15)


def clause3_commit(ctx, P, cg):
    outset = Q.make_outset(ctx, P, cg)
    soc = P.fn("element.c:set_or_call")
    views = Q.path_views(ctx, P, soc)
    setup = soc.calls("setup_routing_information")
    alloc = soc.calls("alloc_routing_request")
    if len(setup) != 1 or len(alloc) != 1:
        raise AnalysisBroken("set_or_call: expected one alloc_routing_request and one setup_routing_information")
    setup, alloc = setup[0], alloc[0]
    unreg = ("hashtable_remove_route_table", "remove_routing_entry", "unregister_routing_request", "cancel_routing_request")
    bad_err = bad_free = bad_leak = None
    n_reg = n_unreg = 0
    for v in views:
        ks = [k for k, i in v.insts() if i.id == alloc.id]
        if not ks:
            continue
        got = v.has_atom(lambda a, p: a[0] == "cmp" and a[2][0] == "call" and a[2][3] == alloc.id and a[3] == ("null",) and not Q._poleq(a, p))
        if not got:
            continue
        registered = False
        for (a, p) in v.atoms:
            if a[0] == "cmp" and a[2][0] == "call" and a[2][3] == setup.id and a[3][0] == "const":
                pred = a[1] if p else Q.negate_pred(a[1])
                if pred in ("sge", "eq") and a[3][1] == 0 or (pred == "sgt" and a[3][1] == -1):
                    registered = True
        setup_pos = [k for k, i in v.insts() if i.id == setup.id]
        frees = [i for k, i in v.insts() if _frees_request(P, soc, i) or
                 (i.op == "call" and i.callee and P.srcname_of(i.callee) == "cjet_free" and
                  Q.is_call_to(P.term(soc, i.a[0]), "alloc_routing_request"))]
        rt = Q.ret_value_term(v, outset)
        is_err = rt is not None and rt != ("null",) and not Q.is_call_to(rt, ("create_success_response_from_request",))
        if registered:
            n_reg += 1
            undone = any(i.op == "call" and i.callee and (P.srcname_of(i.callee) in unreg or
                         (i.callee in P.functions and P.own(P.functions[i.callee]) and
                          cg.may_call(P.functions[i.callee], {"hashtable_remove_route_table"})))
                         for k, i in v.insts() if k > setup_pos[0])
            if is_err and not undone and bad_err is None:
                bad_err = v
            if frees and not undone and bad_free is None:
                bad_free = v
        else:
            n_unreg += 1
            if len(frees) != 1 and bad_leak is None:
                bad_leak = (v, len(frees))
    ctx.ob("C03.3 R-COMMIT", soc, "registered:error-answer", bad_err is None and n_reg > 0,
           "after the routing entry was registered (owner's table, timer armed) an error response is returned without "
           "unregistering it: the caller gets this error now and a second answer (timeout) later" if bad_err else
           "no immediate error after registration (%d registered paths)" % n_reg, witness=bad_err.witness() if bad_err else None)
    ctx.ob("C03.3 R-COMMIT", soc, "registered:freed", bad_free is None and n_reg > 0,
           "the routing entry is freed while still registered in the owner's table with its timer armed (dangling entry)"
           if bad_free else "registered entry is never freed by the handler", witness=bad_free.witness() if bad_free else None)
    ctx.ob("C03.7 R-OWN", soc, "unregistered:free-once", bad_leak is None and n_unreg > 0,
           "a failure path before registration frees the routing entry %d times" % (bad_leak[1] if bad_leak else 0) if bad_leak else
           "every failure path before registration frees the entry exactly once (%d paths)" % n_unreg,
           witness=bad_leak[0].witness() if bad_leak else None)
    ctx.floor("C03.3 R-COMMIT", 2)


def clause3b_revert(ctx, P):
    """remove_routing_information() reverts a SUCCESSFUL setup_routing_information(): it is called only on paths on which that
    call was made before and did not fail (on any other path the timer was never initialised and the entry is not in the table)"""
    soc = P.fn("element.c:set_or_call")
    bad = None
    n = 0
    for v in Q.path_views(ctx, P, soc):
        calls = [(k, i) for k, i in v.calls(("setup_routing_information", "remove_routing_information"))]
        for k, i in calls:
            if P.srcname_of(i.callee) != "remove_routing_information":
                continue
            n += 1
            setups = [(k2, j) for k2, j in calls if k2 < k and P.srcname_of(j.callee) == "setup_routing_information"]
            ok = False
            for k2, j in setups:
                ok = v.has_atom(lambda a, p, j=j: a[0] == "cmp" and a[2][0] == "call" and a[2][3] == j.id and a[3] == ("const", 0) and
                                ((a[1] == "slt" and not p) or (a[1] == "sge" and p) or (a[1] == "eq" and p) or (a[1] == "ne" and not p)))
            if not ok:
                bad = v
    ctx.ob("C03.3 R-ORDER", soc, "revert-only-what-was-set-up", bad is None and n > 0,
           "remove_routing_information() is reached on a path on which setup_routing_information() was not called successfully before: "
           "it cancels and destroys a timer that was never initialised and removes an entry that is not in the table",
           witness=bad.witness() if bad else None)


def clause3c_setup_commit(ctx, P):
    """setup_routing_information() itself: a failure return leaves the request out of the owner's table (whatever the order of
    its steps) - the caller frees the request right away"""
    sri = P.fn("router.c:setup_routing_information")
    SUCC = Q.macro(P, "router.c", "HASHTABLE_SUCCESS")
    bad = None
    n = 0
    for v in Q.path_views(ctx, P, sri):
        rc = v.ret_const()
        if rc is None or rc >= 0:
            continue
        puts = [(k, i) for k, i in v.calls("hashtable_put_route_table")]
        if not puts:
            continue
        k_put, put = puts[-1]
        st = [x for x in (_is_success_atom(P, a, p, put.id, SUCC) for (a, p) in v.atoms) if x is not None]
        if not st or st[-1] is not True:
            continue   # the put itself failed: nothing is registered
        n += 1
        if not any(k > k_put for k, i in v.calls("hashtable_remove_route_table")):
            bad = v
    ctx.ob("C03.3 R-COMMIT", sri, "failed-setup-leaves-nothing-registered", bad is None and n > 0,
           "setup_routing_information() returns failure on a path on which the request was put into the owner's routing table and not "
           "taken out again: the caller frees the request, the table keeps a pointer to it", witness=bad.witness() if bad else None)


def clause4_route(ctx, P):
    soc = P.fn("element.c:set_or_call")
    e_is_lookup = lambda t: Q.is_call_to(t, "element_table_get")
    owner = lambda t: (Q.is_field_load(t, "struct.element", "peer") is not None and e_is_lookup(Q.is_field_load(t, "struct.element", "peer")))
    n = 0
    for i in soc.all_insts():
        if i.op == "call" and not i.callee:
            t = P.term(soc, i.ind)
            if t[0] == "load" and t[1][0] == "field" and t[1][3] == "send_message":
                n += 1
                ctx.ob("C03.4 R-SELF", soc, Q.ordinal_site(soc, i, P), owner(t[1][1]) and P.term(soc, i.a[0]) == t[1][1],
                       "routed request is sent through %s, expected the owner e->peer of the looked-up element" % fmt_term(t[1][1]))
                msg = P.term(soc, i.a[1])
                ctx.ob("C03.4 R-PAIR", soc, Q.ordinal_site(soc, i, P) + ":payload",
                       Q.is_call_to(msg, "cJSON_PrintUnformatted") and Q.is_call_to(msg[2][0], "create_routed_message"),
                       "what is sent to the owner is not the rendered routed message")
    if n != 1:
        ctx.ob("C03.4 R-SELF", soc, "send:sites", False, "routed request is transmitted %d times in set_or_call" % n)
    for c in soc.calls("alloc_routing_request"):
        ctx.ob("C03.4 R-PAIR", soc, "alloc:owner", owner(P.term(soc, c.a[1])) and P.term(soc, c.a[0])[0] == "param",
               "routing entry does not record (caller, e->peer)")
        idt = P.term(soc, c.a[2])
        ctx.ob("C03.4 R-PAIR", soc, "alloc:origin-id", Q.is_call_to(idt, "cJSON_GetObjectItem") and idt[2][1] == ("str", "id")
               and idt[2][0][0] == "param", "routing entry does not record the caller's request id")
    for c in soc.calls("create_routed_message"):
        pth = P.term(soc, c.a[1])
        ctx.ob("C03.4 R-PAIR", soc, "message:path", Q.is_call_to(pth, "get_path_from_params"),
               "routed message does not carry the request's path")
        idt = P.term(soc, c.a[4])
        ctx.ob("C03.4 R-PAIR", soc, "message:id", Q.mentions(idt, lambda x: x[0] == "field" and x[2] == "struct.routing_request" and x[3] == "id" and Q.is_call_to(x[1], "alloc_routing_request")),
               "routed message does not carry the routing entry's generated id")
    sri = P.fn("router.c:setup_routing_information")
    for c in sri.calls("hashtable_put_route_table"):
        tb = P.term(sri, c.a[0])
        b = Q.is_field_load(tb, "struct.peer", "routing_table")
        ok = b is not None and Q.is_field_load(b, "struct.element", "peer") is not None
        ctx.ob("C03.4 R-PAIR", sri, "put:table", ok, "entry registered in %s, expected e->peer->routing_table" % fmt_term(tb))
        kt = P.term(sri, c.a[1])
        ctx.ob("C03.4 R-PAIR", sri, "put:key", Q.mentions(kt, lambda x: x[0] == "field" and x[2] == "struct.routing_request" and x[3] == "id"),
               "entry registered under a key other than its generated id")
    h = P.fn("router.c:handle_routing_response")
    for c in _rm_calls(h):
        tb = P.term(h, c.a[0])
        b = Q.is_field_load(tb, "struct.peer", "routing_table")
        ctx.ob("C03.4 R-SELF", h, Q.ordinal_site(h, c, P), b is not None and b[0] == "param",
               "a reply is matched against %s, expected the replying peer's own routing table" % fmt_term(tb))
        kt = P.term(h, c.a[1])
        kb = Q.is_field_load(kt, "struct.cJSON", "valuestring")
        ctx.ob("C03.4 R-PAIR", h, Q.ordinal_site(h, c, P) + ":key", kb is not None and Q.is_call_to(kb, "cJSON_GetObjectItem")
               and kb[2][1] == ("str", "id"), "reply is not matched by its id member")
    th = P.fn("router.c:request_timeout_handler")
    for c in _rm_calls(th):
        tb = P.term(th, c.a[0])
        b = Q.is_field_load(tb, "struct.peer", "routing_table")
        ok = b is not None and Q.is_field_load(b, "struct.routing_request", "owner_peer") is not None
        ctx.ob("C03.4 R-PAIR", th, Q.ordinal_site(th, c, P), ok, "expiry removes from %s, expected request->owner_peer->routing_table" % fmt_term(tb))
    # every access to a routing table goes to the table of the OWNER of the addressed element: the entry is registered there,
    # so it can only be found, completed or reverted there
    nacc = 0
    for f in P.own_functions():
        for c in f.calls(("hashtable_remove_route_table", "hashtable_put_route_table", "hashtable_get_route_table")):
            tb = P.term(f, c.a[0])
            b = Q.is_field_load(tb, "struct.peer", "routing_table")
            nacc += 1
            okb = b is not None and (b[0] == "param" or Q.is_field_load(b, "struct.element", "peer") is not None or
                                     Q.is_field_load(b, "struct.routing_request", "owner_peer") is not None)
            if b is None and tb[0] in ("phi", "param"):
                okb = True   # table pointer handed in / loop-carried inside the sweeps; their callers are checked here too
            ctx.ob("C03.4 R-PAIR", f, Q.ordinal_site(f, c, P) + ":owners-table", okb,
                   "routing table accessed through %s: entries live in the table of the element's owner (e->peer, request->owner_peer, "
                   "or the peer handed to the reply handler / sweeps)" % fmt_term(tb))
    if nacc < 5:
        raise AnalysisBroken("routing table accesses found: %d" % nacc)
    # the final answer of a routed request goes to the REQUESTER recorded in the routing entry, whoever completes it
    nans = 0
    for f in P.own_functions():
        if f.base != "router.c":
            continue
        for c in f.calls(("format_and_send_response", "create_error_response", "create_result_response")):
            pt = P.term(f, c.a[0])
            if not Q.mentions(pt, lambda x: x[0] == "field" and x[2] == "struct.routing_request"):
                # helper taking the recipient as parameter: its callers are checked instead
                if pt[0] == "param" or pt[0] == "phi":
                    continue
            nans += 1
            ctx.ob("C03.4 R-PAIR", f, Q.ordinal_site(f, c, P) + ":answer-goes-to-requester",
                   Q.is_field_load(pt, "struct.routing_request", "requesting_peer") is not None,
                   "the answer of a routed request is built for / sent to %s, expected request->requesting_peer" % fmt_term(pt))
    if nans < 4:
        raise AnalysisBroken("answer sites of routed requests found in router.c: %d" % nans)
    # owner_peer / requesting_peer written once, in the allocator
    for fld in ("owner_peer", "requesting_peer", "origin_request_id"):
        sts = Q.field_stores(P, "struct.routing_request", fld)
        ctx.ob("C03.4 R-WHO", "router", "store:" + fld, len(sts) == 1 and sts[0].fn.srcname == "alloc_routing_request",
               "routing_request.%s assigned outside the allocator" % fld)
    ctx.floor("C03.4 R-PAIR", 8)


def clause5_payload(ctx, P):
    crm = P.fn("router.c:create_routed_message")
    dups = crm.calls("cJSON_Duplicate")
    ok = len(dups) == 1 and P.term(crm, dups[0].a[0])[0] == "param" and P.term(crm, dups[0].a[0])[1] == 3 and P.const_int(dups[0].a[1]) == 1
    ctx.ob("C03.5 R-PAIR", crm, "payload:copy", ok, "caller's value/args is not relayed as a recursive duplicate")
    attach = False
    for c in crm.calls(("cJSON_AddItemToObject", "add_item_to_object")):
        lit = Q.arg_literal(P, c, 1)
        lv, _ = Q.leaves(P, crm, c.a[2], through_loads=False)
        if lit in ("params", "value") and any(Q.is_call_to(l, "cJSON_Duplicate") for l in lv):
            attach = True
    ctx.ob("C03.5 R-PAIR", crm, "payload:attached", attach, "the duplicate of the caller's payload is not what gets attached to the routed message")
    # '{}' stands in for the payload only when the caller sent NONE: every path to the substitute established value == NULL and
    # nothing else about the value (a JSON null is a value and is relayed as such)
    vprm = ("param", 3, crm.params[3]["name"])
    subst = []
    for a in crm.calls(("cJSON_AddItemToObject", "add_item_to_object")):
        if Q.arg_literal(P, a, 1) not in ("params", "value"):
            continue
        lv = Q.leaves(P, crm, a.a[2], through_loads=False)[0]
        if any(Q.is_call_to(l, "cJSON_Duplicate") for l in lv):
            for l in lv:
                if l[0] == "call" and not Q.is_call_to(l, "cJSON_Duplicate") and l[3] in crm.insts and crm.insts[l[3]] not in subst:
                    subst.append(crm.insts[l[3]])
    bads = None
    for c in subst:
        for v in Q.path_views(ctx, P, crm):
            if c.block not in v.blocks:
                continue
            isnull = v.has_atom(lambda a, p: a[0] == "cmp" and a[2] == vprm and a[3] == ("null",) and Q._poleq(a, p))
            other = v.has_atom(lambda a, p: a[0] in ("cmp", "truth") and Q.mentions(a[1] if a[0] == "truth" else a[2], lambda x: x == vprm) and
                               not (a[0] == "cmp" and a[2] == vprm and a[3] == ("null",)))
            if not isnull or other:
                bads = (v, c)
    ctx.ob("C03.5 R-GATE", crm, "payload:substitute-only-when-absent", bads is None and len(subst) >= 1,
           "create_routed_message() replaces the caller's value/args by an empty container at %s on a path that did not establish "
           "'no value given' (or looked at the value's content): a legal value such as null reaches the owner changed" %
           (bads[1].loc if bads else "?"), witness=bads[0].witness() if bads else None)
    h = P.fn("router.c:handle_routing_response")
    dups = h.calls("cJSON_Duplicate")
    ok = len(dups) == 1 and P.term(h, dups[0].a[0])[0] == "param" and P.term(h, dups[0].a[0])[1] == 1 and P.const_int(dups[0].a[1]) == 1
    ctx.ob("C03.5 R-PAIR", h, "reply:copy", ok, "owner's result/error is not relayed as a recursive duplicate")
    for c in h.calls("create_result_response"):
        t = P.term(h, c.a[2])
        ctx.ob("C03.5 R-PAIR", h, "reply:attached", Q.is_call_to(t, "cJSON_Duplicate"),
               "relayed answer does not carry the duplicate of the owner's member")
        idt = P.term(h, c.a[1])
        ctx.ob("C03.5 R-PAIR", h, "reply:id", Q.is_field_load(idt, "struct.routing_request", "origin_request_id") is not None,
               "relayed answer does not carry the caller's original id")
    ctx.floor("C03.5 R-PAIR", 4)


def clause6_unique(ctx, P):
    f = P.fn("router.c:fill_routed_request_id")
    views = Q.path_views(ctx, P, f)
    bad = None
    for v in views:
        inc = False
        fmt_uses = False
        for _, i in v.insts():
            if i.op == "store":
                dt = P.term(f, i.a[1])
                vt = P.term(f, i.a[0])
                if dt[0] == "global" and vt == ("op", "add", (("load", dt), ("const", 1))):
                    inc = True
            if i.op == "call" and i.callee and P.srcname_of(i.callee) == "snprintf":
                if any(P.term(f, a)[0] == "load" and P.term(f, a)[1][0] == "global" for a in i.a):
                    fmt_uses = True
        if not (inc and fmt_uses):
            bad = v
    ctx.ob("C03.6 R-ORDER", f, "counter", bad is None, "a path of the id generator does not embed and increment the global counter",
           witness=bad.witness() if bad else None)
    # the counter is as wide as an int at least: a narrower one wraps while old requests are still in flight (65536 requests are
    # routed in seconds, a request may wait for its answer for as long as its timeout allows)
    widths = set()
    for i in f.all_insts():
        if i.op == "store":
            dt = P.term(f, i.a[1])
            if dt[0] == "global" and P.term(f, i.a[0]) == ("op", "add", (("load", dt), ("const", 1))):
                ty = P.globals.get(dt[1], {}).get("ty", "")
                widths.add(int(ty[1:]) if ty.startswith("i") and ty[1:].isdigit() else 0)
    ctx.ob("C03.6 R-BOUND", f, "counter-is-int-wide", bool(widths) and min(widths) >= 32,
           "the counter that makes routed request ids unique is %s bits wide: it wraps after %s requests and a request still in "
           "flight shares its routed id with a new one of the same caller (the newer entry replaces the older in the owner's table)" %
           (sorted(widths), 2 ** min(widths) if widths and min(widths) else "?"))
    ar = P.fn("router.c:alloc_routing_request")
    ctx.ob("C03.6 R-WHO", ar, "fill:once", len(ar.calls("fill_routed_request_id")) == 1 and len(P.callers_of(f)) == 1,
           "generated id must be filled exactly once per routing entry")
    # the id is never cut: the room reserved for it is the length snprintf measured for the same text, and nothing caps it (the
    # counter and the requester's address, which make the id unique, are at its END)
    cs = P.fn("router.c:calculate_size_for_routed_request_id")
    capped = []
    for i in cs.all_insts():
        if i.op == "ret" and i.a:
            lv, _ = Q.leaves(P, cs, i.a[0], through_loads=False)
            for l in lv:
                if not (Q.is_call_to(l, "snprintf") or (l[0] == "op" and Q.mentions(l, lambda x: Q.is_call_to(x, "snprintf")))):
                    capped.append(l)
    ctx.ob("C03.6 R-BOUND", cs, "id-length-is-the-measured-length", not capped,
           "the size reserved for the routed request id is not always the length snprintf() measured (%s): a cut id loses the counter "
           "and the requester's address at its end, so two in-flight requests can share one key" % ", ".join(fmt_term(c) for c in capped[:2]))
    for c in ar.calls("fill_routed_request_id"):
        szt = P.term(ar, c.a[1])
        ctx.ob("C03.6 R-PAIR", ar, "id-filled-with-the-measured-length", Q.is_call_to(szt, "calculate_size_for_routed_request_id"),
               "fill_routed_request_id() is given %s as the size, expected the measured length" % fmt_term(szt))
    # a missing copy of the caller's id means 'the caller sent none': so the copy is checked whenever the caller did send one
    nst = 0
    badv = None
    for v in Q.path_views(ctx, P, ar):
        for _, i in v.insts():
            if i.op == "store":
                dt = P.term(ar, i.a[1])
                if dt[0] == "field" and dt[2] == "struct.routing_request" and dt[3] == "origin_request_id":
                    nst += 1
                    val = v.resolve(i.a[0])
                    if P.is_null(val):
                        # must be the 'caller sent no id' path
                        ok = v.has_atom(lambda a, p: a[0] == "cmp" and a[2] == ("param", 2, ar.params[2]["name"]) and a[3] == ("null",) and Q._poleq(a, p))
                    else:
                        vt = P.term(ar, val)
                        ok = Q.is_call_to(vt, "cJSON_Duplicate") and \
                            v.has_atom(lambda a, p, vt=vt: a[0] == "cmp" and a[2] == vt and a[3] == ("null",) and not Q._poleq(a, p))
                    if not ok:
                        badv = v
    ctx.ob("C03.4 R-NULL", ar, "id-copy-checked", badv is None and nst > 0,
           "the routing entry's copy of the caller's id is stored without a test that the copy succeeded: a failed copy looks like "
           "'the caller sent no id', the request is routed and the caller never gets an answer", witness=badv.witness() if badv else None)


def clause7_nesting(ctx, P):
    """a value, argument list or result is relayed as it was given - whatever fits into a message must get through the parser on both
    legs.  The bundled parser refuses nesting beyond CJSON_NESTING_LIMIT (and the refused message costs its sender the connection:
    the owner of the state, say); `[[[...]]]` needs two bytes per level, so the limit must not be below half the message size of the
    analysed configuration"""
    lim = Q.macro(P, "cJSON.c", "CJSON_NESTING_LIMIT")
    size = Q.enum(P, "CONFIG_MAX_MESSAGE_SIZE")
    if lim is None or size is None:
        raise AnalysisBroken("CJSON_NESTING_LIMIT / CONFIG_MAX_MESSAGE_SIZE not found (%s, %s)" % (lim, size))
    ctx.ob("C03.5 R-BOUND", P.fn("parse.c:parse_message"), "nesting-limit-admits-every-message", lim >= size // 2,
           "CJSON_NESTING_LIMIT is %d, a message of %d bytes can nest %d deep: a legal value or result that is nested deeper is not "
           "relayed, its sender (the owner answering a routed request) is disconnected" % (lim, size, size // 2))


def run(ctx):
    for cfg in ctx.configs(["default"] if ctx.tier == "quick" else None):
        P, cg = cfg.P, cfg.cg
        clause1_pop(ctx, P)
        clause2_siblings(ctx, P, cg)
        clause3_commit(ctx, P, cg)
        clause3b_revert(ctx, P)
        clause3c_setup_commit(ctx, P)
        clause4_route(ctx, P)
        clause5_payload(ctx, P)
        clause6_unique(ctx, P)
        clause7_nesting(ctx, P)
        # how an owner's answer is recognised and which member is relayed (shared with C02.3)
        from .c02 import clause3_responses
        clause3_responses(ctx, P)
