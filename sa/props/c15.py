"""C15 — single allocation failure: failure-edge discipline."""
from ..frontend import AnalysisBroken
from ..core import queries as Q
from ..core.own import Own, HEAP_PRODUCERS, JSON_PRODUCERS, EXT_DEREF
from ..core.program import fmt_term, fmt_atom, CAST_OPS
from . import c01, c02, c04, c07, c08, c11, c13

META = {
    "explanation": (
        "Static reading of 'every allocation made to fail in turn': the fault points are enumerated from the program - every call "
        "site in own code of cjet_malloc/cjet_calloc/duplicate_string/table create, every cJSON creator/duplicator/printer (they "
        "allocate through the installed hooks) and every own function discovered to return a fresh object or NULL. Per fault "
        "point: (1) R-NULL: on every path the result is null-tested before it is dereferenced - by the function itself or by a "
        "callee whose summary dereferences that parameter without a test (summaries are computed from the IR for own code and the "
        "bundled cJSON; libc string functions from a table); (2) R-RET: initialiser functions (int result, negative on a failure "
        "path that follows a failed producer, writing fields of their argument on success) have their result tested at every call "
        "site, including calls through the url_handler.create hook; (3) R-OWN on the failure continuation: everything acquired "
        "before the fault point is released or handed over on every path, never twice (C07.1 over all paths, not only fault-free "
        "ones); (4) at most one response (C02.1); (5) no partial commit before an error answer (C04.4, C08.2); (6) a fault while "
        "serving one peer does not produce a verdict against another (C11.3)."),
    "not_decided": "absence of crashes on the continuation beyond these obligations; 'keeps serving afterwards' (liveness); "
                   "allocations inside libc (getaddrinfo, crypt)",
    "assumptions": ["cJSON's own entry points behave as their IR summaries say (null-guarded parameters are recomputed on every run)"],
}


def clause1_null(ctx, P, cg, own):
    deref = own.deref_params()
    nsites = 0
    skipped = []
    for f in P.own_functions():
        prods = [i for i in f.all_insts() if i.op == "call" and own.producer_kind(f, i) in ("heap", "json")]
        if not prods:
            continue
        views = own.views(f)
        for c in prods:
            def comp_on(atom, pol):
                t = atom[1] if atom[0] == "truth" else (atom[2] if atom[0] == "cmp" and atom[3] == ("const", 0) else None)
                if t is None or not Q.mentions(t, lambda x: x[0] == "field" and x[3] == "accepted"):
                    return False
                return pol if atom[0] == "truth" else not Q._poleq(atom, pol)
            if f.base in ("websocket.c", "compression.c") and (Q.must_pass(P, f, c.block, comp_on) or f.base == "compression.c"):
                skipped.append((f, c))
                continue
            nsites += 1
            bad = None
            for v in views:
                if c.block not in v.blocks:
                    continue
                r = _walk_null(P, cg, own, deref, f, v, c)
                if r is not None:
                    bad = (v, r)
                    break
            ctx.ob("C15.1 R-NULL", f, "fault:" + Q.ordinal_site(f, c, P), bad is None,
                   "the result of %s (NULL when the allocation fails) reaches %s without a null test on this path"
                   % (P.srcname_of(c.callee), bad[1]) if bad else "result null-tested before any dereference",
                   witness=bad[0].witness() if bad else None)
    # fault points of the permessage-deflate code are out of scope because that code is unreachable in the daemon as built;
    # this is itself checked: the only constructor path passes compression level 0, and 'accepted' can only be set when the
    # level is non-zero
    ihc = P.fn("http_connection.c:init_http_connection")
    lvls = [P.const_int(x.a[4]) for x in ihc.calls("init_http_connection2")]
    callers2 = [x for x in P.callers_of(P.fn("http_connection.c:init_http_connection2"))]
    ok_lvl = lvls == [0] and all(x.fn is ihc for x in callers2)
    acc_ok = True
    nacc = 0
    for g in P.own_functions():
        for i in g.all_insts():
            if i.op == "store" and P.const_int(i.a[0]) == 1:
                t = P.term(g, i.a[1])
                if t[0] == "field" and t[3] == "accepted":
                    nacc += 1

                    def lvl_nonzero(atom, pol):
                        return atom[0] == "cmp" and atom[3] == ("const", 0) and Q.mentions(atom[2], lambda x: x[0] == "field" and x[3] == "compression_level") \
                            and not Q._poleq(atom, pol)
                    acc_ok = acc_ok and Q.must_pass(P, g, i.block, lvl_nonzero)
    ctx.ob("C15.1 R-GATE", ihc, "compression-unreachable", ok_lvl and acc_ok and nacc >= 1,
           "permessage-deflate became reachable in the daemon (level %s, accepted guarded by level != 0: %s): its %d allocation sites "
           "are no longer out of scope" % (lvls, acc_ok, len(skipped)), detail={"skipped_fault_points": [x[1].loc for x in skipped]})
    ctx.count("fault_points", nsites)
    if nsites < 70:
        raise AnalysisBroken("fault points found: %d (expected >= 70)" % nsites)
    ctx.floor("C15.1 R-NULL", 70)


def _walk_null(P, cg, own, deref, f, view, c):
    """returns description of the first unguarded dereference of c's result on this path, or None"""
    aliases = set()
    mem_alias = set()
    tested = False
    started = False
    envs = view.envs()

    def is_alias(o, bidx):
        o = view.resolve(o, bidx) if isinstance(o, int) else o
        for _ in range(10):
            if not isinstance(o, int):
                return False
            if o in aliases:
                return True
            if o < f.nparams:
                return False
            i = f.insts[o]
            if i.op in CAST_OPS:
                o = view.resolve(i.a[0], bidx)
                continue
            return False
        return False

    def base_alias(o, bidx):
        """pointer derived from an alias by GEP/cast (field address / element address)"""
        o = view.resolve(o, bidx) if isinstance(o, int) else o
        for _ in range(12):
            if not isinstance(o, int):
                return False
            if o in aliases:
                return True
            if o < f.nparams:
                return False
            i = f.insts[o]
            if i.op in CAST_OPS or i.op == "getelementptr":
                o = view.resolve(i.a[0], bidx)
                continue
            return False
        return False
    for bidx, (b, atom, pol) in enumerate(view.path):
        # edge condition into this block
        if started and atom is not None and not tested:
            a = atom
            if a[0] == "cmp" and a[3] == ("null",):
                lhs = a[2]
                hit = False
                if lhs[0] == "call" and lhs[3] == c.id:
                    hit = True
                elif lhs[0] == "phi" and bidx >= 1:
                    val = envs[bidx - 1].get(lhs[1])
                    hit = isinstance(val, int) and (val in aliases)
                elif lhs[0] == "load" and lhs[1] in mem_alias:
                    hit = True
                if hit:
                    if Q._poleq(a, pol):
                        return None  # result is NULL on this path: handled by the failure branch (no use expected)
                    tested = True
            elif a[0] == "truth":
                lhs = a[1]
                if (lhs[0] == "call" and lhs[3] == c.id) or (lhs[0] == "load" and lhs[1] in mem_alias):
                    if not pol:
                        return None
                    tested = True
        for i in f.blocks[b]:
            if i.op == "phi":
                continue
            if i.id == c.id:
                if started:
                    return None  # re-executed in a loop: judged on the first execution
                started = True
                aliases.add(c.id)
                continue
            if not started:
                continue
            if i.op in CAST_OPS and is_alias(i.a[0], bidx):
                aliases.add(i.id)
                continue
            if i.op == "store":
                if is_alias(i.a[0], bidx):
                    dst = P.strip(f, view.resolve(i.a[1], bidx) if isinstance(i.a[1], int) else i.a[1])
                    if isinstance(dst, int) and dst >= f.nparams and f.insts[dst].op == "alloca":
                        mem_alias.add(("alloca", dst, f.insts[dst].name))
                    mem_alias.add(P.term(f, dst))
                    continue
                if not tested and base_alias(i.a[1], bidx):
                    return "a store through it at %s" % i.loc
                continue
            if i.op == "load":
                t = P.term(f, P.strip(f, view.resolve(i.a[0], bidx) if isinstance(i.a[0], int) else i.a[0]))
                if t in mem_alias:
                    aliases.add(i.id)
                    continue
                if not tested and base_alias(i.a[0], bidx):
                    return "a load through it at %s" % i.loc
                continue
            if i.op == "call" and not tested:
                targets = cg.targets(f, i) if not i.callee else {i.callee}
                for k, a in enumerate(i.a):
                    if not (is_alias(a, bidx)):
                        continue
                    for tn in targets:
                        sn = P.srcname_of(tn)
                        dk = deref.get(tn)
                        if dk is None:
                            dk = EXT_DEREF.get(sn, set())
                        if k in dk:
                            return "%s (which dereferences argument %d) at %s" % (sn, k, i.loc)
            if i.op == "ret":
                return None
    return None


def _is_initialiser(P, own, f, inits):
    views = own.views(f)
    fails_after_producer = False
    writes_on_success = False
    init_names = [x.srcname for x in inits]
    for v in views:
        rc = v.ret_const()
        if rc is None and v.ret_operand() is not None:
            rt = P.term(f, v.ret_operand())
            if rt[0] == "call" and rt[1] in init_names:
                # returns the verdict of another initialiser directly: fails when that one fails, succeeds otherwise
                fails_after_producer = True
                rc = 0
            elif rt[0] in ("call", "icall"):
                # returns some callee's verdict: this is (also) a success path
                rc = 0
        if rc is not None and rc < 0:
            for (a, p) in v.atoms:
                t = a[2] if a[0] == "cmp" else (a[1] if a[0] == "truth" else None)
                if t is None:
                    continue
                # a failed producer / failed own initialiser decides this path
                if t[0] == "call" and (t[1] in HEAP_PRODUCERS or t[1] in JSON_PRODUCERS or t[1] in init_names or
                                       any(g.name in own.own_producers for g in P.by_src.get(t[1], []))):
                    fails_after_producer = True
                if t[0] == "load" and Q.mentions(t, lambda x: x[0] == "field"):
                    # e.g. p->routing_table == NULL after the assignment of a producer result
                    if any(own.producer_kind(f, i) for _, i in v.insts() if i.op == "call"):
                        fails_after_producer = True
        if rc == 0:
            for _, i in v.insts():
                if i.op == "store":
                    t = P.term(f, i.a[1])
                    root = t
                    while isinstance(root, tuple) and root[0] in ("field", "index"):
                        root = root[1]
                    if t[0] == "field" and isinstance(root, tuple) and root[0] == "param":
                        writes_on_success = True
    return fails_after_producer and writes_on_success


def _decides_failure(P, v, i):
    """the call i is the one whose failure (negative / non-zero result tested on this path) makes the path a failure path:
    a callee that failed has not registered anything (that is its own obligation)"""
    for (a, p) in v.atoms:
        t = a[2] if a[0] == "cmp" else (a[1] if a[0] == "truth" else None)
        if t is not None and t[0] in ("call", "icall") and t[3] == i.id:
            if a[0] == "cmp" and a[3] == ("const", 0) and ((a[1] == "slt" and p) or (a[1] == "sge" and not p) or
                                                            (a[1] == "ne" and p) or (a[1] == "eq" and not p)):
                return True
            if a[0] == "truth" and p:
                return True
    return False


def clause2_ret(ctx, P, cg, own):
    """initialiser functions: result must be tested by every caller"""
    inits = []
    for _round in range(6):
        before = len(inits)
        for f in P.own_functions():
            if f.ret == "i32" and f not in inits and _is_initialiser(P, own, f, inits):
                inits.append(f)
        if len(inits) == before:
            break
    names = sorted(f.srcname for f in inits)
    ctx.note("initialiser functions (fail after an allocation failure, write their argument on success): %s" % names)
    if not {"add_routing_table"} <= set(names):
        raise AnalysisBroken("initialiser discovery lost its anchors: %s" % names)
    # a failing initialiser leaves nothing registered: no list linking of its argument and no store to a global on a failure
    # path unless undone on that path (the caller releases the half-built object)
    from ..core.retconst import ret_consts
    rsum = ret_consts(P, cg)
    init_names = [x.srcname for x in inits]

    def reaches(i, names):
        """does the call instruction i reach (transitively) an own function with one of these source names?"""
        for t in cg.targets(i.fn, i):
            if P.srcname_of(t) in names:
                return True
            g = P.functions.get(t)
            if g is not None and P.own(g) and any(P.srcname_of(x) in names for x in cg.reach(t)):
                return True
        return False
    for f in inits:
        bad = None
        nfail = 0
        for v in own.views(f):
            rc = v.ret_const()
            may_fail_tail = False
            tail_pos = [0]
            if rc is None:
                # the result of a fallible callee is returned directly: this path is a failure path whenever the callee fails
                rt = P.term(f, v.ret_operand()) if v.ret_operand() is not None else None
                if rt is not None and rt[0] in ("call", "icall"):
                    ci = f.insts.get(rt[3])
                    fallible = rt[0] == "call" and rt[1] in init_names
                    if ci is not None and not fallible:
                        fallible = any(x < 0 for t in cg.targets(f, ci) for x in rsum.get(t, ()))
                    if fallible:
                        may_fail_tail = True
                        tail_pos = [k for k, i in v.insts() if i.id == rt[3]] or [0]
            if not may_fail_tail and (rc is None or rc >= 0):
                continue
            nfail += 1
            limit = tail_pos[0] if may_fail_tail else 10 ** 9
            linked = [i for k, i in v.calls() if k < limit and reaches(i, ("list_add_tail", "list_add")) and
                      not (rc is not None and rc < 0 and _decides_failure(P, v, i))]
            tail_id = f.insts[rt[3]].id if (may_fail_tail and rt is not None) else None
            unlinked = [i for k, i in v.calls() if i.id != tail_id and reaches(i, ("list_del",))]
            gst = [i for _, i in v.insts() if i.op == "store" and P.term(f, i.a[1])[0] == "global"]

            def given(t):
                while isinstance(t, tuple) and t and t[0] in ("field", "index", "byteoff", "load", "container_of"):
                    t = t[1]
                return isinstance(t, tuple) and t and t[0] == "param"
            closes = [i for k, i in v.calls() if k < limit and i.id != (f.insts[rt[3]].id if (may_fail_tail and rt is not None) else None) and
                      not (rc is not None and rc < 0 and _decides_failure(P, v, i)) and      # the call whose own failure is reported
                      any(given(P.term(f, a)) for a in i.a) and
                      (reaches(i, ("buffered_socket_close", "free_connection")) or
                       any(P.srcname_of(t) in ("close", "buffered_socket_close", "socket_close") for t in cg.targets(f, i)))]
            if closes and bad is None:
                bad = (v, "closes what it was handed (%s at %s)" % ("/".join(sorted(P.srcname_of(t) for t in cg.targets(f, closes[0]))) or "?", closes[0].loc))
            if (linked and len(unlinked) < len(linked)) or gst:
                bad = (v, "links its argument into a list (through %s)" % P.srcname_of(linked[0].callee or "?") if linked
                       else "writes global state (%s)" % fmt_term(P.term(f, gst[0].a[1])))
        ctx.ob("C15.2 R-COMMIT", f, "failure-leaves-nothing-registered", bad is None,
               "%s %s on a path that then fails: the caller of a failed initialiser releases the object and what belongs to it itself "
               "(it stays reachable through a global list, or is closed / freed twice)" % (f.srcname, bad[1] if bad else ""),
               witness=bad[0].witness() if bad else None)
    # an object whose initialiser FAILED is not torn down with the full destructor (which walks what the initialiser would have
    # set up): after `init(x) < 0` on a path, nothing that reaches free_peer_resources() is called on that path
    ndtor = 0
    for f in P.own_functions():
        ics = [c for c in f.all_insts() if c.op == "call" and c.callee and P.srcname_of(c.callee) in init_names]
        if not ics:
            continue
        bad = None
        for v in own.views(f):
            failed_at = None
            for k, i in v.calls():
                if i.callee and P.srcname_of(i.callee) in init_names and _decides_failure(P, v, i):
                    failed_at = (k, i)
            if failed_at is None:
                continue
            ndtor += 1
            for k, i in v.calls():
                if k > failed_at[0] and reaches(i, ("free_peer_resources",)):
                    bad = (v, i, failed_at[1])
        ctx.ob("C15.2 R-TYPESTATE", f, "no-full-teardown-after-failed-init", bad is None,
               "after %s() failed, %s() (which reaches free_peer_resources) is called at %s on the half-built object: the teardown walks "
               "a routing table / lists that were never set up" %
               (P.srcname_of(bad[2].callee) if bad else "", P.srcname_of(bad[1].callee or "?") if bad else "", bad[1].loc if bad else ""),
               witness=bad[0].witness() if bad else None)
    if ndtor < 2:
        raise AnalysisBroken("failure paths of initialiser calls seen: %d" % ndtor)
    # no partial commit on a LIVE object: a function that fails (after a failed producer) must not have written fields of an
    # element/peer/fetch that already existed before the call (objects under construction are exempt: the caller frees them)
    from .c07 import _fresh_arg
    LIVE = ("struct.element", "struct.peer", "struct.fetch")
    npc = 0
    for f in P.own_functions():
        if f.ret not in ("i32",):
            continue
        views = own.views(f)
        if not any(v.ret_const() is not None and v.ret_const() < 0 for v in views):
            continue
        cands = {}
        for v in views:
            rc = v.ret_const()
            if rc is None or rc >= 0:
                continue
            failed_prod = False
            fail_pos = None
            for (a, p) in v.atoms:
                t = a[2] if a[0] == "cmp" else None
                if t is not None and t[0] == "call" and a[3] == ("null",) and Q._poleq(a, p) and \
                        (t[1] in HEAP_PRODUCERS or t[1] in JSON_PRODUCERS or any(g.name in own.own_producers for g in P.by_src.get(t[1], []))):
                    failed_prod = True
                    fail_pos = [k for k, i in v.insts() if i.id == t[3]]
            if not failed_prod or not fail_pos:
                continue
            for k, i in v.insts():
                if i.op == "store" and k < fail_pos[0] + 2:
                    dt = P.term(f, i.a[1])
                    if dt[0] == "field" and dt[2] in LIVE and dt[1][0] == "param":
                        # restored later on this path?
                        restored = any(j.op == "store" and P.term(f, j.a[1]) == dt for kk, j in v.insts() if kk > fail_pos[0])
                        if not restored:
                            cands.setdefault((dt[1][1], dt[2], dt[3]), (v, i))
        for (pidx, st, fld), (v, i) in cands.items():
            callers = P.callers_of(f)
            fresh = bool(callers) and all(_fresh_arg(P, own, c, pidx) for c in callers)
            npc += 1
            ctx.ob("C15.5 R-COMMIT", f, "no-partial-commit:%s.%s" % (st.split(".")[1], fld), fresh,
                   "%s writes %s.%s of an object that already exists (at %s) before an allocation whose failure makes it return an "
                   "error: the object is left half-updated (e.g. a table size that no longer matches its table)" % (f.srcname, st, fld, i.loc)
                   if not fresh else "object under construction", witness=v.witness() if not fresh else None)
    n = 0
    for f in inits:
        sites = list(P.callers_of(f))
        # indirect call sites through a field holding f
        for (fname, iid), tg in cg.icall_targets.items():
            if f.name in tg:
                g = P.functions[fname]
                sites.append(g.insts[iid])
        for c in sites:
            g = c.fn
            n += 1
            used = [u for u in g.users(c.id) if u.op in ("icmp", "ret", "store", "phi", "zext", "sext", "trunc")]
            ctx.ob("C15.2 R-RET", g, "%s:%s" % (f.srcname, Q.ordinal_site(g, c, P)), bool(used),
                   "the result of %s is ignored at %s: when an allocation inside it fails the caller carries on with a half-built "
                   "object (e.g. a peer without routing table, later dereferenced during teardown)" % (f.srcname, c.loc))
    ctx.floor("C15.2 R-RET", 6)


def clause3_release_hook(ctx, P, cg, own):
    """cJSON releases through the hook init_parser() installs, and cjet_free() does not tolerate NULL (it reads the size header in
    front of the block).  In every function of the bundled cJSON that own code can reach, each call through the deallocate hook
    has an argument that was found non-NULL on every path to it (the print paths set their buffer to NULL when a regrow fails)."""
    cf = P.fn("alloc.c:cjet_free")
    if 0 not in (own.deref_params().get(cf.name) or ()):
        ctx.ob("C15.1 R-NULL", cf, "release-hook-argument-is-non-null", True, "cjet_free() tolerates NULL")
        return
    # the hook table handed to cJSON_InitHooks: {cjet_malloc, cjet_free}
    ip = P.fn("parse.c:init_parser")
    installed = False
    for g in P.globals.values():
        init = g.get("init")
        if isinstance(init, list) and init and init[0] == "agg" and g.get("ty", "").endswith("cJSON_Hooks"):
            installed = installed or ["f", cf.name] in init[1]
    for i in ip.all_insts():
        if i.op == "store" and P.strip(ip, i.a[0]) == ["f", cf.name]:
            installed = True
    if not ip.calls("cJSON_InitHooks"):
        raise AnalysisBroken("init_parser no longer installs the cJSON hooks")
    reach = set()
    for f in P.own_functions():
        if f.base != "cJSON.c":
            reach |= cg.reach(f.name)

    def is_dealloc(g, i):
        if cg.icall_field(g, i) == ("struct.internal_hooks", 1):
            return True
        return P.term(g, i.ind) == ("load", ("cgep", ("global", "global_hooks"), (0, 1)))

    writers = {}     # (struct, field) -> functions with a store into that member

    def writes(key):
        w = writers.get(key)
        if w is None:
            w = set()
            for h in P.functions.values():
                for i in h.all_insts():
                    if i.op == "store":
                        d = P.term(h, i.a[1])
                        if d[0] == "field" and (d[2], d[3]) == key:
                            w.add(h.name)
            writers[key] = w
        return w

    def root(t):
        while t[0] in ("field", "index", "cgep"):
            t = t[1]
        return t

    def guarded(g, site, t):
        """t is found non-NULL on every path to the site, and the finding is still valid there: a value loaded from a member is
        re-established after every call that is handed the object and can store into that member - unless the path continues on
        that call's success edge (cJSON's printers fail whenever they gave up the buffer)"""
        def nonnull(atom, pol, *_):
            if atom[0] == "cmp" and atom[3] == ("null",) and atom[2] == t:
                return not Q._poleq(atom, pol)
            if atom[0] == "truth" and atom[1] == t:
                return pol
            return False
        if not Q.must_pass(P, g, site.block, nonnull):
            return False
        if t[0] != "load" or t[1][0] != "field":
            return True
        key = (t[1][2], t[1][3])
        base = root(t[1])
        for k in g.all_insts():
            kills = False
            if k.op == "store" and P.term(g, k.a[1]) == t[1] and P.term(g, k.a[0]) == ("null",):
                kills = True
            elif k.op == "call" and k is not site:
                if any(root(P.term(g, a)) == base and P.term(g, a)[0] != "load" for a in k.a):
                    tg = cg.targets(g, k) if not k.callee else {k.callee}
                    kills = any(writes(key) & cg.reach(x) for x in tg)
            if not kills:
                continue
            if k.block == site.block and k.idx < site.idx:
                return False

            def passes(atom, pol, a_, b_, k=k):
                if nonnull(atom, pol):
                    return True
                if k.op == "call":   # the success edge of the call
                    if atom[0] == "truth" and atom[1][0] == "call" and atom[1][3] == k.id:
                        return pol
                    if atom[0] == "cmp" and atom[2][0] == "call" and atom[2][3] == k.id and atom[3] in (("const", 0), ("null",)):
                        return not Q._poleq(atom, pol)
                return False
            eg = P.edge_graph(g)
            for n in eg:
                if n[1] == k.block:
                    for (sn, atom, pol) in eg[n]:
                        if atom is not None and passes(atom, pol, n[1], sn[1]):
                            continue
                        if sn[1] == site.block or site.block in P.reach_blocks(g, drop=passes, start=sn):
                            return False
        return True
    n = 0
    bad = []

    def judge(g, site, t, depth):
        if guarded(g, site, t):
            return
        if t[0] == "param" and depth < 3:
            for c in P.callers_of(g):
                if c.fn.name in reach and t[1] < len(c.a):
                    judge(c.fn, c, P.term(c.fn, c.a[t[1]]), depth + 1)
            return
        bad.append((g, site, t))
    for name in sorted(reach):
        g = P.functions.get(name)
        if g is None or g.base != "cJSON.c":
            continue
        for i in g.all_insts():
            if i.op == "call" and not i.callee and is_dealloc(g, i):
                n += 1
                judge(g, i, P.term(g, i.a[0]), 0)
    ctx.count("release_hook_sites", n)
    ctx.ob("C15.1 R-NULL", cf, "release-hook-argument-is-non-null", not bad and n >= 8 and installed,
           ("%s() hands %s to the release hook at %s without having found it non-NULL: the hook is cjet_free(), which reads the size "
            "header in front of the block - when an allocation inside the printer fails this is a NULL dereference" %
            (bad[0][0].srcname, fmt_term(bad[0][2])[:80], bad[0][1].loc)) if bad else
           "%d reachable release-hook call sites, all null-guarded (installed: %s)" % (n, installed))


def clause4_library_add_fails_clean(ctx, P):
    """cjet's add wrapper deletes the item when the bundled cJSON cannot attach it - so cJSON's add_item_to_object() must leave the
    item whole when it reports failure: on every path that returns false nothing of the item has been released (the key the item
    still carries, from the object it was duplicated out of, is freed only once the new key exists)"""
    f = P.fn("cJSON.c:add_item_to_object")
    bad = None
    n = 0
    for v in Q.path_views(ctx, P, f):
        if v.ret_const() != 0:
            continue
        n += 1
        for _, i in v.insts():
            if i.op == "call" and not i.callee:
                t = P.term(f, i.ind) if getattr(i, "ind", None) is not None else None
                if t is not None and Q.mentions(t, lambda x: x[0] == "field" and x[3] in ("deallocate", "#1")):
                    bad = (v, i)
    ctx.ob("C15.1 R-COMMIT", f, "failed-library-add-leaves-the-item-whole", bad is None and n >= 1,
           ("cJSON's add_item_to_object() reports failure at a point where it has already released part of the item (%s): the caller's "
            "cJSON_Delete(item) frees the dangling key a second time" % bad[1].loc) if bad else "%d failing path(s), none releases anything" % n,
           witness=bad[0].witness() if bad else None)


def run(ctx):
    for cfg in ctx.configs(["default"] if ctx.tier == "quick" else None):
        P, cg = cfg.P, cfg.cg
        own = Own(ctx, P, cg)
        clause1_null(ctx, P, cg, own)
        clause2_ret(ctx, P, cg, own)
        clause3_release_hook(ctx, P, cg, own)
        c07.clause1_own(ctx, P, cg, own)
        c07.clause16_handed_over_items(ctx, P)
        clause4_library_add_fails_clean(ctx, P)
        c07.clause7_linked(ctx, P, cg, own)
        c02.clause1_overwrite(ctx, P, cg)
        c04.clause4_commit(ctx, P, cg)
        c08.clause2_who(ctx, P)
        c11.clause3_no_release(ctx, P, cg)
        c13.clause2_hook(ctx, P, cg)
        c01.clause9_refused_fetch_is_gone(ctx, P, cg)
        from .c16 import clause9_matcher_count      # what a refusal in the middle of a rule releases
        clause9_matcher_count(ctx, P)
        from .c20 import clause4_effective           # an update that fails half-way (allocation, write) leaves the old credentials in force
        clause4_effective(ctx, P, cg)
