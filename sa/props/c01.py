"""C01 — fetch replica: structural clauses."""
from ..frontend import AnalysisBroken
from ..core import queries as Q
from ..core.program import fmt_term, fmt_atom

META = {
    "explanation": (
        "(1) R-COMMIT: in the add handler no path releases the new element after subscribers may already have been sent its "
        "'add' event, unless it compensates with a 'remove' event or the element was inserted; "
        "(2) R-ORDER/R-GATE: in the pairing function every path that registers a fetch in element.fetcher_table also emits "
        "exactly one 'add' for the same (element, fetch), and vice versa, both only under has_access and state_matches != 0; "
        "(3) R-WHO: 'add' is emitted only by the pairing function, reached only from the two iteration contexts; 'change' only "
        "by the change handler after the value store; 'remove' only by remove_element, before the element is unlinked, removed "
        "from the index and freed; "
        "(4) R-ORDER: the fetch handler creates its success response after the iteration over all peers, and only the "
        "dispatcher transmits it; "
        "(5) R-ORDER/R-FINI: unfetch and peer teardown purge the fetch from every element's subscriber table (loop nest over "
        "the global peer list x element list, every slot) before the fetch is unlinked and freed; free_peer_resources removes "
        "fetches before elements and both before unlinking the peer."),
    "not_decided": "the equality 'replayed notifications = current element set' over histories; run-time table sizes; content of "
                   "the notifications beyond the event name and the (element, fetch) pair",
    "assumptions": [],
}


def _event_sites(P):
    out = []
    for f in P.own_functions():
        for c in f.calls("notify_fetching_peer"):
            out.append((f, c, Q.arg_literal(P, c, 2)))
        for c in f.calls("notify_fetchers"):
            out.append((f, c, Q.arg_literal(P, c, 1)))
    return out


def clause1_drop(ctx, P, cg):
    add = P.fn("element.c:add_element_to_peer")
    views = Q.path_views(ctx, P, add)
    ff = add.calls("find_fetchers_for_element")
    if len(ff) != 1:
        raise AnalysisBroken("add handler: find_fetchers_for_element call not found")
    ff = ff[0]
    found = {}
    for v in views:
        seq = [(k, i) for k, i in v.insts() if i.op == "call" and i.callee]
        pos = [k for k, i in seq if i.id == ff.id]
        if not pos:
            continue
        inserted = False
        for (a, p) in v.atoms:
            if a[0] == "cmp" and Q.is_call_to(a[2], "element_table_put") and a[3][0] == "const":
                if Q._poleq(a, p) and a[3][1] == Q.macro(P, "element.c", "HASHTABLE_SUCCESS"):
                    inserted = True
        comp = any(P.srcname_of(i.callee) == "notify_fetchers" and Q.arg_literal(P, i, 1) == "remove" for k, i in seq if k > pos[0])
        for k, i in seq:
            if k > pos[0] and P.srcname_of(i.callee) in ("free_element", "cjet_free") and not inserted and not comp:
                t = P.term(add, i.a[0])
                if Q.is_call_to(t, "alloc_element") or P.srcname_of(i.callee) == "free_element":
                    found.setdefault(Q.ordinal_site(add, i, P), v)
    for c in add.calls("free_element"):
        site = Q.ordinal_site(add, c, P)
        v = found.get(site)
        ctx.ob("C01.1 R-COMMIT", add, "drop-after-add:" + site, v is None,
               "subscribers may already have received 'add' for the new element (find_fetchers_for_element notifies one by one) "
               "when it is released here without a compensating 'remove' and without ever being inserted: a replica then holds "
               "an element that does not exist" if v is not None else "no add-then-drop on this release", witness=v.witness() if v else None)
    ctx.floor("C01.1 R-COMMIT", 1)


def clause2_pair(ctx, P):
    pf = P.fn("fetch.c:add_fetch_to_state_and_notify")
    views = Q.path_views(ctx, P, pf)
    bad = None
    nreg = 0
    for v in views:
        regs = [i for _, i in v.calls("add_fetch_to_state")]
        nots = [i for _, i in v.calls("notify_fetching_peer") if Q.arg_literal(P, i, 2) == "add"]
        reg_ok = False
        for r in regs:
            for (a, p) in v.atoms:
                if a[0] == "cmp" and a[2][0] == "call" and a[2][3] == r.id and a[3] == ("const", 0):
                    reg_ok = Q._poleq(a, p) if a[1] in ("eq", "ne") else reg_ok
        if regs:
            nreg += 1
        if reg_ok and len(nots) != 1:
            bad = (v, "fetch registered for the element but %d 'add' events emitted" % len(nots))
        if nots and not reg_ok:
            bad = (v, "'add' emitted without a successful registration")
        for n in nots:
            for r in regs:
                if P.term(pf, n.a[0]) != P.term(pf, r.a[0]) or P.term(pf, n.a[1]) != P.term(pf, r.a[1]):
                    bad = (v, "registration and 'add' event concern different (element, fetch) pairs")
    ctx.ob("C01.2 R-ORDER", pf, "register<->add", bad is None and nreg > 0, bad[1] if bad else "registration and add event are paired on every path",
           witness=bad[0].witness() if bad else None)
    for c in pf.calls(("add_fetch_to_state", "notify_fetching_peer")):
        e_t, f_t = P.term(pf, c.a[0]), P.term(pf, c.a[1])

        def matches(atom, pol):
            t = None
            if atom[0] == "cmp" and atom[3] == ("const", 0):
                t = atom[2]
                pol = pol if atom[1] == "ne" else not pol
            elif atom[0] == "truth":
                t = atom[1]
            return t is not None and Q.is_call_to(t, "state_matches") and t[2] == (e_t, f_t) and pol
        ctx.ob("C01.2 R-GATE", pf, Q.ordinal_site(pf, c, P) + ":matches", Q.must_pass(P, pf, c.block, matches),
               "%s reachable without state_matches(e, f) != 0 on the same pair" % P.srcname_of(c.callee))
        from .c08 import _has_access_gate
        vis = _has_access_gate(lambda t: t == e_t, lambda t: Q.is_field_load(t, "struct.fetch", "peer") == f_t, "fetch_groups")
        ctx.ob("C01.2 R-GATE", pf, Q.ordinal_site(pf, c, P) + ":visible", Q.must_pass(P, pf, c.block, vis),
               "%s reachable for an element that is not visible to the fetching peer (no has_access on the pair)" % P.srcname_of(c.callee))
    ctx.floor("C01.2 R-GATE", 4)


def clause3_who(ctx, P):
    sites = _event_sites(P)
    if len(sites) < 3:
        raise AnalysisBroken("event emit sites: %d" % len(sites))
    for (f, c, ev) in sites:
        site = Q.ordinal_site(f, c, P)
        callee = P.srcname_of(c.callee)
        if callee == "notify_fetching_peer":
            if f.srcname == "notify_fetchers":
                # forwards its parameter
                t = P.term(f, c.a[2])
                ctx.ob("C01.3 R-WHO", f, site, t[0] == "param", "table walk emits a fixed event instead of its parameter")
                continue
            ok = ev == "add" and f.key == "fetch.c:add_fetch_to_state_and_notify"
            ctx.ob("C01.3 R-WHO", f, site, ok, "event '%s' emitted directly by %s (only the guarded pairing function may emit 'add')" % (ev, f.key))
        else:
            if ev == "change":
                ok = f.key == "element.c:change_state"
                if ok:
                    # after the value store
                    st = [s for s in Q.field_stores(P, "struct.element", "value") if s.fn is f]
                    dom = f.dominators()
                    ok = bool(st) and all(s.block in dom[c.block] and (s.block != c.block or s.idx < c.idx) for s in st)
                ctx.ob("C01.3 R-WHO", f, site, ok, "'change' is emitted outside the change handler or before the new value is stored")
            elif ev == "remove":
                ok = f.key == "element.c:remove_element"
                if ok:
                    later = [i for i in f.all_insts() if i.op == "call" and i.callee and
                             P.srcname_of(i.callee) in ("list_del", "element_table_remove", "free_element")]
                    dom = f.dominators()
                    ok = len(later) >= 3 and all(c.block in dom[i.block] and (c.block != i.block or c.idx < i.idx) for i in later)
                ctx.ob("C01.3 R-ORDER", f, site, ok, "'remove' is not emitted before the element is unlinked, removed from the index and freed")
            else:
                ctx.ob("C01.3 R-WHO", f, site, False, "unexpected event name %r emitted at %s" % (ev, c.loc))
    pf = P.fn("fetch.c:add_fetch_to_state_and_notify")
    callers = sorted(set(c.fn.key for c in P.callers_of(pf)))
    ctx.ob("C01.3 R-WHO", pf, "callers", callers == ["fetch.c:add_fetch_to_states_in_peer", "fetch.c:find_fetchers_for_element_in_peer"],
           "pairing function is called from %s" % callers)
    # the element iteration context passes elements of the walked peer, the fetch iteration passes fetches of the walked peer
    for key, lst, arg in (("fetch.c:add_fetch_to_states_in_peer", "element_list", 1), ("fetch.c:find_fetchers_for_element_in_peer", "fetch_list", 2)):
        f = P.fn(key)
        for c in f.calls("add_fetch_to_state_and_notify"):
            lv, flds = Q.leaves(P, f, c.a[arg])
            ctx.ob("C01.3 R-PAIR", f, Q.ordinal_site(f, c, P) + ":" + lst, ("struct.peer", lst) in flds and all(l[0] == "param" for l in lv),
                   "iteration does not walk peer.%s" % lst)
    ctx.floor("C01.3 R-WHO", 3)


def clause4_order(ctx, P):
    f = P.fn("fetch.c:add_fetch_to_states")
    loops = f.loops()
    inner = f.calls("add_fetch_to_states_in_peer")
    okc = f.calls("create_success_response_from_request")
    in_loop = lambda i: any(i.block in body for body in loops.values())
    ok = bool(inner) and bool(okc) and all(in_loop(i) for i in inner) and not any(in_loop(i) for i in okc)
    # success response only on paths that left the loop normally: dominated by loop header exit
    ctx.ob("C01.4 R-ORDER", f, "success-after-iteration", ok,
           "the fetch's success response is not created strictly after the iteration that emits the adds")
    lv, flds = (set(), set())
    for i in inner:
        lv, flds = Q.leaves(P, f, i.a[0])
    ctx.ob("C01.4 R-PAIR", f, "walks-all-peers", any(Q.is_call_to(l, "get_peer_list") for l in lv) and ("struct.peer", "next_peer") in flds,
           "the add iteration does not walk the global peer list")
    pfh = P.fn("parse.c:process_fetch")
    vs = Q.path_views(ctx, P, pfh)
    ok = True
    for v in vs:
        names = [P.srcname_of(i.callee) for _, i in v.calls() if i.callee]
        if "add_fetch_to_states" in names:
            rt = Q.ret_value_term(v)
            ok = ok and Q.is_call_to(rt, "add_fetch_to_states")
    ctx.ob("C01.4 R-ORDER", pfh, "returns-handler-result", ok, "fetch handler does not return the iteration's response to the dispatcher")


def clause5_teardown(ctx, P):
    for key in ("fetch.c:remove_fetch_from_peer", "fetch.c:remove_all_fetchers_from_peer"):
        f = P.fn(key)
        views = Q.path_views(ctx, P, f)
        bad = None
        n = 0
        for v in views:
            seq = [(k, P.srcname_of(i.callee), i) for k, i in v.calls() if i.callee]
            for k, nme, i in seq:
                if nme == "free_fetch":
                    n += 1
                    ft = P.term(f, i.a[0])
                    before = [(kk, nn, ii) for kk, nn, ii in seq if kk < k]
                    purged = any(nn == "remove_fetch_from_states" and P.term(f, ii.a[0]) == ft for kk, nn, ii in before)
                    unlinked = any(nn == "list_del" for kk, nn, ii in before)
                    if not purged or not unlinked:
                        bad = (v, "purged=%s unlinked=%s" % (purged, unlinked))
        ctx.ob("C01.5 R-ORDER", f, "purge-before-free", bad is None and n > 0,
               "a fetch is freed without first being purged from every subscriber table and unlinked (%s): events would be "
               "delivered for a fetch after its unfetch / through a dangling pointer" % (bad[1] if bad else ""),
               witness=bad[0].witness() if bad else None)
    # the purge walks all peers x all elements x all slots
    rfs = P.fn("fetch.c:remove_fetch_from_states")
    lv = set(); flds = set()
    for c in rfs.calls("remove_fetch_from_states_in_peer"):
        lv, flds = Q.leaves(P, rfs, c.a[0])
    ctx.ob("C01.5 R-LOOP", rfs, "all-peers", any(Q.is_call_to(l, "get_peer_list") for l in lv) and ("struct.peer", "next_peer") in flds
           and bool(rfs.loops()), "the purge does not walk the global peer list")
    rip = P.fn("fetch.c:remove_fetch_from_states_in_peer")
    lv = set(); flds = set()
    for c in rip.calls("remove_fetch_from_state"):
        lv, flds = Q.leaves(P, rip, c.a[0])
    ctx.ob("C01.5 R-LOOP", rip, "all-elements", ("struct.peer", "element_list") in flds and bool(rip.loops()),
           "the purge does not walk every element of the peer")
    rs = P.fn("fetch.c:remove_fetch_from_state")
    ok = False
    for lh, body in rs.loops().items():
        t = rs.term_inst(lh)
        if t.op == "br" and t.a:
            c = P.cond(rs, t.a[0])
            if c[0] != "const" and c[0][0] == "cmp" and c[0][1] == "ult" and c[0][2][0] == "phi" and \
                    Q.is_field_load(c[0][3], "struct.element", "fetch_table_size") is not None:
                ph = rs.insts[c[0][2][1]]
                if 0 in [P.const_int(v) for v, _ in ph.inc]:
                    # no early exit from the loop other than the header
                    exits = [(b, s) for b in body for s in rs.succs[b] if s not in body]
                    if all(b == lh for b, s in exits):
                        ok = True
    clears = [i for i in rs.all_insts() if i.op == "store" and P.is_null(i.a[0])]
    ctx.ob("C01.5 R-LOOP", rs, "all-slots", ok and bool(clears), "the purge does not visit every slot of the subscriber table (0..size-1, no early exit)")
    # teardown order in free_peer_resources
    fpr = P.fn("peer.c:free_peer_resources")
    seq = [P.srcname_of(i.callee) for i in fpr.all_insts() if i.op == "call" and i.callee]
    try:
        a, b, c = seq.index("remove_all_fetchers_from_peer"), seq.index("remove_all_elements_from_peer"), seq.index("list_del")
        ok = a < b < c and fpr.nblocks >= 1
    except ValueError:
        ok = False
    dom_ok = True
    ctx.ob("C01.5 R-ORDER", fpr, "fetches<elements<unlink", ok,
           "peer teardown does not remove the peer's fetches before its elements and both before unlinking the peer (order found: %s)" % seq)
    ctx.floor("C01.5 R-ORDER", 3)


def clause7b_failed_attach_is_reported(ctx, P):
    """the walk can only refuse a fetch it hears about: in add_fetch_to_state_and_notify() every path on which attaching the fetch to
    the element, or announcing the element to it, has failed returns a failure - a failure that is only logged lets the fetch be
    answered with success while one matching state will never notify it"""
    f = P.fn("fetch.c:add_fetch_to_state_and_notify")
    bad = None
    n = 0
    for v in Q.path_views(ctx, P, f):
        failed = None
        for (a, p) in v.atoms:
            if a[0] == "cmp" and a[3] == ("const", 0) and a[2][0] == "call" and a[2][1] in ("add_fetch_to_state", "notify_fetching_peer"):
                if (a[1] == "ne" and p) or (a[1] == "eq" and not p) or (a[1] == "slt" and p):
                    failed = a[2][1]
        if failed is None:
            continue
        n += 1
        rc = v.ret_const()
        if rc is None or rc >= 0:
            bad = (v, failed)
    ctx.ob("C01.1 R-RET", f, "failed-attach-is-reported", bad is None and n >= 2,
           ("add_fetch_to_state_and_notify() returns success on a path on which %s() has failed: the fetch is accepted and stays "
            "registered, but that state will never be announced or notify it" % bad[1]) if bad else "%d failing paths, each reported" % n,
           witness=bad[0].witness() if bad else None)


def clause7_attach_all(ctx, P, cg):
    """a fetch is answered with success only if attaching it succeeded at EVERY peer: inside the walk over the peers the result
    of the per-peer step is tested and a failure leaves the walk (a result that is only looked at after the loop is the last
    peer's)"""
    f = P.fn("fetch.c:add_fetch_to_states")
    cs = f.calls("add_fetch_to_states_in_peer")
    loops = f.loops()
    ok = False
    if len(cs) == 1 and loops:
        c = cs[0]
        for h, body in loops.items():
            if c.block not in body:
                continue
            for b in sorted(body):
                for (sv, atom, pol) in P.edge_conds(f, b):
                    if sv not in body and atom is not None and Q.mentions(atom, lambda x: x[0] == "call" and x[3] == c.id):
                        ok = True
    ctx.ob("C01.1 R-LOOP", f, "attach-failure-leaves-the-walk", ok,
           "the result of add_fetch_to_states_in_peer() is not tested inside the walk over the peers: only the last peer's result "
           "decides the answer, so a fetch is confirmed although the states of an earlier peer were never announced")


def clause6_event_payload(ctx, P, cg):
    """what a subscriber is told is a private copy of the element's value, rendered without a size limit of its own"""
    nf = P.fn("fetch.c:notify_fetching_peer")
    nval = 0
    for c in nf.calls(("add_item_to_object", "cJSON_AddItemToObject", "cJSON_AddItemToObjectCS")):
        if Q.arg_literal(P, c, 1) == "value":
            nval += 1
            t = P.term(nf, c.a[2])
            ok = Q.is_call_to(t, "cJSON_Duplicate") and Q.is_field_load(t[2][0], "struct.element", "value") is not None
            ctx.ob("C01.4 R-PAIR", nf, Q.ordinal_site(nf, c, P) + ":event-value-is-a-copy", ok,
                   "the value attached to a notification is %s, expected cJSON_Duplicate(e->value): lending the element's own value to "
                   "the message lets an error path of the message (the add helper frees an item it cannot attach) release the state's "
                   "live value" % fmt_term(t))
    if nval < 1:
        raise AnalysisBroken("notify_fetching_peer: value attachment not found")
    # rendering: heap rendering only (a fixed-size buffer silently drops messages that are larger than it)
    fixed = []
    for f in P.own_functions():
        for c in f.calls(("cJSON_PrintPreallocated",)):
            fixed.append(c)
    ctx.ob("C01.4 R-WHO", nf, "messages-rendered-without-own-size-limit", not fixed,
           "%s renders a message with cJSON_PrintPreallocated() into a fixed buffer at %s: a notification that is larger than the "
           "buffer is dropped without anybody noticing, the subscriber's replica goes stale" %
           (fixed[0].fn.srcname if fixed else "", fixed[0].loc if fixed else ""))


def clause8_fetch_identity(ctx, P):
    """a fetch is found again (unfetch, duplicate test) by its id: two ids are the same iff their types agree and their VALUES agree
    in full - numbers by valuedouble (valueint saturates at INT_MAX and drops the fraction: 7 and 7.5, or two millisecond time
    stamps, would name the same fetch), strings by strcmp"""
    f = P.fn("fetch.c:ids_equal")
    FULL = {"type": "icmp", "valuedouble": "fcmp", "valuestring": "strcmp"}
    pairs = []

    def side(t):
        b = None
        for fld in ("type", "valuedouble", "valuestring", "valueint", "string"):
            x = Q.is_field_load(t, "struct.cJSON", fld)
            if x is not None and x[0] == "param":
                b = (x[1], fld)
        return b
    for i in f.all_insts():
        if i.op in ("icmp", "fcmp") or (i.op == "call" and i.callee and P.srcname_of(i.callee) in ("strcmp", "strncmp", "memcmp")):
            a, b = side(P.term(f, i.a[0])), side(P.term(f, i.a[1]))
            if a and b and a[0] != b[0]:
                how = i.op if i.op != "call" else P.srcname_of(i.callee)
                pairs.append((a[1], b[1], how, i))
    wrong = [x for x in pairs if x[0] != x[1] or FULL.get(x[0]) != x[2]]
    have = {x[0] for x in pairs if x not in wrong}
    ctx.ob("C01.5 R-PAIR", f, "fetch-ids-compared-in-full", not wrong and have == set(FULL),
           ("ids_equal compares %s with %s by %s at %s: two different ids (numbers beyond INT_MAX, numbers differing in the fraction) "
            "name the same fetch - an unfetch removes somebody's live fetch, whose replica goes stale" %
            (wrong[0][0], wrong[0][1], wrong[0][2], wrong[0][3].loc)) if wrong else
           "ids_equal compares %s of the two ids (expected type, valuedouble, valuestring)" % sorted(have))


def clause9_refused_fetch_is_gone(ctx, P, cg):
    """a fetch request that is answered with an error leaves no fetch behind: add_fetch_to_peer() has registered the fetch by the
    time the walk over the states starts, so every path of the walk that ends in an error response has detached the fetch from
    the states it already reached (remove_fetch_from_states) and released it (free_fetch reached) - otherwise the client keeps
    getting notifications under an id it was told had failed, and the id stays taken"""
    f = P.fn("fetch.c:add_fetch_to_states")
    fp = ("param", 2, f.params[2]["name"])
    ERR = ("create_error_response_from_request", "create_error_response")
    bad = None
    n = 0
    for v in Q.path_views(ctx, P, f):
        if not any(True for _ in v.calls(ERR)):
            continue
        n += 1
        detached = any(P.term(f, i.a[0]) == fp for _, i in v.calls("remove_fetch_from_states"))
        freed = False
        for _, i in v.insts():
            if i.op == "call" and i.callee and any(P.term(f, a) == fp for a in i.a):
                if P.srcname_of(i.callee) == "free_fetch" or any(P.srcname_of(x) == "free_fetch" for x in cg.reach(i.callee)):
                    freed = True
        if not (detached and freed):
            bad = v
    ctx.ob("C01.6 R-COMMIT", f, "refused-fetch-is-taken-back", bad is None and n > 0,
           "add_fetch_to_states() answers with an error on a path that leaves the fetch registered at the peer and attached to the "
           "states it had reached: the client gets notifications under a fetch id it was told had failed, and a new fetch with that "
           "id is refused as 'already in use'", witness=bad.witness() if bad else None)


def clause10_visibility_inputs(ctx, P):
    """what a fetch is shown depends on the element's fetch groups: they are recorded for EVERY element that is added with an access
    object, states and methods alike - every non-failing path of the function that fills the groups calls fill_fetch_groups()"""
    hosts = {c.fn for c in Q.call_sites(P, "fill_fetch_groups")}
    if len(hosts) != 1:
        raise AnalysisBroken("fill_fetch_groups call sites: %d functions" % len(hosts))
    f = next(iter(hosts))
    others = ("fill_set_groups", "fill_call_groups")
    bad = None
    n = 0
    for v in Q.path_views(ctx, P, f):
        if not any(True for _ in v.calls(others)):
            continue      # paths that fill nothing (no access object, early failures)
        rc = v.ret_const()
        if rc is not None and rc < 0:
            continue
        n += 1
        if not any(True for _ in v.calls("fill_fetch_groups")):
            bad = v
    ctx.ob("C01.3 R-PAIR", f, "fetch-groups-filled-for-every-kind", bad is None and n > 0,
           "%s() fills the set/call groups of an element on a path that skips fill_fetch_groups(): the element keeps fetch_groups 0, so a "
           "fetcher that is entitled to it never sees it (or, without any registry, the restriction is lost)" % f.srcname,
           witness=bad.witness() if bad else None)


def clause11_fetcher_table(ctx, P):
    """(a) a fetch is entered into the fetcher table of a state exactly once: on every successful path of add_fetch_to_state() the fetch
    is stored into a slot once or handed to the recursive call once, never both (two entries = every change and remove twice);
    (b) a new element is offered to the fetches of every peer on every path: the walk of find_fetchers_for_element() over the peers is
    not skipped on account of some global state (a counter that another code path forgets to maintain)"""
    f = P.fn("fetch.c:add_fetch_to_state")
    fp = ("param", 1, f.params[1]["name"])
    bad = None
    n = 0
    for v in Q.path_views(ctx, P, f):
        rc = v.ret_const()
        if rc is not None and rc != 0:
            continue
        entries = 0
        for _, i in v.insts():
            if i.op == "store" and P.term(f, i.a[0]) == fp and P.term(f, i.a[1])[0] != "alloca":
                entries += 1
            if i.op == "call" and i.callee == f.name and len(i.a) > 1 and P.term(f, i.a[1]) == fp:
                entries += 1
        n += 1
        if entries != 1:
            bad = (v, entries)
    ctx.ob("C01.2 R-PAIR", f, "fetch-entered-exactly-once", bad is None and n > 0,
           "add_fetch_to_state() enters the fetch %s times on a successful path (slot store and recursive call both count): the subscriber "
           "is told every change and remove twice, the second remove is for a path it no longer knows" % (bad[1] if bad else "?"),
           witness=bad[0].witness() if bad else None)
    g = P.fn("fetch.c:find_fetchers_for_element")
    loops = g.loops()
    okw = len(loops) >= 1
    if okw:
        dom = g.dominators()
        exits = [b for b in range(g.nblocks) if g.term_inst(b).op == "ret"]
        okw = any(all(h in dom[b] for b in exits) for h in loops)
    # ... and inside the walk no peer is passed over: the per-peer search dominates the loop latch
    cs_ = g.calls("find_fetchers_for_element_in_peer")
    if okw and cs_:
        lp = {h: body for h, body in loops.items() if any(c.block in body for c in cs_)}
        if len(lp) == 1:
            (h_, body_), = lp.items()
            dom_ = g.dominators()
            latches_ = [b for b in body_ if h_ in g.succs[b]]
            okw = all(any(c.block in dom_[l] for c in cs_) for l in latches_)
        else:
            okw = False
    ctx.ob("C01.2 R-LOOP", g, "every-peer-is-asked-on-every-path", okw,
           "find_fetchers_for_element() can return without walking the peers, or passes over some peer inside the walk (the owner, say): "
           "elements added then are never announced or attached for the fetches concerned, their later changes and removes are lost too")


def run(ctx):
    for cfg in ctx.configs(["default"] if ctx.tier == "quick" else None):
        P, cg = cfg.P, cfg.cg
        clause1_drop(ctx, P, cg)
        clause2_pair(ctx, P)
        clause3_who(ctx, P)
        clause4_order(ctx, P)
        clause5_teardown(ctx, P)
        clause6_event_payload(ctx, P, cg)
        clause7_attach_all(ctx, P, cg)
        clause7b_failed_attach_is_reported(ctx, P)
        clause8_fetch_identity(ctx, P)
        clause9_refused_fetch_is_gone(ctx, P, cg)
        clause10_visibility_inputs(ctx, P)
        clause11_fetcher_table(ctx, P)
        from .c02 import clause5b_number_rendering     # 'each with its most recently accepted value': values are rendered exactly
        clause5b_number_rendering(ctx, P)
        from .c11 import clause1_fanout                # no subscriber is passed over when an event is fanned out
        clause1_fanout(ctx, P, cg)
