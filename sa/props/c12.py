"""C12 — WebSocket endpoint: structural clauses."""
from ..frontend import AnalysisBroken
from ..core import queries as Q
from ..core.program import fmt_term, fmt_atom

META = {
    "technique": "static analysis: repository-specific guard-dominance / typestate / path rules over LLVM IR (CFG, SSA, resolved call graph), table extraction by finite evaluation (close codes, HTTP version), constants from the units' macro tables",
    "explanation": (
        "(1) close discipline (typestate over ws_handle_frame, the ws_get_* read callbacks and the header-line callback): a path "
        "on which the module itself decides the verdict returns CLOSED with exactly one close (handle_error / websocket_close) "
        "and OK with none; the status argument is an RFC 6455 constant, and for the violations with an unambiguous condition the "
        "code is checked (unmasked client frame, reserved bits without extension, fragmented or >125-byte control frame, reserved "
        "opcode, 1-byte/oversized/invalid close payload -> 1002; invalid UTF-8 close reason -> 1007; missing callback -> 1003); "
        "(2) R-NULL: every call through a callback field of struct websocket (directly or handed to the compression wrappers) is "
        "null-guarded or the field is assigned non-NULL by the constructor; "
        "(3) server frames: masking only under is_server == false and the daemon constructs its websocket with the constant true; "
        "FIN always set; length encoding thresholds 126 / 65536 with markers 126 / 127 and the same length in the extended field; "
        "(4) ping -> pong with the handler's own frame/length; "
        "(5) handshake: digest input is key || GUID with the RFC GUID literal and consistent sizes; 101 only if (protocol "
        "requested => found), version 13, GET, HTTP >= 1.1, upgrade set, and only after the key callback recorded a key; "
        "(6) transparency: both transports hand (buffer, length, own peer) to parse_message and turn a negative result into "
        "closing the connection."),
    "not_decided": "RFC conformance over all frame sequences; SHA-1 / base64 arithmetic; compression paths (C19)",
    "assumptions": [],
    "trusted_base": ["RFC 6455 constants quoted in the rule (GUID, status codes, length markers)"],
}

RFC_CODES = {1000, 1001, 1002, 1003, 1007, 1008, 1009, 1010, 1011}
GUID = "258EAFA5-E914-47DA-95CA-C5AB0DC85B11"


def _bf_atom(P, atom, name):
    """atom compares bit-field member `name`; returns (pred, const) or None"""
    if atom[0] == "cmp" and atom[3][0] == "const":
        b = Q.bitfield_of(P, atom[2])
        if b and b[1] == name:
            return (atom[1], atom[3][1])
    return None


def _eff(pred, pol):
    return pred if pol else Q.negate_pred(pred)


def clause1_close(ctx, P, cg):
    WS_CLOSED, WS_OK = Q.enum(P, "WS_CLOSED"), Q.enum(P, "WS_OK")
    BS_CLOSED, BS_OK = Q.enum(P, "BS_CLOSED"), Q.enum(P, "BS_OK")
    fns = [("websocket.c:ws_handle_frame", WS_CLOSED, WS_OK)]
    rc_key = ("struct.buffered_socket", P.field_index("struct.buffered_socket", "read_callback"))
    for name in sorted(cg.field_funcs.get(rc_key, ())):
        g = P.functions[name]
        if g.base == "websocket.c":
            fns.append((g.key, BS_CLOSED, BS_OK))
    if len(fns) < 8:
        raise AnalysisBroken("websocket read callbacks discovered: %d" % (len(fns) - 1))
    close_names = ("handle_error", "websocket_close")
    n_paths = 0
    for key, CLOSED, OK in fns:
        f = P.fn(key)
        views = Q.path_views(ctx, P, f)
        bad = None
        badcode = None
        for v in views:
            rc = v.ret_const()
            if rc is None:
                continue  # verdict forwarded from a callee (judged there)
            n_paths += 1
            closes = [i for _, i in v.calls(close_names)]
            fwd_closed = False
            for (a, p) in v.atoms:
                # the callee's verdict CLOSED is being forwarded (switch on / compare with a call result)
                if a[0] == "switch" and a[1][0] in ("call", "icall") and a[2] == WS_CLOSED:
                    fwd_closed = True
                if a[0] == "cmp" and a[2][0] in ("call", "icall") and a[3] == ("const", WS_CLOSED) and Q._poleq(a, p) \
                        and a[2][0] == "call" and a[2][1] in ("ws_handle_frame",):
                    fwd_closed = True
            if rc == CLOSED:
                want = 0 if (fwd_closed and not closes) else 1
                # close frame: websocket_close + user callback is one close
                if len(closes) != want and not (fwd_closed and len(closes) == 1):
                    bad = (v, "returns CLOSED with %d close operation(s)" % len(closes))
            elif rc == OK:
                if closes:
                    bad = (v, "returns OK after closing the connection")
            elif closes and key.endswith(":ws_handle_frame"):
                # any other verdict (WS_ERROR) asks the CALLER to tear the connection down: doing it here as well is a second
                # teardown of an already released websocket
                bad = (v, "closes the connection and then returns verdict %s, on which the caller closes it again" % rc)
            for c in closes:
                code = P.const_int(c.a[1])
                if code is None or code not in RFC_CODES:
                    badcode = (v, "close status %s is not an RFC 6455 status constant" % code)
        ctx.ob("C12.1 R-TYPESTATE", f, "closed<=>one-close", bad is None, "%s: %s" % (f.srcname, bad[1]) if bad else
               "verdict and close count agree on all constant-verdict paths", witness=bad[0].witness() if bad else None)
        ctx.ob("C12.1 R-TABLE", f, "status-is-rfc-constant", badcode is None, badcode[1] if badcode else "close codes are RFC constants")
    ctx.count("close_paths", n_paths)
    # specific violations -> code
    hf = P.fn("websocket.c:ws_handle_frame")
    SMALL = 125
    table = []  # (label, predicate over path atoms, expected code)

    def has(v, fn):
        return any(fn(a, p) for (a, p) in v.atoms)

    def reserved_opcode(v):
        return has(v, lambda a, p: a[0] == "switch_default" and Q.bitfield_of(P, a[1]) and Q.bitfield_of(P, a[1])[1] == "opcode")

    def rsv_no_ext(v):
        r = has(v, lambda a, p: _bf_atom(P, a, "rsv") is not None and _eff(_bf_atom(P, a, "rsv")[0], p) == "ne" and _bf_atom(P, a, "rsv")[1] == 0)
        ne = has(v, lambda a, p: a[0] == "truth" and Q.mentions(a[1], lambda x: x[0] == "field" and x[3] == "accepted") and not p)
        return r and ne

    def frag_control(v):
        fin0 = has(v, lambda a, p: _bf_atom(P, a, "fin") is not None and _eff(_bf_atom(P, a, "fin")[0], p) == "eq" and _bf_atom(P, a, "fin")[1] == 0)
        ctl = has(v, lambda a, p: _bf_atom(P, a, "opcode") is not None and _eff(_bf_atom(P, a, "opcode")[0], p) in ("sge", "uge") and _bf_atom(P, a, "opcode")[1] == 8)
        return fin0 and ctl

    def big_control(v):
        op = has(v, lambda a, p: a[0] == "switch" and Q.bitfield_of(P, a[1]) and Q.bitfield_of(P, a[1])[1] == "opcode" and a[2] in (9, 10))
        big = has(v, lambda a, p: a[0] == "cmp" and a[2][0] == "param" and a[2][1] == 2 and a[3] == ("const", SMALL) and _eff(a[1], p) == "ugt")
        return op and big

    def missing_cb(v):
        return has(v, lambda a, p: a[0] == "cmp" and a[3] == ("null",) and a[2][0] == "load" and a[2][1][0] == "field" and
                   a[2][1][2] == "struct.websocket" and a[2][1][3].endswith("_received") and Q._poleq(a, p))

    def bad_utf8(v):
        return has(v, lambda a, p: a[0] == "truth" and Q.is_call_to(a[1], "cjet_is_byte_sequence_valid") and not p)

    def bad_close(v):
        one = has(v, lambda a, p: a[0] == "cmp" and a[2][0] == "param" and a[2][1] == 2 and a[3] == ("const", 1) and Q._poleq(a, p))
        big = has(v, lambda a, p: a[0] == "switch" and a[2] == 8) and has(v, lambda a, p: a[0] == "cmp" and a[2][0] == "param" and a[2][1] == 2 and a[3] == ("const", SMALL) and _eff(a[1], p) == "ugt")
        inv = has(v, lambda a, p: a[0] == "truth" and Q.is_call_to(a[1], "is_status_code_invalid") and p)
        return one or big or inv
    table = [("reserved opcode", reserved_opcode, 1002), ("reserved bits without extension", rsv_no_ext, 1002),
             ("fragmented control frame", frag_control, 1002), ("control frame payload > 125", big_control, 1002),
             ("callback missing", missing_cb, 1003), ("invalid UTF-8 in close reason", bad_utf8, 1007),
             ("invalid close payload/code", bad_close, 1002)]
    views = Q.path_views(ctx, P, hf)
    for (label, pred, code) in table:
        n = 0
        bad = None
        for v in views:
            hs = [i for _, i in v.calls("handle_error")]
            if len(hs) != 1 or not pred(v):
                continue
            # the decisive condition must be the LAST reason on the path: only count paths that end right after this close
            if v.ret_const() != WS_CLOSED:
                continue
            got = P.const_int(hs[0].a[1])
            # several reasons can hold on one path; accept if this label's code is sent or an earlier rule explains it
            others = [c for (l2, p2, c) in table if l2 != label and p2(v)]
            n += 1
            if got != code and got not in others:
                bad = (v, got)
        ctx.ob("C12.1 R-TABLE", hf, "code:" + label, bad is None and n > 0,
               "%s is answered with close status %s, expected %d" % (label, bad[1] if bad else "?", code) if bad else
               ("no path recognised for: " + label if n == 0 else "%s -> %d on %d path(s)" % (label, code, n)),
               witness=bad[0].witness() if bad else None)
    # the converse: a frame that goes on being processed (no close on the path) has been LOOKED AT - the path carries the test
    # that rules the offence out.  A test that is skipped for one kind of frame (control frames, say) lets that kind through.
    def rsv_zero(v):
        return has(v, lambda a, p: _bf_atom(P, a, "rsv") is not None and _eff(_bf_atom(P, a, "rsv")[0], p) == "eq" and _bf_atom(P, a, "rsv")[1] == 0)

    def ext_accepted(v):
        return has(v, lambda a, p: a[0] == "truth" and Q.mentions(a[1], lambda x: x[0] == "field" and x[3] == "accepted") and p)

    def is_data(v):
        return has(v, lambda a, p: _bf_atom(P, a, "opcode") is not None and _eff(_bf_atom(P, a, "opcode")[0], p) in ("slt", "ult") and _bf_atom(P, a, "opcode")[1] == 8)

    def fin_set(v):
        return has(v, lambda a, p: _bf_atom(P, a, "fin") is not None and _eff(_bf_atom(P, a, "fin")[0], p) == "ne" and _bf_atom(P, a, "fin")[1] == 0)
    surv = [v for v in views if not any(True for _ in v.calls("handle_error")) and v.ret_const() != WS_CLOSED]
    b1 = next((v for v in surv if not rsv_zero(v) and not ext_accepted(v)), None)
    ctx.ob("C12.1 R-GATE", hf, "processed-frame-has-no-reserved-bits", b1 is None and len(surv) > 0,
           "a frame is processed on a path that neither found its RSV bits zero nor the compression extension negotiated: reserved bits "
           "without an extension do not end the connection with 1002 for this kind of frame", witness=b1.witness() if b1 else None)
    b2 = next((v for v in surv if not rsv_zero(v) and not is_data(v)), None)
    ctx.ob("C12.1 R-GATE", hf, "processed-frame-with-rsv-is-a-data-frame", b2 is None and len(surv) > 0,
           "a frame with a reserved bit set is processed on a path that has not established that it is a data frame: a 'compressed' "
           "control frame is not refused", witness=b2.witness() if b2 else None)
    b3 = next((v for v in surv if not fin_set(v) and not is_data(v)), None)
    ctx.ob("C12.1 R-GATE", hf, "processed-control-frame-is-final", b3 is None and len(surv) > 0,
           "a frame is processed on a path that established neither FIN=1 nor a data opcode: a fragmented control frame is not refused",
           witness=b3.witness() if b3 else None)
    gp = P.fn("websocket.c:ws_get_payload")
    n = 0
    bad = None
    for v in Q.path_views(ctx, P, gp):
        unm = any(_bf_atom(P, a, "mask") is not None and _eff(_bf_atom(P, a, "mask")[0], p) == "eq" and _bf_atom(P, a, "mask")[1] == 0 for (a, p) in v.atoms) and \
            any(a[0] == "truth" and Q.mentions(a[1], lambda x: x[0] == "field" and x[3] == "is_server") and p for (a, p) in v.atoms)
        hs = [i for _, i in v.calls("handle_error")]
        if unm and hs and not any(True for _ in v.calls("ws_handle_frame")):
            n += 1
            if P.const_int(hs[0].a[1]) != 1002 or v.ret_const() != BS_CLOSED:
                bad = v
        if unm and not hs and any(True for _ in v.calls("ws_handle_frame")):
            bad = v
    ctx.ob("C12.1 R-TABLE", gp, "code:unmasked client frame", bad is None and n > 0,
           "an unmasked frame received by the server is not refused with 1002 before it is processed", witness=bad.witness() if bad else None)
    ctx.floor("C12.1 R-TYPESTATE", 8)
    ctx.floor("C12.1 R-TABLE", 14)


def clause2_callbacks(ctx, P, cg):
    ws = "struct.websocket"
    n = 0
    init = P.fn("websocket.c:websocket_init")
    ctor_nonnull = set()
    for st in init.all_insts():
        if st.op == "store":
            t = P.term(init, st.a[1])
            if t[0] == "field" and t[2] == ws and P.term(init, st.a[0])[0] == "param":
                pv = P.term(init, st.a[0])

                def nn(atom, pol, pv=pv):
                    return atom[0] == "cmp" and atom[2] == pv and atom[3] == ("null",) and not Q._poleq(atom, pol)
                if Q.must_pass(P, init, st.block, nn):
                    ctor_nonnull.add(t[3])
    for f in P.own_functions():
        if f.base not in ("websocket.c", "compression.c"):
            continue
        for i in f.all_insts():
            if i.op != "call":
                continue
            # (a) direct call through a websocket field
            if not i.callee:
                t = P.term(f, i.ind)
                if t[0] == "load" and t[1][0] == "field" and t[1][2] == ws:
                    fld = t[1][3]
                    n += 1

                    def nn(atom, pol, t=t):
                        return atom[0] == "cmp" and atom[2] == t and atom[3] == ("null",) and not Q._poleq(atom, pol)
                    ok = fld in ctor_nonnull or Q.must_pass(P, f, i.block, nn)
                    ctx.ob("C12.2 R-NULL", f, Q.ordinal_site(f, i, P), ok,
                           "websocket.%s is called without a null test although not every user of the library sets it" % fld)
                elif t[0] == "param":
                    # (b) a callback handed in as parameter: every caller passing a websocket field must guard it
                    for c in P.callers_of(f):
                        at = P.term(c.fn, c.a[t[1]])
                        if at[0] == "load" and at[1][0] == "field" and at[1][2] == ws:
                            n += 1

                            def nn2(atom, pol, at=at):
                                return atom[0] == "cmp" and atom[2] == at and atom[3] == ("null",) and not Q._poleq(atom, pol)
                            ok = at[1][3] in ctor_nonnull or Q.must_pass(P, c.fn, c.block, nn2)
                            ctx.ob("C12.2 R-NULL", c.fn, Q.ordinal_site(c.fn, c, P) + ":" + at[1][3], ok,
                                   "websocket.%s is handed to %s (which calls it) without a null test; the daemon's websocket_peer "
                                   "never sets it" % (at[1][3], f.srcname))
    if n < 8:
        raise AnalysisBroken("websocket callback call sites found: %d" % n)
    ctx.floor("C12.2 R-NULL", 8)


def clause3_server_frames(ctx, P):
    sf = P.fn("websocket.c:send_frame")
    # masking only when !is_server
    for c in sf.calls(("cjet_get_random_bytes", "unmask_payload")):
        def not_server(atom, pol):
            if atom[0] == "cmp" and atom[3] == ("const", 0):
                return Q.mentions(atom[2], lambda x: x[0] == "field" and x[3] == "is_server") and Q._poleq(atom, pol)
            return atom[0] == "truth" and Q.mentions(atom[1], lambda x: x[0] == "field" and x[3] == "is_server") and not pol
        ctx.ob("C12.3 R-GATE", sf, Q.ordinal_site(sf, c, P), Q.must_pass(P, sf, c.block, not_server),
               "masking is applied outside the is_server == false branch")
    for c in Q.call_sites(P, "websocket_init"):
        if c.fn.base == "websocket_peer.c":
            ctx.ob("C12.3 R-PAIR", c.fn, "is_server", P.const_int(c.a[2]) == 1, "the daemon's websocket is not constructed as server")
    # first header byte: FIN
    fin_ok = False
    for i in sf.all_insts():
        if i.op == "store":
            dt = P.term(sf, i.a[1])
            vt = P.term(sf, i.a[0])
            if dt[0] in ("index", "alloca") or (dt[0] == "cgep"):
                if Q.mentions(vt, lambda x: x[0] == "op" and x[1] == "or") and Q.mentions(vt, lambda x: x == ("const", 128)) \
                        and Q.mentions(vt, lambda x: x[0] == "param" and x[1] == 3):
                    fin_ok = True
    ctx.ob("C12.3 R-PAIR", sf, "fin-set", fin_ok, "first header byte is not type | FIN(0x80) | rsv")
    # length thresholds on every path
    views = Q.path_views(ctx, P, sf)
    bad = None
    seen = set()
    measured = {}
    for v in views:
        lt126 = lt64k = None
        odd = None
        for (a, p) in v.atoms:
            if a[0] == "cmp" and a[1] in ("ult", "ule", "ugt", "uge") and a[3][0] == "const" and a[2][0] in ("phi", "param") and a[3][1] > 100:
                measured.setdefault(a[2], v)
                # normalise to 'value < K'
                pred, k = a[1], a[3][1]
                if pred == "ule":
                    pred, k = "ult", k + 1
                elif pred == "ugt":
                    pred, k, p = "ult", k + 1, not p
                elif pred == "uge":
                    pred, p = "ult", not p
                if k == 126:
                    lt126 = p
                elif k == 65536:
                    lt64k = p
                else:
                    odd = k
        # value stored into header byte 1 on this path (phis resolved)
        marker = None
        for k, i in v.insts():
            if i.op == "store":
                dt = P.term(sf, i.a[1])
                if dt[0] == "index" and dt[1][0] == "alloca" and dt[2] == ("const", 1) and dt[3] == 1:
                    val = i.a[0]
                    c = None
                    for _ in range(12):
                        val = v.resolve(P.strip(sf, v.resolve(val)))
                        c = P.const_int(val)
                        if c is not None or not isinstance(val, int) or val < sf.nparams:
                            break
                        ins = sf.insts[val]
                        if ins.op == "or":  # masked variant: marker | 0x80
                            val = ins.a[0]
                        else:
                            break
                    marker = (c & 0x7F) if c is not None else "len"
        case = (lt126, lt64k)
        seen.add((case, marker))
        if odd is not None:
            bad = (v, "length threshold %d is neither 126 nor 65536" % odd)
        if lt126 is True and marker != "len":
            bad = (v, "length < 126 must be encoded in the first length byte")
        if lt126 is False and lt64k is True and marker != 126:
            bad = (v, "126 <= length < 65536 must use marker 126")
        if lt126 is False and lt64k is False and marker != 127:
            bad = (v, "length >= 65536 must use marker 127")
    ctx.ob("C12.3 R-BOUND", sf, "length-encoding", bad is None and len(seen) >= 3, bad[1] if bad else
           "minimal length encoding on all paths (%s)" % sorted(str(s) for s in seen), witness=bad[0].witness() if bad else None)
    # one length decides the form and is the length announced: the thresholds all measure the same value, and that value is what
    # goes into the length field (with compression the deflated length, not the length of the plain message)
    be = sf.calls(("jet_htobe16", "htobe16", "__bswap_16", "jet_htobe64", "htobe64", "__bswap_64"))
    same = len(measured) == 1
    announced = same and all(Q.mentions(P.term(sf, c.a[0]), lambda x: x == next(iter(measured))) for c in be)
    ctx.ob("C12.3 R-PAIR", sf, "one-length-decides-form-and-is-announced", same and announced and len(be) >= 2,
           "send_frame chooses the length form by %s but announces %s: a frame whose two lengths fall on different sides of a "
           "threshold (a message that deflate expands beyond 65535 bytes) gets a header that does not describe the bytes that follow" %
           (" and ".join(sorted(fmt_term(t) for t in measured)), ", ".join(sorted({fmt_term(P.term(sf, c.a[0]))[:40] for c in be}))))
    be16 = sf.calls(("jet_htobe16", "htobe16", "__bswap_16"))
    be64 = sf.calls(("jet_htobe64", "htobe64", "__bswap_64"))
    okx = True
    for c in be16 + be64:
        lv, _ = Q.leaves(P, sf, c.a[0], through_loads=False)
        okx = okx and any(l[0] == "param" and l[1] == 2 or l[0] == "call" for l in lv)
    ctx.ob("C12.3 R-PAIR", sf, "extended-length-is-length", okx and len(be16) == 1 and len(be64) == 1,
           "the extended length field is not the big-endian payload length")
    ctx.floor("C12.3 R-GATE", 2)


def clause4_pong(ctx, P):
    hf = P.fn("websocket.c:ws_handle_frame")
    cs = hf.calls("websocket_send_pong_frame")
    ok = len(cs) == 1 and P.term(hf, cs[0].a[1]) == ("param", 1, hf.params[1]["name"]) and P.term(hf, cs[0].a[2]) == ("param", 2, hf.params[2]["name"]) \
        and P.term(hf, cs[0].a[0]) == ("param", 0, hf.params[0]["name"])
    ctx.ob("C12.4 R-PAIR", hf, "pong-echoes-ping", ok, "the pong does not carry the ping's own frame and length")
    if cs:
        def ping(atom, pol):
            return atom[0] == "switch" and atom[2] == 9
        ctx.ob("C12.4 R-GATE", hf, "pong-only-for-ping", Q.must_pass(P, hf, cs[0].block, ping), "pong sent for an opcode other than ping")
        # a pong that could not be sent ends the connection: going on would leave a ping unanswered on a live connection
        WS_ERROR, WS_CLOSED = Q.enum(P, "WS_ERROR"), Q.enum(P, "WS_CLOSED")
        bad = None
        nfail = 0
        for v in Q.path_views(ctx, P, hf):
            failed = v.has_atom(lambda a, p: a[0] == "cmp" and Q.is_call_to(a[2], "websocket_send_pong_frame") and a[3] == ("const", 0) and
                                ((a[1] == "slt" and p) or (a[1] == "sge" and not p)))
            if failed:
                nfail += 1
                if v.ret_const() not in (WS_ERROR, WS_CLOSED):
                    bad = v
        ctx.ob("C12.4 R-RET", hf, "unsendable-pong-ends-the-connection", bad is None and nfail > 0,
               "when the pong cannot be sent the frame handler goes on (verdict %s): the ping stays unanswered on a connection that is "
               "kept in service" % (bad.ret_const() if bad else "?"), witness=bad.witness() if bad else None)


def clause5c_header_state_is_consumed(ctx, P):
    """which header a value belongs to is remembered in current_header_field by the field callback and is good for exactly one
    value: every path of the value callback resets it.  The field callback leaves it alone for header names it does not know, so a
    value callback that returns without the reset (for an empty value, say) lets the value of the NEXT, unrelated header be taken
    for the key or the version - an exchange that is no valid upgrade gets 101"""
    hv = P.fn("websocket.c:websocket_upgrade_on_header_value")
    UNKNOWN = Q.enum(P, "HEADER_UNKNOWN")
    bad = None
    n = 0
    for v in Q.path_views(ctx, P, hv):
        n += 1
        reset = False
        for _, i in v.insts():
            if i.op == "store":
                d = P.term(hv, i.a[1])
                if d[0] == "field" and d[3] == "current_header_field" and P.const_int(i.a[0]) == UNKNOWN:
                    reset = True
        if not reset:
            bad = v
    ctx.ob("C12.5 R-TYPESTATE", hv, "header-state-is-good-for-one-value", bad is None and n >= 2,
           "websocket_upgrade_on_header_value() returns on a path that does not reset current_header_field: the value of the next "
           "header the field callback does not know is evaluated as if it belonged to the remembered one",
           witness=bad.witness() if bad else None)


def clause5d_upgrade_names_websocket(ctx, P):
    """RFC 6455 4.2.1: the request carries an |Upgrade| header field containing the value "websocket", compared case-insensitively.
    http_parser's `upgrade` flag only says that SOME Upgrade header and 'Connection: upgrade' were seen.  So the 101 is sent only
    behind a test of a record (a member of struct websocket) that is set to true nowhere but behind a case-insensitive comparison
    with the literal "websocket" - otherwise an upgrade to another protocol that carries websocket headers (Upgrade: h2c) becomes
    a jet peer"""
    sur = P.fn("websocket.c:send_upgrade_response")
    wv = [i for i in sur.all_insts() if i.op == "call" and not i.callee]
    if not wv:
        raise AnalysisBroken("send_upgrade_response: the write of the 101 not found")
    site = wv[-1]
    cands = []
    for (atom, pol) in Q.guards_of(P, sur, site.block):
        t = atom[1] if atom[0] == "truth" else atom[2]
        for x in Q.subterms(t):
            if x[0] == "field" and x[2] == "struct.websocket":
                cands.append(x[3])
    ok = None

    def names_websocket(a, p):
        if a[0] != "cmp" or a[3] != ("const", 0) or not ((a[1] == "eq" and p) or (a[1] == "ne" and not p)):
            return False
        c = a[2]
        if not Q.is_call_to(c, ("jet_strncasecmp", "strncasecmp", "jet_strcasecmp", "strcasecmp")):
            return False
        return any(isinstance(x, tuple) and x[0] == "str" and x[1].lower() == "websocket" for x in Q.subterms(c)) or \
            any(x[0] == "global" and (Q.global_text(P, P.globals.get(x[1], {})) or "").lower() == "websocket" for x in Q.subterms(c) if isinstance(x, tuple))
    for fld in sorted(set(cands)):
        sets = []
        for name in Q.field_writers(P, "struct.websocket", fld):
            h = P.functions[name]
            for i in h.all_insts():
                if i.op == "store" and P.const_int(i.a[0]) == 1:
                    d = P.term(h, i.a[1])
                    if d[0] == "field" and (d[2], d[3]) == ("struct.websocket", fld):
                        sets.append((h, i))
        if sets and all(Q.must_pass(P, h, i.block, names_websocket) for (h, i) in sets):
            ok = fld
    ctx.ob("C12.5 R-GATE", sur, "upgrade-header-names-websocket", ok is not None,
           "the 101 is sent without a record that the Upgrade header named \"websocket\" (none of the tested members %s is set only behind "
           "a case-insensitive comparison with that literal): 'Upgrade: h2c' with websocket headers is answered with 101 Switching "
           "Protocols and becomes a jet peer" % sorted(set(cands)) if ok is None else "record: %s" % ok)


def clause5_handshake(ctx, P, cg):
    clause5c_header_state_is_consumed(ctx, P)
    clause5d_upgrade_names_websocket(ctx, P)
    sur = P.fn("websocket.c:send_upgrade_response")
    hc = P.fn("websocket.c:websocket_upgrade_on_headers_complete")
    sk = P.fn("websocket.c:save_websocket_key", required=False)
    sk_folded = sk is None        # the helper folded into the header-value callback by hand: the same tests, on its parameters
    if sk_folded:
        sk = P.fn("websocket.c:websocket_upgrade_on_header_value")
    # GUID literal
    guid_ok = any(Q.global_text(P, g) == GUID for g in P.globals.values() if g.get("file", "").endswith("websocket.c"))
    ctx.ob("C12.5 R-TABLE", sk, "guid-literal", guid_ok, "the RFC 6455 GUID literal %s is not present" % GUID)
    KEYLEN = 24

    def len_is_24(a, p):
        return a[0] == "cmp" and a[2][0] == "param" and a[2][1] == 2 and a[3] == ("const", KEYLEN) and Q._poleq(a, p)
    ok_len = False
    if sk_folded:
        cps = [c for c in sk.all_insts() if c.op == "call" and c.callee and P.srcname_of(c.callee).startswith(("memcpy", "llvm.memcpy")) and
               Q.mentions(P.term(sk, c.a[0]), lambda x: x[0] == "field" and x[3] == "sec_web_socket_key")]
        ok_len = bool(cps) and all(Q.must_pass(P, sk, c.block, len_is_24) for c in cps)
    else:
        for v in Q.path_views(ctx, P, sk):
            if v.ret_const() == 0:
                ok_len = v.has_atom(len_is_24)
    ctx.ob("C12.5 R-GATE", sk, "key-length-24", ok_len, "a key of a length other than 24 is accepted")
    for c in sur.calls("SHA1Input"):
        src = P.term(sur, c.a[1])
        n = P.const_int(c.a[2])
        ctx.ob("C12.5 R-PAIR", sur, "digest-input", Q.mentions(src, lambda x: x[0] == "field" and x[3] == "sec_web_socket_key") and n == KEYLEN + len(GUID),
               "accept digest is not SHA-1 over the stored key || GUID (%s bytes)" % n)
    for c in sur.calls("b64_encode_buffer"):
        n = P.const_int(c.a[1])
        ctx.ob("C12.5 R-PAIR", sur, "digest-encoding", n == 20, "base64 input length is %s, SHA-1 digests have 20 bytes" % n)
    # 101 only if protocol requested => found
    wv = None
    for i in sur.all_insts():
        if i.op == "call" and not i.callee:
            t = P.term(sur, i.ind)
            if t[0] == "load" and t[1][0] == "field" and t[1][3] == "writev":
                wv = i
    if wv is None:
        raise AnalysisBroken("send_upgrade_response: writev site not found")
    bad = None
    for v in Q.path_views(ctx, P, sur):
        if wv.block in v.blocks:
            req = v.has_atom(lambda a, p: a[0] == "truth" and Q.mentions(a[1], lambda x: x[0] == "field" and x[3] == "protocol_requested") and p)
            fnd = v.has_atom(lambda a, p: a[0] == "truth" and Q.mentions(a[1], lambda x: x[0] == "field" and x[3] == "found") and p)
            if req and not fnd:
                bad = v
    ctx.ob("C12.5 R-GATE", sur, "protocol-requested-implies-found", bad is None, "101 is sent although a requested subprotocol was not found",
           witness=bad.witness() if bad else None)
    # gates in on_headers_complete
    sc = hc.calls("send_upgrade_response")
    if len(sc) != 1:
        raise AnalysisBroken("on_headers_complete: send_upgrade_response call")
    sc = sc[0]
    GET = Q.enum(P, "HTTP_GET")
    gates = {
        "http-version": lambda a, p: a[0] == "cmp" and Q.is_call_to(a[2], "check_http_version") and a[3] == ("const", 0) and _eff(a[1], p) in ("sge",),
        "method-get": lambda a, p: a[0] == "cmp" and a[3] == ("const", GET) and Q._poleq(a, p) and (Q.bitfield_of(P, a[2]) or ("", ""))[1] == "method",
        "upgrade-set": lambda a, p: ((a[0] == "cmp" and a[3] == ("const", 0) and (Q.bitfield_of(P, a[2]) or ("", ""))[1] == "upgrade" and not Q._poleq(a, p))
                                      or (a[0] == "truth" and (Q.bitfield_of(P, a[1]) or ("", ""))[1] == "upgrade" and p)),
    }
    for nm, g in gates.items():
        ctx.ob("C12.5 R-GATE", hc, "101:" + nm, Q.must_pass(P, hc, sc.block, g), "the 101 response is reachable without the %s test" % nm)
    cv = P.fn("websocket.c:check_websocket_version")
    okv = any(Q.global_text(P, g) == "13" for g in P.globals.values() if g.get("file", "").endswith("websocket.c"))
    ctx.ob("C12.5 R-TABLE", cv, "version-13", okv, "version literal \"13\" not found")
    hv = P.fn("websocket.c:check_http_version")
    okh = True
    for v in Q.path_views(ctx, P, hv):
        if v.ret_const() == 0:
            maj_gt1 = v.has_atom(lambda a, p: a[0] == "cmp" and (Q.bitfield_of(P, a[2]) or ("", ""))[1] == "http_major" or Q.mentions(a[2] if a[0] == "cmp" else a, lambda x: x[0] == "field" and x[3] == "http_major"))
            okh = okh and maj_gt1
    ctx.ob("C12.5 R-GATE", hv, "http>=1.1", okh, "HTTP version acceptance does not depend on http_major/http_minor")
    # the function is a finite table over (major, minor) as far as it can tell them apart: evaluate it on representatives
    from ..core.feval import FEval
    try:
        ev = FEval(P, hv, "struct.http_parser", 0)
        fmaj, fmin = P.field_index("struct.http_parser", "http_major"), P.field_index("struct.http_parser", "http_minor")
        badv = []
        for major in (0, 1, 2, 3):
            for minor in (0, 1, 2, 9):
                r, _ = ev.run({fmaj: major, fmin: minor}, {})
                acc = (r & 0xFFFFFFFF) == 0
                if acc != ((major, minor) >= (1, 1)):
                    badv.append("%d.%d %s" % (major, minor, "accepted" if acc else "refused"))
    except AnalysisBroken as e:
        raise AnalysisBroken("check_http_version is not evaluable as a table over (major, minor): %s" % e)
    ctx.ob("C12.5 R-TABLE", hv, "http-version-table", not badv,
           "check_http_version decides HTTP %s: an upgrade needs HTTP/1.1 or later (RFC 6455 4.1), a request line without a version "
           "(HTTP/0.9) or HTTP/1.0 is not a valid upgrade and must be answered with an error" % ", ".join(badv[:4]))
    # required headers recorded before 101: the 101 site (or the digest computation) must be control dependent on state
    # that only the success path of that header's value callback writes (RFC 6455 4.2.1: key and version are required)
    hvf = P.fn("websocket.c:websocket_upgrade_on_header_value")
    # the dispatch on the remembered header, as a switch or as an if-chain: the block entered on 'current_header_field == H'
    def is_chf(t):
        return Q.is_field_load(t, "struct.websocket", "current_header_field") is not None

    def case_block(hval):
        out = []
        for b in range(hvf.nblocks):
            for (sv, atom, pol) in P.edge_conds(hvf, b):
                if atom is not None and Q.const_relation(atom, pol, is_chf, hval) is True and sv not in out:
                    out.append(sv)
        return out
    seen_state = {}
    for hname, what, checker in (("HEADER_SEC_WEBSOCKET_KEY", "key", "save_websocket_key"),
                                 ("HEADER_SEC_WEBSOCKET_VERSION", "version", "check_websocket_version")):
        hval = Q.enum(P, hname)
        tgt = case_block(hval) if hval is not None else []
        if len(tgt) != 1:
            raise AnalysisBroken("websocket_upgrade_on_header_value: header dispatch - case %s not found (%d candidates)" % (hname, len(tgt)))
        state = set()
        guarded = True
        for i in hvf.all_insts():
            if i.op == "store" and hvf.dominates(tgt[0], i.block):
                t = P.term(hvf, i.a[1])
                if t[0] == "field" and t[2] == "struct.websocket" and t[3] != "current_header_field":
                    state.add(t[3])

                    def succeeded(atom, pol, checker=checker):
                        if checker == "save_websocket_key" and sk_folded:
                            return len_is_24(atom, pol)
                        return atom[0] == "cmp" and atom[3] == ("const", 0) and Q.mentions(atom[2], lambda x: Q.is_call_to(x, checker)) and Q._poleq(atom, pol)
                    if not Q.must_pass(P, hvf, i.block, succeeded):
                        guarded = False
        dep = False
        for f, site in ((sur, wv), (hc, sc)):
            for (atom, pol) in Q.guards_of(P, f, site.block):
                if Q.mentions(atom, lambda x: x[0] == "field" and x[2] == "struct.websocket" and x[3] in state):
                    dep = True
        seen_state[what] = (state, tgt[0])
        ctx.ob("C12.5 R-GATE", hc, "101:%s-seen" % what, dep and guarded,
               ("nothing records that a valid Sec-WebSocket-%s header was received (state written only when %s() succeeded, tested before "
                "the 101): a request without that header is upgraded (RFC 6455 4.2.1 requires it)" % (what.capitalize(), checker))
               if not (dep and guarded) else "101 depends on %s state %s" % (what, sorted(state)))
    # each required header has a record of its own: a record both cases write in the same way (one counter, one flag) cannot
    # tell "key and version" from "version twice"
    (ks, kb), (vs, vb) = seen_state["key"], seen_state["version"]

    def stored(blk, fld):
        out = []
        for i in hvf.all_insts():
            if i.op == "store" and hvf.dominates(blk, i.block):
                t = P.term(hvf, i.a[1])
                if t[0] == "field" and t[2] == "struct.websocket" and t[3] == fld:
                    out.append(P.term(hvf, i.a[0]))
        return out
    own_k, own_v = ks - vs, vs - ks
    shared_ok = any(stored(kb, fld) and stored(vb, fld) and not any(x in stored(vb, fld) for x in stored(kb, fld)) for fld in ks & vs)
    ctx.ob("C12.5 R-GATE", hc, "101:each-required-header-has-its-own-record", (own_k and own_v) or shared_ok,
           "the Sec-WebSocket-Key case and the Sec-WebSocket-Version case record their header in the same way in the same member (%s): "
           "a request that repeats one of the two headers and leaves the other out is upgraded (RFC 6455 4.2.1 requires both)" %
           ", ".join(sorted(ks & vs)))
    ctx.floor("C12.5 R-GATE", 8)


def clause7_scanners(ctx, P):
    """the two comma-separated-list scanners (sub-protocols, extensions) are twins up to the per-token callee"""
    from .c16 import shape
    a = P.fn("websocket.c:check_websocket_protocol")
    b = P.fn("websocket.c:check_websocket_extensions")
    sa_, sb_ = shape(P, a, {"fill_requested_sub_protocol": "TOKEN"}), shape(P, b, {"fill_requested_extension": "TOKEN"})
    ok = sa_ == sb_
    diff = ""
    if not ok:
        for k, (x, y) in enumerate(zip(sa_, sb_)):
            if x != y:
                diff = "first difference at instruction %d: %s vs %s" % (k, x[1:5], y[1:5])
                break
        diff = diff or "different length (%d vs %d)" % (len(sa_), len(sb_))
    ctx.ob("C12.5 R-SIB", a, "list-scanners-agree", ok,
           "check_websocket_protocol and check_websocket_extensions no longer scan their comma separated lists the same way (%s): "
           "one of them mishandles a token boundary (e.g. the last of several offered sub-protocols)" % diff)


def clause7b_list_tokens(ctx, P):
    """Sec-WebSocket-Protocol and Sec-WebSocket-Extensions are comma separated lists (1#token): optional white space is allowed on BOTH
    sides of a comma ("jet , chat").  In each list scanner, every pointer whose byte is compared with ',' to find where an element
    ends is also looked at for white space - or the element's length is cut back while its last byte is white space (a white-space
    test on a computed address, start + length - 1 / end[-1])"""
    SPACE = 8192   # _ISspace in the ctype table

    def ptr_of(t):
        return t[1] if t[0] == "load" else None
    for key in ("websocket.c:check_websocket_protocol", "websocket.c:check_websocket_extensions", "websocket.c:check_upgrade"):
        f = P.fn(key)
        commas, spaces, trims = set(), set(), 0
        for i in f.all_insts():
            if i.op == "icmp" and len(i.a) == 2:
                k = P.const_int(i.a[1])
                pt = ptr_of(P.term(f, i.a[0]))
                if pt is None:
                    continue
                if k == 44:
                    commas.add(pt)
                elif k in (32, 9):
                    if pt[0] == "phi":
                        spaces.add(pt)
                    else:
                        trims += 1
            elif i.op == "and" and P.const_int(i.a[1]) == SPACE:
                for y in Q.subterms(P.term(f, i.a[0])):
                    if y[0] == "load" and y[1][0] in ("phi", "index", "byteoff", "container_of") and not Q.mentions(y, lambda z: Q.is_call_to(z, "__ctype_b_loc")):
                        if y[1][0] == "phi":
                            spaces.add(y[1])
                        else:
                            trims += 1
        missing = sorted(fmt_term(c) for c in commas if c not in spaces)
        ctx.ob("C12.5 R-SIB", f, "list-elements-end-at-white-space-too", bool(commas) and (not missing or trims > 0),
               "%s() finds the end of a list element by looking for ',' only (pointer %s is never tested for white space, and the length "
               "is not cut back either): \"jet , chat\" yields the element \"jet \" and a valid offer of the sub-protocol is answered "
               "with 400" % (f.srcname, ", ".join(missing)))


def clause8_status_codes(ctx, P):
    """is_status_code_invalid against the close codes RFC 6455 7.4 allows an endpoint to send"""
    from ..core.feval import FEval
    f = P.fn("websocket.c:is_status_code_invalid")
    consts = set()
    for i in f.all_insts():
        if i.op == "icmp":
            for o in i.a:
                c = P.const_int(o)
                if c is not None:
                    consts.add(c & 0xFFFF)
    reps = {0, 65535, 999, 1000, 1003, 1004, 1006, 1007, 1011, 1012, 1015, 2999, 3000, 4999, 5000}
    for c in consts:
        reps |= {max(0, c - 1), c, min(65535, c + 1)}
    ev = FEval(P, f, None, ptr_param=None)
    valid = lambda c: (1000 <= c <= 1003) or (1007 <= c <= 1011) or (3000 <= c <= 4999)
    bad = []
    for c in sorted(reps):
        r, _ = ev.run({}, {0: c})
        if bool(r & 1) != (not valid(c)):
            bad.append(c)
    ctx.ob("C12.1 R-TABLE", f, "close-code-table", not bad,
           "is_status_code_invalid disagrees with RFC 6455 7.4 for close code(s) %s (valid to receive: 1000-1003, 1007-1011, "
           "3000-4999): such a close frame is acknowledged as a normal close instead of being refused with 1002, or vice versa" % bad[:8],
           detail={"representatives": len(reps)})


def clause6_transparency(ctx, P, cg):
    rm = P.fn("socket_peer.c:read_msg")
    tm = P.fn("websocket_peer.c:text_message_callback")
    BS_CLOSED = Q.enum(P, "BS_CLOSED")
    WS_ERROR = Q.enum(P, "WS_ERROR")
    for f, want in ((rm, BS_CLOSED), (tm, WS_ERROR)):
        cs = f.calls("parse_message")
        ok = len(cs) == 1
        if ok:
            c = cs[0]
            a0, a1, a2 = P.term(f, c.a[0]), P.term(f, c.a[1]), P.term(f, c.a[2])
            ok = a0[0] == "param" and a0[1] == 1 and a1[0] == "param" and a1[1] == 2 and a2[0] == "field" and a2[2] in ("struct.socket_peer", "struct.websocket_peer") and a2[3] == "peer"
        ctx.ob("C12.6 R-SIB", f, "parse_message:args", ok, "transport does not hand (its buffer, its length, its own peer) to parse_message")
        bad = None
        for v in Q.path_views(ctx, P, f):
            neg = v.has_atom(lambda a, p: a[0] == "cmp" and Q.is_call_to(a[2], "parse_message") and a[3] == ("const", 0) and _eff(a[1], p) == "slt")
            if neg and v.ret_const() != want:
                bad = v
        ctx.ob("C12.6 R-SIB", f, "negative-result-closes", bad is None, "a failing parse_message does not end the connection")
    # the send side: the transports' send_message implementations are siblings - neither fails a message because of its length
    # (what does not fit the socket is queued or refused by the buffered socket below both of them, alike)
    from .c11 import send_impls
    ns = 0
    for name in sorted(send_impls(P, cg)):
        g = P.functions[name]
        ns += 1
        lenp = ("param", 2, g.params[2]["name"]) if g.nparams > 2 else None
        bads = None
        for v in Q.path_views(ctx, P, g):
            rc = v.ret_const()
            if rc is None or rc >= 0:
                continue
            # (the 4-byte length prefix of the raw transport cannot express more than UINT32_MAX: that gate is a format limit)
            if v.has_atom(lambda a, p: a[0] == "cmp" and lenp in (a[2], a[3]) and
                          not any(x[0] == "const" and (x[1] & 0xFFFFFFFFFFFFFFFF) >= 0xFFFFFFFF for x in (a[2], a[3]))):
                bads = v
        ctx.ob("C12.6 R-SIB", g, "send:length-is-no-reason-to-fail", bads is None,
               "%s() fails a message on account of its length: the same answer is delivered on one transport and costs the "
               "connection on the other" % g.srcname, witness=bads.witness() if bads else None)
    if ns < 2:
        raise AnalysisBroken("send_message implementations: %d" % ns)
    gp = P.fn("websocket.c:ws_get_payload")
    ok = False
    for v in Q.path_views(ctx, P, gp):
        if v.has_atom(lambda a, p: (a[0] == "switch" and a[2] == WS_ERROR) or
                      (a[0] == "cmp" and Q.is_call_to(a[2], "ws_handle_frame") and a[3] == ("const", WS_ERROR) and Q._poleq(a, p))):
            hs = [i for _, i in v.calls("handle_error")]
            ok = len(hs) == 1 and v.ret_const() == BS_CLOSED
    ctx.ob("C12.6 R-SIB", gp, "ws-error-closes", ok, "WS_ERROR from the message callback does not close the connection")
    ctx.floor("C12.6 R-SIB", 5)


def _bf_store_name(P, f, i):
    """name of the bit-field member of websocket.ws_flags that the store i rewrites (read-modify-write of the storage unit)"""
    t = P.term(f, i.a[1])
    if not (t[0] == "field" and t[2] == "struct.websocket" and t[3] == "ws_flags"):
        return None
    v = P.term(f, i.a[0])
    inner = v[2][0] if v[0] == "op" and v[1] == "or" else v
    if inner[0] == "op" and inner[1] == "and" and inner[2][0] == ("load", t) and inner[2][1][0] == "const":
        cleared = ~inner[2][1][1] & 0xffff
        if cleared:
            shift = (cleared & -cleared).bit_length() - 1
            width = bin(cleared).count("1")
            return P.bitfield_name("struct.websocket", "ws_flags", shift, (1 << width) - 1)
    return None


def clause9_misc(ctx, P, cg):
    """(a) an empty frame is a legal frame: send_frame() refuses nothing on account of its payload pointer or a zero length;
    (b) header names are compared without regard to case - every comparison of the field name in the header-field callback
    goes through the case-insensitive comparison"""
    sf = P.fn("websocket.c:send_frame")
    bad = None
    for v in Q.path_views(ctx, P, sf):
        rc = v.ret_const()
        if rc is None or rc >= 0:
            continue
        for (a, p) in v.atoms:
            if a[0] == "cmp" and a[2] == ("param", 1, sf.params[1]["name"]) and a[3] == ("null",) and Q._poleq(a, p):
                bad = v
            if a[0] == "cmp" and a[2] == ("param", 2, sf.params[2]["name"]) and a[3] == ("const", 0) and Q._poleq(a, p):
                bad = v
    ctx.ob("C12.3 R-GATE", sf, "empty-frames-are-sent", bad is None,
           "send_frame() fails for a NULL payload / zero length: a ping without application data (legal, RFC 6455 5.5.2) cannot be "
           "answered with its (empty) pong and the connection is closed", witness=bad.witness() if bad else None)
    hf = P.fn("websocket.c:websocket_upgrade_on_header_field")
    at = ("param", 1, hf.params[1]["name"])
    wrong = []
    ncmp = 0
    for c in hf.all_insts():
        if c.op == "call" and c.callee and any(Q.mentions(P.term(hf, a), lambda x: x == at) for a in c.a):
            nm = P.srcname_of(c.callee)
            if nm.startswith("llvm.dbg"):
                continue
            ncmp += 1
            if nm != "jet_strncasecmp":
                wrong.append(c)
    ctx.ob("C12.5 R-SIB", hf, "header-names-compared-case-insensitively", not wrong and ncmp >= 4,
           "the header field name is examined with %s() at %s: HTTP header names are case-insensitive (RFC 7230 3.2), a client that "
           "spells Sec-Websocket-Key is refused" % (P.srcname_of(wrong[0].callee) if wrong else "?", wrong[0].loc if wrong else "?"))


# parameter names of permessage-deflate (RFC 7692 7.1): extension parameters are matched as written by every implementation;
# they are not among the tokens RFC 6455 4.2.1 declares case-insensitive
CASE_SENSITIVE_TOKENS = ("client_max_window_bits", "server_max_window_bits", "client_no_context_takeover", "server_no_context_takeover")


def clause10_header_values(ctx, P, cg):
    """header VALUES: the tokens RFC 6455 4.2.1 compares without regard to case (Upgrade: websocket, Connection: upgrade) are
    left to http_parser; the value callback itself compares bytes only against texts without letters ("13"), against the
    configured sub-protocol / extension names and extension parameters handed in by the caller.  A byte-wise comparison of a
    header value against a literal containing letters refuses the spellings the RFC allows."""
    hv = P.fn("websocket.c:websocket_upgrade_on_header_value")
    BYTEWISE = ("memcmp", "strncmp", "strcmp", "bcmp")
    wrong = []
    nlit = 0
    for n in sorted(cg.reach(hv.name)):
        g = P.functions.get(n)
        if g is None or g.base != "websocket.c":
            continue
        for c in g.all_insts():
            if c.op != "call" or not c.callee or P.srcname_of(c.callee) not in BYTEWISE:
                continue
            for a in c.a[:2]:
                t = P.strip(g, P.term(g, a))
                if t[0] == "str":
                    txt = t[1]
                    nlit += 1
                    if any(ch.isalpha() for ch in txt) and txt not in CASE_SENSITIVE_TOKENS:
                        wrong.append((g, c, txt))
    ctx.ob("C12.5 R-SIB", hv, "header-value-tokens-not-compared-bytewise", not wrong and nlit >= 1,
           "%s compares a header value byte-wise with \"%s\" at %s: the tokens of the upgrade headers are case-insensitive (RFC 6455 4.2.1), "
           "a client that spells it differently is refused although its upgrade is valid" %
           (wrong[0][0].srcname, wrong[0][2], wrong[0][1].loc) if wrong else "no literal comparison found in the header value callback (the version literal \"13\" is expected)")


def clause8b_fragment_state(ctx, P):
    """the state of a fragmented message is two members that change together: is_fragmented (a message is open) and frag_opcode (its
    kind).  Every path of ws_handle_frame() that writes one writes the other - opening sets both, the last fragment clears both; a
    stale frag_opcode makes a stray final continuation frame look like the end of a message of that kind instead of a protocol error"""
    hf = P.fn("websocket.c:ws_handle_frame")
    bad = None
    n = 0
    for v in Q.path_views(ctx, P, hf):
        names = set()
        for _, i in v.insts():
            if i.op == "store":
                nm = _bf_store_name(P, hf, i)
                if nm:
                    names.add(nm)
        if "is_fragmented" in names or "frag_opcode" in names:
            n += 1
            if not {"is_fragmented", "frag_opcode"} <= names:
                bad = (v, sorted(names & {"is_fragmented", "frag_opcode"}))
    ctx.ob("C12.2 R-PAIR", hf, "fragment-state-changes-together", bad is None and n >= 2,
           "ws_handle_frame() writes %s without the other member of the fragment state on this path: after the message has ended the "
           "stale member decides how a stray continuation frame is treated (delivered as a last fragment instead of closed with 1002)" %
           (bad[1] if bad else "?"), witness=bad[0].witness() if bad else None)


def clause8_frame_flags(ctx, P, cg):
    """the flags of a frame header (fin, rsv, opcode, mask) are rewritten for EVERY frame: a flag that is only ever set
    keeps the value of an earlier frame (e.g. 'masked'), and the checks on it stop working from the second frame on"""
    BS_CLOSED = Q.enum(P, "BS_CLOSED")
    writers = {}
    for f in P.own_functions():
        if f.base != "websocket.c":
            continue
        for i in f.all_insts():
            if i.op == "store":
                nm = _bf_store_name(P, f, i)
                if nm:
                    writers.setdefault(nm, set()).add(f.name)
    for nm in ("fin", "rsv", "opcode", "mask"):
        fs = writers.get(nm, set())
        good = None
        why = "no function stores it"
        for fname in sorted(fs):
            f = P.functions[fname]
            if f.srcname == "websocket_init":
                continue
            missing = None
            for v in Q.path_views(ctx, P, f):
                if v.ret_const() == BS_CLOSED or any(True for _ in v.calls("handle_error")):
                    continue
                if not any(i.op == "store" and _bf_store_name(P, f, i) == nm for _, i in v.insts()):
                    missing = v
            if missing is None:
                good = f
            else:
                why = "%s has a continuing path that leaves it as it was" % f.srcname
        ctx.ob("C12.2 R-INIT", P.fn("websocket.c:ws_get_header"), "frame-flag-rewritten-per-frame:" + nm, good is not None,
               "frame header flag '%s' is not rewritten for every frame (%s): the value of an earlier frame is used" % (nm, why))


def run(ctx):
    for cfg in ctx.configs(["default"] if ctx.tier == "quick" else None):
        P, cg = cfg.P, cfg.cg
        clause1_close(ctx, P, cg)
        clause2_callbacks(ctx, P, cg)
        clause3_server_frames(ctx, P)
        clause4_pong(ctx, P)
        clause5_handshake(ctx, P, cg)
        clause6_transparency(ctx, P, cg)
        # (clause7_scanners - 'the two list scanners are twins instruction by instruction' - was withdrawn: it fired on a
        #  behaviour-preserving rewrite of one twin, refactorings/agents4/D6-4; what matters about them is decided by clause7b)
        clause7b_list_tokens(ctx, P)
        clause8_status_codes(ctx, P)
        clause8_frame_flags(ctx, P, cg)
        clause8b_fragment_state(ctx, P)
        from .c13 import clause11_target_is_the_path      # 'a valid upgrade for the configured target': the target in any legal form
        clause11_target_is_the_path(ctx, P)
        from .c13 import clause7b_parser_limits
        clause7b_parser_limits(ctx, P)
        clause9_misc(ctx, P, cg)
        clause10_header_values(ctx, P, cg)
        from .c06 import clause11b_bitfield_copies
        clause11b_bitfield_copies(ctx, P)
