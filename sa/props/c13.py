"""C13 — HTTP front door."""
from ..frontend import AnalysisBroken
from ..core import queries as Q
from ..core.program import fmt_term, fmt_atom

META = {
    "technique": "static analysis: repository-specific ownership / guard-dominance / typestate / path rules over LLVM IR (CFG, SSA, resolved call graph), constants of the bundled http_parser from the unit's macro table",
    "explanation": (
        "(1) R-OWN across the callback boundary: a read callback of the HTTP phase whose http_parser_execute can (through the "
        "resolved parser-settings callbacks and the url_handler.create hook) reach init_peer has the may-effect 'peer "
        "registered'; on every path after that call which releases the connection, the release must go through a function "
        "that reaches free_peer_resources - a failure exit that frees only the connection leaves a registered peer with a "
        "dangling connection; "
        "(2) R-RET: the result of the create hook is tested by its caller; "
        "(3) typestate: every path of the request-line callback with nparsed != len sends an error status exactly once and "
        "frees the connection exactly once, returning BS_CLOSED; len == 0 frees without sending; the status switch has a "
        "default and each case's text carries its own code; free_connection closes the reader before freeing the connection; "
        "(4) the error status is chosen before on_url returns failure (every -1 return of on_url is preceded by a status store); "
        "(7) R-FINI: every transport error handler reaches buffered_socket_close() on every path; http_parser is compiled in strict mode "
        "(request-line and header syntax is delegated to it); "
        "(5) R-ORDER: callbacks taken from a url_handler are installed into the parser settings only on paths where the handler "
        "has no create() hook or where create() has been called and did not fail (they work on the object create() makes); "
        "(8) what counts as a valid upgrade is decided by the handshake rules shared with C12 (C12.5: the 101 is gated by method, "
        "HTTP version - evaluated as a table over (major, minor) -, Upgrade flag, and a record of its own for each of the two required "
        "headers); everything else takes the error exit whose release discipline clauses 1, 3 and 7 decide."),
    "not_decided": "http_parser's own parsing; memory of connections that never send a complete line (read buffer bounds: C09)",
    "assumptions": ["http_parser invokes only the callbacks installed in the connection's parser_settings"],
}


def _peer_release_reach(P, cg, name):
    return any(P.srcname_of(x) == "free_peer_resources" for x in cg.reach(name))


def clause1_peer(ctx, P, cg):
    n = 0
    rc_key = ("struct.buffered_socket", P.field_index("struct.buffered_socket", "read_callback"))
    for name in sorted(cg.field_funcs.get(rc_key, ())):
        f = P.functions[name]
        calls = f.calls("http_parser_execute")
        if not calls:
            continue
        # which callbacks can run inside: the settings fields' candidates
        reach_init = False
        for fld in P.structs["struct.http_parser_settings"].get("members", []):
            for cb in cg.field_funcs.get(("struct.http_parser_settings", fld["idx"]), ()):
                if any(P.srcname_of(x) == "init_peer" for x in cg.reach(cb)):
                    reach_init = True
        n += 1
        views = Q.path_views(ctx, P, f)
        bad = None
        npaths = 0
        for v in views:
            pos = [k for k, i in v.insts() if i.id == calls[0].id]
            if not pos:
                continue
            after = [(k, i) for k, i in v.insts() if k > pos[0] and i.op == "call"]
            releases = []
            for k, i in after:
                for t in cg.targets(f, i):
                    tn = P.srcname_of(t)
                    if tn in ("free_connection",) or tn == "buffered_socket_close":
                        releases.append((i, t))
                    elif any(P.srcname_of(x) == "free_connection" for x in cg.reach(t)):
                        releases.append((i, t))
            if not releases:
                continue
            npaths += 1
            # the owning websocket peer (this callback's context) is released through its own error route when the
            # releasing callee reaches free_peer_resources
            through_peer = any(_peer_release_reach(P, cg, t) for (i, t) in releases)
            if reach_init and not through_peer:
                bad = v
        if f.srcname == "read_start_line" or reach_init:
            ctx.ob("C13.1 R-OWN", f, "release-after-parse", bad is None,
                   "the parser call in %s can run the url_handler.create hook (alloc_websocket_peer -> init_peer registers a peer in "
                   "the global list) and this failure exit then frees only the connection: the peer stays registered with a "
                   "dangling connection, reachable by other peers' sweeps and by the shutdown sequence" % f.srcname
                   if bad else "every connection release after the parser call also releases a possibly created peer (%d path(s))" % npaths,
                   witness=bad.witness() if bad else None)
    if n < 2:
        raise AnalysisBroken("HTTP-phase read callbacks calling http_parser_execute: %d" % n)
    ctx.floor("C13.1 R-OWN", 1)


def clause2_hook(ctx, P, cg):
    key = ("struct.url_handler", P.field_index("struct.url_handler", "create"))
    n = 0
    for f in P.own_functions():
        for i in f.all_insts():
            if i.op == "call" and not i.callee and cg.icall_field(f, i) == key:
                n += 1
                used = [u for u in f.users(i.id) if u.op in ("icmp", "store", "ret", "phi", "br", "zext", "sext")]
                ctx.ob("C13.2 R-RET", f, Q.ordinal_site(f, i, P), bool(used),
                       "the result of the create hook is ignored: when creating the peer fails (allocation failure) the "
                       "connection carries on with a half-initialised or absent peer" if not used else "hook result is tested")
    if n < 1:
        raise AnalysisBroken("create hook call site not found")


def clause3_reject(ctx, P, cg):
    f = P.fn("http_connection.c:read_start_line")
    CLOSED = Q.enum(P, "BS_CLOSED")
    views = Q.path_views(ctx, P, f)
    bad = None
    nrej = 0
    for v in views:
        mism = v.has_atom(lambda a, p: a[0] == "cmp" and Q.is_call_to(a[2], "http_parser_execute") and not Q._poleq(a, p)) or \
            v.has_atom(lambda a, p: a[0] == "cmp" and Q.is_call_to(a[3], "http_parser_execute") and not Q._poleq(a, p))
        eof = v.has_atom(lambda a, p: a[0] == "cmp" and a[2][0] == "param" and a[2][1] == 2 and a[3] == ("const", 0) and Q._poleq(a, p))
        sends = [i for _, i in v.calls("send_http_error_response")]
        frees = [i for _, i in v.insts() if i.op == "call" and any(
            any(P.srcname_of(x) == "free_connection" for x in cg.reach(t)) for t in cg.targets(f, i))
            and (not i.callee or P.srcname_of(i.callee) != "http_parser_execute")]
        rc = v.ret_const()
        frees = [i for i in frees if not (not i.callee and cg.icall_field(f, i) == ("struct.url_handler", P.field_index("struct.url_handler", "create")))]
        if mism:
            nrej += 1
            if len(sends) != 1 or len(frees) != 1 or rc != CLOSED:
                bad = (v, "rejection path: %d error response(s), %d connection release(s), returns %s" % (len(sends), len(frees), rc))
        elif eof:
            if sends or len(frees) != 1 or rc != CLOSED:
                bad = (v, "end-of-stream path: %d send(s), %d release(s), returns %s" % (len(sends), len(frees), rc))
        elif rc == CLOSED:
            # refusal after a well-formed request line (e.g. the handler's object could not be created)
            if len(sends) != 1 or len(frees) != 1:
                bad = (v, "refusal path: %d error response(s), %d connection release(s)" % (len(sends), len(frees)))
        else:
            if frees:
                bad = (v, "accepting path releases the connection")
    ctx.ob("C13.3 R-OWN", f, "reject:answer-once-free-once", bad is None and nrej > 0, bad[1] if bad else
           "every rejection sends one status and releases once (%d path(s))" % nrej, witness=bad[0].witness() if bad else None)
    # status switch
    g = P.fn("http_connection.c:get_response")
    sw = [i for i in g.all_insts() if i.op == "switch"]
    okd = len(sw) == 1
    texts = {}
    if okd:
        for v in Q.path_views(ctx, P, g):
            t = P.term(g, v.ret_operand())
            code = None
            for (a, p) in v.atoms:
                if a[0] == "switch":
                    code = a[2]
            texts[code] = t[1] if t[0] == "str" else None
        for code, txt in texts.items():
            ok = txt is not None and txt.startswith("HTTP/1.") and ((" %d " % code) in txt if code is not None else " 500 " in txt)
            ctx.ob("C13.3 R-TABLE", g, "status:%s" % code, ok, "status text for %s is %r" % (code, txt))
        ctx.ob("C13.3 R-TABLE", g, "status:default", None in texts, "status switch has no default")
    else:
        ctx.ob("C13.3 R-TABLE", g, "status:switch", False, "status switch not found")
    fc = P.fn("http_connection.c:free_connection")
    seq = [i for i in fc.all_insts() if i.op == "call"]
    names = [(P.srcname_of(i.callee) if i.callee else "icall:" + (P.term(fc, i.ind)[1][3] if P.term(fc, i.ind)[0] == "load" else "?")) for i in seq]
    core = [n_ for n_ in names if n_ in ("icall:close", "cjet_free", "free")]
    ctx.ob("C13.3 R-ORDER", fc, "close-then-free", core == ["icall:close", "cjet_free"],
           "free_connection must close the reader and then free the connection (found %s)" % names)
    ctx.floor("C13.3 R-TABLE", 3)


def clause4_status(ctx, P):
    f = P.fn("http_connection.c:on_url")
    bad = None
    n = 0
    for v in Q.path_views(ctx, P, f):
        rc = v.ret_const()
        if rc is not None and rc != 0:
            n += 1
            st = [i for _, i in v.insts() if i.op == "store" and Q.mentions(P.term(f, i.a[1]), lambda x: x[0] == "field" and x[3] == "status_code")]
            if not st:
                bad = v
    ctx.ob("C13.4 R-ORDER", f, "failure-sets-status", bad is None and n > 0, "on_url fails without choosing an error status",
           witness=bad.witness() if bad else None)


def clause5_callbacks(ctx, P, cg):
    """callbacks taken from a url_handler work on the object its create() hook makes (parser.data): they may be installed
    into the parser settings only where that object exists - after create() succeeded - or where the handler has no create()"""
    ckey = ("struct.url_handler", P.field_index("struct.url_handler", "create"))
    installers = []
    for f in P.own_functions():
        for i in f.all_insts():
            if i.op == "store":
                dt = P.term(f, i.a[1])
                vt = P.term(f, i.a[0])
                if dt[0] == "field" and dt[2] == "struct.http_parser_settings" and vt[0] == "load" and vt[1][0] == "field" and vt[1][2] == "struct.url_handler":
                    installers.append((f, i, vt[1][1]))
    if len(installers) < 3:
        raise AnalysisBroken("stores of url_handler callbacks into parser settings: %d" % len(installers))
    sites = []  # (function, block, handler term)
    seenf = set()
    for (f, i, h) in installers:
        if h[0] == "param":
            if f.name in seenf:
                continue
            seenf.add(f.name)
            for c in P.callers_of(f):
                sites.append((c.fn, c, P.term(c.fn, c.a[h[1]])))
        else:
            sites.append((f, i, h))
    for (g, at, h) in sites:
        def no_create(atom, pol):
            return atom[0] == "cmp" and atom[3] == ("null",) and atom[2] == ("load", ("field", h, "struct.url_handler", "create")) and Q._poleq(atom, pol)

        def created(atom, pol):
            if atom[0] != "cmp" or atom[2][0] != "icall" or atom[3] != ("const", 0):
                return False
            t = atom[2][1]
            if not (t[0] == "load" and t[1][0] == "field" and t[1][3] == "create"):
                return False
            eff = atom[1] if pol else Q.negate_pred(atom[1])
            return eff in ("sge", "eq")
        # on every path to the installation: handler has no create(), or create() was called and did not fail
        bad = None
        n = 0
        for v in Q.path_views(ctx, P, g):
            if at.block not in v.blocks:
                continue
            n += 1
            upto = v.blocks.index(at.block)
            atoms = [(a, p) for (b, a, p) in v.path[:upto + 1] if a is not None]
            if not (any(no_create(a, p) for a, p in atoms) or any(created(a, p) for a, p in atoms)):
                bad = v
        ctx.ob("C13.5 R-ORDER", g, "callbacks-after-create:" + Q.ordinal_site(g, at, P), bad is None and n > 0,
               "the handler's header callbacks are installed on a path where its create() hook exists but has not (successfully) "
               "run: a header arriving in the same chunk (bare LF after the request line) is handled with parser.data unset"
               if bad else "installed only without create() or after it succeeded (%d path(s))" % n, witness=bad.witness() if bad else None)
    ctx.floor("C13.5 R-ORDER", 2)


def clause6_target(ctx, P):
    f = P.fn("http_server.c:find_url_handler")
    cs = f.calls(("strncmp", "memcmp"))
    ok = len(cs) == 1
    why = "expected exactly one comparison"
    if ok:
        c = cs[0]
        n = P.term(f, c.a[2])
        a0, a1 = P.term(f, c.a[0]), P.term(f, c.a[1])
        is_target = lambda t: t[0] == "load" and Q.mentions(t, lambda x: x[0] == "field" and x[3] == "request_target")
        tgt, other = (a0, a1) if is_target(a0) else (a1, a0)
        full = Q.is_call_to(n, "strlen") and n[2][0] == tgt
        is_url = other[0] == "param" and other[1] == 1

        def fits(atom, pol):
            if atom[0] != "cmp" or atom[2] != n or not (atom[3][0] == "param" and atom[3][1] == 2):
                return False
            return (atom[1] if pol else Q.negate_pred(atom[1])) in ("ule", "eq")
        guarded = Q.must_pass(P, f, c.block, fits)
        ok = is_target(tgt) and full and is_url and guarded
        why = "compares strlen(target) bytes=%s, against the url=%s, under strlen(target) <= url_length=%s" % (full, is_url, guarded)
    ctx.ob("C13.6 R-PAIR", f, "whole-target-compared", ok,
           "a url handler is selected without comparing the WHOLE configured target with the request path (%s): a proper prefix of "
           "the target (e.g. '/api') is upgraded like the target itself" % why)


def clause9_close_hands_over(ctx, P, cg):
    """websocket_close() releases the connection only; the object around it (the peer that create() made when the request line was
    read) belongs to whoever set up the websocket.  Inside websocket.c a path that calls websocket_close() therefore goes on to
    tell the owner - s->on_error(s), or the close_received hook - in whatever phase (header lines included) it is taken;
    a path that closes and just returns leaves a registered peer with a dangling connection"""
    W = "struct.websocket"
    keys = {("%s" % W, P.field_index(W, "on_error")): "on_error", (W, P.field_index(W, "close_received")): "close_received"}
    n = 0
    bad = None
    for f in P.own_functions():
        if f.base != "websocket.c" or f.srcname == "websocket_close":
            continue
        if not f.calls("websocket_close"):
            continue
        for v in Q.path_views(ctx, P, f):
            pos = [k for k, i in v.calls("websocket_close")]
            if not pos:
                continue
            n += 1
            told = any(k > pos[0] and i.op == "call" and not i.callee and cg.icall_field(f, i) in keys for k, i in v.insts())
            no_hook = v.has_atom(lambda a, p: a[0] == "cmp" and a[3] == ("null",) and a[2][0] == "load" and a[2][1][0] == "field" and
                                 a[2][1][3] == "close_received" and Q._poleq(a, p))
            if not told and not no_hook:
                bad = bad or (f, v)
    ctx.ob("C13.1 R-OWN", P.fn("websocket.c:websocket_close"), "close-is-followed-by-telling-the-owner", bad is None and n >= 2,
           ("%s() calls websocket_close() and returns without s->on_error(s) or the close hook: the connection is released, the peer "
            "created for it stays registered with a dangling connection pointer (other peers' walks and the shutdown sequence reach it)" %
            bad[0].srcname) if bad else "%d closing path(s) in websocket.c hand over to the owner" % n, witness=bad[1].witness() if bad else None)


def clause10_early_guards(ctx, P):
    """on the request line of a handler with a create() hook nothing of the handler is installed yet (clause 5): until
    read_start_line() has created the object, the two parser events that can follow the URL in the same chunk - a header field, or
    the end of an EMPTY header block - must hit a refusing guard; otherwise 'GET /api/jet/ HTTP/1.1\n\r\n' is a complete,
    successfully parsed request for which a peer is created and which nobody answers"""
    f = P.fn("http_connection.c:on_url")
    NEED = ("on_header_field", "on_headers_complete")

    def refusing(name):
        g = P.functions.get(name)
        if g is None:
            return False
        rs = [v.ret_const() for v in Q.path_views(ctx, P, g)]
        return bool(rs) and all(r is not None and r != 0 for r in rs)
    n = 0
    bad = None
    for v in Q.path_views(ctx, P, f):
        if v.ret_const() != 0:
            continue
        deferred = v.has_atom(lambda a, p: a[0] == "cmp" and a[3] == ("null",) and a[2][0] == "load" and a[2][1][0] == "field" and
                              a[2][1][3] == "create" and not Q._poleq(a, p))
        if not deferred:
            continue
        n += 1
        got = {}
        for _, i in v.insts():
            if i.op == "store":
                d = P.term(f, i.a[1])
                if d[0] == "field" and d[2] == "struct.http_parser_settings":
                    got[d[3]] = P.term(f, i.a[0])
        for slot in NEED:
            t = got.get(slot)
            if not (t is not None and t[0] == "func" and refusing(t[1])):
                bad = bad or (v, slot)
    ctx.ob("C13.5 R-ORDER", f, "early-guards-cover-header-and-end-of-headers", bad is None and n > 0,
           ("on_url() defers the handler's callbacks but leaves parser_settings.%s without a refusing guard: a request line chunk that "
            "also carries %s is parsed to the end, a peer is created for a request that is already over, and nothing answers or closes" %
            (bad[1], "a header" if bad[1] == "on_header_field" else "the end of an empty header block")) if bad else
           "%d deferred path(s) install both guards" % n, witness=bad[0].witness() if bad else None)


def clause11_target_is_the_path(ctx, P):
    """the handler is selected by the PATH component of the request target, wherever it starts: find_url_handler() gets
    at + field_data[UF_PATH].off and field_data[UF_PATH].len - offset and length of the same parsed component.  (A target in absolute
    form, GET http://host/api/jet/ HTTP/1.1, is a valid upgrade; looked up from the start of the target it is answered 404.)"""
    f = P.fn("http_connection.c:on_url")
    UF_PATH = Q.enum(P, "UF_PATH")
    cs = f.calls("find_url_handler")
    ok = len(cs) == 1
    why = "find_url_handler() call not found"
    if ok:
        a1, a2 = P.term(f, cs[0].a[1]), P.term(f, cs[0].a[2])
        ok = a1[0] == "index" and a1[1] == ("param", 1, f.params[1]["name"]) and a1[2][0] == "load" and a1[2][1][0] == "field" and \
            a2[0] == "load" and a2[1][0] == "field" and a1[2][1][1] == a2[1][1] and a1[2][1] != a2[1] and \
            a2[1][1][0] == "index" and a2[1][1][2] == ("const", UF_PATH)
        why = "it is given (%s, %s)" % (fmt_term(a1)[:50], fmt_term(a2)[:50])
    ctx.ob("C13.6 R-PAIR", f, "handler-looked-up-by-the-path-component", ok,
           "on_url() does not look the handler up with offset and length of the parsed path component (%s): a request target that does not "
           "start with its path (absolute form) is answered 404 although it is a valid upgrade" % why)


def clause7_error_handlers(ctx, P, cg):
    """every transport error handler (the function a buffered socket calls on a read/write error or an over-long line)
    releases the connection on EVERY path - in whatever protocol phase the error arrives"""
    key = ("struct.buffered_socket", P.field_index("struct.buffered_socket", "error"))
    hs = sorted(cg.field_funcs.get(key, ()))
    if len(hs) < 3:
        raise AnalysisBroken("transport error handlers discovered: %s" % [P.srcname_of(h) for h in hs])
    for hn in hs:
        h = P.functions[hn]
        bad = None
        n = 0
        for v in Q.path_views(ctx, P, h):
            n += 1
            closes = False
            for _, i in v.calls():
                for t in cg.targets(h, i):
                    if P.srcname_of(t) == "buffered_socket_close" or any(P.srcname_of(x) == "buffered_socket_close" for x in cg.reach(t)):
                        closes = True
            if not closes:
                bad = v
        ctx.ob("C13.7 R-FINI", h, "error-handler-releases-the-connection", bad is None and n > 0,
               "%s has a path that does not reach buffered_socket_close(): a transport error in that state (e.g. before the upgrade "
               "completed) leaves the descriptor registered and the connection allocated" % h.srcname, witness=bad.witness() if bad else None)
    # request-line and header syntax is delegated to http_parser's strict mode
    strict = Q.macro(P, "http_parser.c", "HTTP_PARSER_STRICT")
    ctx.ob("C13.3 R-TABLE", P.fn("http_connection.c:read_start_line"), "parser-strict-mode", strict == 1,
           "http_parser is compiled with HTTP_PARSER_STRICT=%s: cjet has no request-line / header-name checks of its own, so malformed "
           "lines are only refused in strict mode" % strict)


def clause7b_parser_limits(ctx, P):
    """http_parser counts the bytes of the request line and ALL header lines against HTTP_MAX_HEADER_SIZE and fails the request
    beyond it; cjet's own limit is per line (the read buffer).  The library's default is 80 KiB; a build that lowers it answers
    valid upgrades that carry a few more headers (proxies, cookies) with 400 although every line fits"""
    lim = Q.macro(P, "http_parser.c", "HTTP_MAX_HEADER_SIZE")
    ctx.ob("C13.3 R-TABLE", P.fn("http_connection.c:read_start_line"), "parser-header-limit-not-lowered", isinstance(lim, int) and lim >= 80 * 1024,
           "http_parser.c is compiled with HTTP_MAX_HEADER_SIZE=%s (library default 81920): a valid upgrade whose request line and "
           "headers add up to more than that is answered with 400 although every single line fits the read buffer" % lim)


def clause8_accepted_fd(ctx, P, cg):
    """the handlers of a freshly accepted descriptor either hand it to a buffered socket that stays alive, or close it - on
    every path"""
    n = 0
    for f in P.own_functions():
        if f.base != "linux_io.c" or not f.calls("buffered_socket_init"):
            continue
        fdp = [k for k, prm in enumerate(f.params) if prm["ty"] == "i32"]
        if not fdp:
            continue
        n += 1
        fd = ("param", fdp[0], f.params[fdp[0]]["name"])
        bad = None
        for v in Q.path_views(ctx, P, f):
            closed = any(P.term(f, i.a[0]) == fd for _, i in v.calls("close"))
            init = [(k, i) for k, i in v.calls("buffered_socket_init") if Q.mentions(P.term(f, i.a[1]), lambda x: x == fd)]
            freed_bs = False
            if init:
                bst = P.term(f, init[0][1].a[0])
                freed_bs = any(k > init[0][0] and P.term(f, i.a[0]) == bst for k, i in v.calls(("cjet_free", "free")))
            if not (closed or (init and not freed_bs)):
                bad = v
        ctx.ob("C13.7 R-FINI", f, "accepted-descriptor-is-handed-over-or-closed", bad is None,
               "%s has a path on which the accepted descriptor is neither handed to a buffered socket that stays alive nor closed: the "
               "client hangs and the descriptor leaks" % f.srcname, witness=bad.witness() if bad else None)
    if n < 2:
        raise AnalysisBroken("handlers of accepted descriptors found: %d" % n)
    # a header value that fails its check fails the handshake at once (a later, valid repetition must not rescue it)
    hvf = P.fn("websocket.c:websocket_upgrade_on_header_value")
    for checker in ("check_websocket_version", "save_websocket_key"):
        badv = None
        nf = 0
        if checker == "save_websocket_key" and not P.by_src.get(checker):
            # the key check folded into the callback by hand: a key of another length than 24 must make the callback fail
            KEY = Q.enum(P, "HEADER_SEC_WEBSOCKET_KEY")
            for v in Q.path_views(ctx, P, hvf):
                in_case = v.has_atom(lambda a, p: a[0] == "switch" and a[2] == KEY)
                wrong = v.has_atom(lambda a, p: a[0] == "cmp" and a[2][0] == "param" and a[2][1] == 2 and a[3] == ("const", 24) and not Q._poleq(a, p))
                if in_case and wrong:
                    nf += 1
                    if v.ret_const() is None or v.ret_const() == 0:
                        badv = v
            ctx.ob("C13.3 R-RET", hvf, "failed-header-check-fails-the-request:" + checker, badv is None and nf > 0,
                   "a Sec-WebSocket-Key of the wrong length does not make the header callback fail", witness=badv.witness() if badv else None)
            continue
        for v in Q.path_views(ctx, P, hvf):
            failed = v.has_atom(lambda a, p: a[0] == "cmp" and Q.is_call_to(a[2], checker) and a[3] == ("const", 0) and
                                ((a[1] == "eq" and not p) or (a[1] == "ne" and p) or (a[1] == "slt" and p)))
            called = any(True for _ in v.calls(checker))
            if called and (failed or not v.has_atom(lambda a, p: a[0] == "cmp" and Q.is_call_to(a[2], checker))):
                if failed:
                    nf += 1
                    rc = v.ret_const()
                    ro = v.ret_operand()
                    fwd = ro is not None and Q.is_call_to(P.term(hvf, ro), checker)
                    if not fwd and (rc is None or rc == 0):
                        badv = v
        # forwarding the checker's result without a test is fine too (no 'failed' atom then): require that the result reaches ret
        if nf == 0:
            reach = any(Q.is_call_to(l, checker) for i in hvf.all_insts() if i.op == "ret" and i.a
                        for l in Q.leaves(P, hvf, i.a[0], through_loads=False)[0])
            ok = reach
        else:
            ok = badv is None
        ctx.ob("C13.3 R-RET", hvf, "failed-header-check-fails-the-request:" + checker, ok,
               "a header value refused by %s() does not make the header callback fail: the request goes on, and a second, valid copy of "
               "the header lets it pass" % checker, witness=badv.witness() if badv else None)


def run(ctx):
    for cfg in ctx.configs(["default"] if ctx.tier == "quick" else None):
        P, cg = cfg.P, cfg.cg
        clause1_peer(ctx, P, cg)
        clause2_hook(ctx, P, cg)
        clause3_reject(ctx, P, cg)
        clause4_status(ctx, P)
        clause5_callbacks(ctx, P, cg)
        clause6_target(ctx, P)
        clause7_error_handlers(ctx, P, cg)
        clause7b_parser_limits(ctx, P)
        clause8_accepted_fd(ctx, P, cg)
        clause9_close_hands_over(ctx, P, cg)
        clause10_early_guards(ctx, P)
        clause11_target_is_the_path(ctx, P)
        from .c12 import clause5_handshake
        clause5_handshake(ctx, P, cg)
