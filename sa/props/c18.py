"""C18 — UTF-8 validator: automaton extraction, product with the RFC 3629 reference, word fast-path guards."""
from ..frontend import AnalysisBroken
from ..core import queries as Q
from ..core.program import fmt_term, fmt_atom
from ..core.feval import FEval
from .. import ref_utf8 as REF

META = {
    "explanation": (
        "is_byte_valid is a finite transducer over the three fields of struct cjet_utf8_checker and one input byte. The analysis "
        "extracts it from the IR and evaluates the extracted transition function on the finite domain (every reachable field "
        "valuation x all 256 byte values; no cjet code runs, the evaluator follows the exported control flow), builds the "
        "product with the reference automaton of RFC 3629 (Unicode table 3-7, sa/ref_utf8.py) and requires: equal verdict on "
        "every reachable product edge, 'start_byte == UC_FINISH' iff the reference is in its start state, reset after a "
        "rejection. Effect rule: the transducer and all entry points keep state only in *c (same verdict under any split). "
        "Entry points: byte loops feed byte i for i = 0..n-1, stop at the first rejection, and test completeness against "
        "UC_FINISH. Word fast paths: every skip path of the 32/64-bit loops is a conjunction of literals (w & M) pred K; the "
        "set of words satisfying it is computed exactly by a lane-wise dynamic program (equalities and unsigned orderings over "
        "masked multi-lane fields) and must be accepted start->start by the extracted automaton in the lane order of the slow "
        "loop of the same function."),
    "not_decided": "the alignment arithmetic of the auto-aligned front end (pre/main/post lengths are run-time integers)",
    "assumptions": [],
    "trusted_base": ["sa/ref_utf8.py: the well-formed byte ranges of RFC 3629 / Unicode table 3-7", "sa/core/feval.py evaluator"],
    "technique": "static analysis: automaton extraction from LLVM IR by finite-domain evaluation of the transition function, product "
                 "with a reference DFA, exact lane-wise solution of the fast-path guard predicates, exhaustive (state x byte) evaluation "
                 "of the byte-wise entry points against the extracted automaton, in two configurations (plain char signed / unsigned)",
}


def _finish_value(P):
    """the 'between code points' marker: the value cjet_init_checker() stores into start_byte (a named constant in the reference
    tree, possibly folded into the code when the constant is made static)"""
    init = P.fn("utf8_checker.c:cjet_init_checker")
    for i in init.all_insts():
        if i.op == "store":
            t = P.term(init, i.a[1])
            if t[0] == "field" and t[3] == "start_byte":
                v = P.const_int(i.a[0])
                if v is None:
                    tv = P.term(init, i.a[0])
                    if tv[0] == "load" and tv[1][0] == "global":
                        v = P.globals[tv[1][1]]["init"][1]
                if v is not None:
                    return v & 0xFF
    raise AnalysisBroken("cjet_init_checker does not store a constant into start_byte")


def extract(ctx, P):
    f = P.fn("utf8_checker.c:is_byte_valid")
    init = P.fn("utf8_checker.c:cjet_init_checker")
    S = "struct.cjet_utf8_checker"
    # effect rule: only *c and locals are touched
    for g in [f, init]:
        for i in g.all_insts():
            if i.op == "store":
                t = P.term(g, i.a[1])
                ok = t[0] == "field" and t[2] == S and t[1][0] == "param" and t[1][1] == 0
                if not ok:
                    ctx.ob("C18.1 R-EFFECT", g, Q.ordinal_site(g, i, P), False, "validator state written outside *c: %s" % fmt_term(t))
            if i.op == "load":
                t = P.term(g, i.a[0])
                ok = (t[0] == "field" and t[2] == S) or (t[0] == "global" and P.globals.get(t[1], {}).get("const"))
                if not ok:
                    ctx.ob("C18.1 R-EFFECT", g, "load:" + fmt_term(t), False, "validator reads state outside *c: %s" % fmt_term(t))
            if i.op == "call":
                ctx.ob("C18.1 R-EFFECT", g, Q.ordinal_site(g, i, P), False, "transducer calls out; extraction assumes a closed function")
    ctx.ob("C18.1 R-EFFECT", f, "state-in-struct", True, "is_byte_valid reads/writes only the fields of *c and its byte argument")
    # initial state from cjet_init_checker's stores
    st0 = {}
    for i in init.all_insts():
        if i.op == "store":
            t = P.term(init, i.a[1])
            v = P.const_int(i.a[0])
            if v is None:
                tv = P.term(init, i.a[0])
                if tv[0] == "load" and tv[1][0] == "global":
                    v = P.globals[tv[1][1]]["init"][1]
            st0[P.field_index(S, t[3])] = v & 0xFF
    if len(st0) != 3:
        raise AnalysisBroken("cjet_init_checker does not initialise the three fields")
    ev = FEval(P, f, S)
    return f, ev, st0


def product(ctx, P, f, ev, st0):
    S = "struct.cjet_utf8_checker"
    SB = P.field_index(S, "start_byte")
    NB = P.field_index(S, "next_byte")
    finish = _finish_value(P)
    key = lambda st: tuple(sorted(st.items()))
    start = (key(st0), REF.START)
    seen = {start: b""}
    work = [start]
    trans = {}
    edges = 0
    mism = []
    reset_bad = []
    fin_bad = []
    while work:
        node = work.pop()
        ist, rst = node
        st = dict(ist)
        for b in range(256):
            ret, new = ev.run(st, {1: b})
            edges += 1
            nref = REF.step(rst, b)
            verdict = bool(ret & 1)
            if verdict != (nref is not None):
                if len(mism) < 5:
                    mism.append((seen[node] + bytes([b]), verdict, nref is not None))
                continue
            trans[(ist, b)] = (verdict, key(new))
            if not verdict:
                if key(new) != key(st0) and len(reset_bad) < 3:
                    reset_bad.append(seen[node] + bytes([b]))
                continue
            at_start_impl = (new[SB] & 0xFF) == finish
            if at_start_impl != (nref == REF.START) and len(fin_bad) < 3:
                fin_bad.append(seen[node] + bytes([b]))
            nn = (key(new), nref)
            if nn not in seen:
                seen[nn] = seen[node] + bytes([b])
                work.append(nn)
    ctx.count("product_states", len(seen))
    ctx.count("product_edges", edges)
    ctx.ob("C18.2 R-PRODUCT", f, "verdict-agreement", not mism,
           "the extracted automaton and RFC 3629 disagree: after %s the byte-wise validator says %s, the reference %s"
           % (mism[0][0][:-1].hex() or "<start>", "accept " + mism[0][0][-1:].hex() if mism[0][1] else "reject " + mism[0][0][-1:].hex(),
              "accepts" if mism[0][2] else "rejects") if mism else
           "verdicts agree on all %d product edges (%d product states)" % (edges, len(seen)),
           detail={"product_states": len(seen), "edges": edges, "disagreements": [m[0].hex() for m in mism]})
    ctx.ob("C18.2 R-PRODUCT", f, "finished-iff-reference-start", not fin_bad,
           "start_byte == UC_FINISH does not coincide with 'between code points' after %s" % (fin_bad[0].hex() if fin_bad else ""))
    ctx.ob("C18.2 R-PRODUCT", f, "reset-after-reject", not reset_bad,
           "after rejecting %s the validator is not back in its initial state" % (reset_bad[0].hex() if reset_bad else ""))
    # next_byte == 1 exactly in the initial state (the fast paths test only next_byte)
    nb1 = {ist for (ist, r) in seen if dict(ist)[NB] == 1}
    ctx.ob("C18.2 R-PRODUCT", f, "next_byte==1-iff-start", nb1 == {key(st0)},
           "a state other than the start state has next_byte == 1, but the word fast paths are enabled by that test alone")
    impl_states = {ist for (ist, r) in seen}
    return trans, key(st0), impl_states


def _word_guards(ctx, P, f):
    """skip paths of the outer loop: list of literal lists [(M, K, pred)] plus width in bytes"""
    loops = f.loops()
    if len(loops) != 2:
        raise AnalysisBroken("%s: expected an outer word loop and an inner byte loop" % f.key)
    hs = sorted(loops.items(), key=lambda kv: -len(kv[1]))
    outer_h, outer = hs[0]
    inner_h, inner = hs[1]
    if not inner < outer:
        raise AnalysisBroken("%s: loops are not nested" % f.key)
    latch = [b for b in outer if outer_h in f.succs[b]]
    if len(latch) != 1:
        raise AnalysisBroken("%s: outer loop latch not unique" % f.key)
    latch = latch[0]
    body_entry = [s for s in f.succs[outer_h] if s in outer]
    if len(body_entry) != 1:
        raise AnalysisBroken("%s: outer loop body entry" % f.key)
    width = None
    paths = []

    def rec(b, lits):
        if b == latch:
            paths.append(list(lits))
            return
        if b == inner_h or b not in outer:
            return
        for (s, atom, pol) in P.edge_conds(f, b):
            if atom is None:
                rec(s, lits)
            else:
                lits.append((atom, pol))
                rec(s, lits)
                lits.pop()
    rec(body_entry[0], [])
    out = []
    for lits in paths:
        conj = []
        enabled = False
        for (atom, pol) in lits:
            if atom[0] != "cmp":
                raise AnalysisBroken("%s: fast-path guard literal not a comparison: %s" % (f.key, fmt_atom(atom, pol)))
            pred = atom[1] if pol else Q.negate_pred(atom[1])
            l, r = atom[2], atom[3]
            if Q.is_field_load(l, "struct.cjet_utf8_checker", "next_byte") is not None and r == ("const", 1) and pred == "eq":
                enabled = True
                continue
            # literal: chain of (and const | add const) applied to the loaded word, compared with a constant
            ops = []
            x = l
            okshape = r[0] == "const"
            while okshape and x[0] == "op" and x[1] in ("and", "add") and len(x[2]) == 2 and x[2][1][0] == "const":
                ops.append((x[1], x[2][1][1]))
                x = x[2][0]
            if okshape and ops and x[0] == "load" and x[1][0] == "index":
                w = x[1][3]
                if width is None:
                    width = w
                bits = 8 * w
                m = (1 << bits) - 1
                ops = [(o, c & m) for (o, c) in reversed(ops)]
                conj.append((tuple(ops), r[1] & m, pred))
            else:
                raise AnalysisBroken("%s: fast-path guard literal has an unrecognised shape: %s" % (f.key, fmt_atom(atom, pol)))
        out.append((enabled, conj))
    return out, width


def _solve(conj, width, trans, start):
    """exact: is there a word satisfying all literals whose bytes (lane 0 first) are NOT accepted start->start?"""
    for (_, _, pred) in conj:
        if pred not in ("eq", "ne", "ugt", "uge", "ult", "ule"):
            raise AnalysisBroken("fast-path literal with signed predicate %s" % pred)
    # DP state: (automaton state or None=rejected, per literal (tri-state, carries of its add operations))
    def lane_ops(ops, lane):
        return [(o, (c >> (8 * lane)) & 0xFF) for (o, c) in ops]
    nadd = [sum(1 for (o, _) in ops if o == "add") for (ops, _, _) in conj]
    cur = {(start, tuple((0, (0,) * n) for n in nadd)): b""}
    for lane in range(width):
        nxt = {}
        lops = [lane_ops(ops, lane) for (ops, _, _) in conj]
        lk = [(K >> (8 * lane)) & 0xFF for (_, K, _) in conj]
        for (ast, lits), wit in cur.items():
            for b in range(256):
                nl = []
                for k, ops in enumerate(lops):
                    tri, carries = lits[k]
                    v = b
                    nc = []
                    ci = 0
                    for (o, c) in ops:
                        if o == "and":
                            v &= c
                        else:
                            sres = v + c + carries[ci]
                            nc.append(sres >> 8)
                            v = sres & 0xFF
                            ci += 1
                    nl.append((tri if v == lk[k] else (1 if v > lk[k] else -1), tuple(nc)))
                if ast is None:
                    na = None
                else:
                    tr = trans.get((ast, b))
                    na = tr[1] if (tr is not None and tr[0]) else None
                key = (na, tuple(nl))
                if key not in nxt:
                    nxt[key] = wit + bytes([b])
        cur = nxt
        if len(cur) > 400000:
            raise AnalysisBroken("fast-path guard solution space too large")
    cur = {(ast, tuple(t for (t, _) in lits)): wit for (ast, lits), wit in cur.items()}
    sat = 0
    bad = None
    for (ast, tri), wit in cur.items():
        ok = True
        for k, (_, _, pred) in enumerate(conj):
            t = tri[k]
            ok = ok and {"eq": t == 0, "ne": t != 0, "ugt": t > 0, "uge": t >= 0, "ult": t < 0, "ule": t <= 0}[pred]
        if not ok:
            continue
        sat += 1
        if ast != start and bad is None:
            bad = wit
    return sat, bad, len(cur)


def _fmt_lit(l):
    ops, k, pred = l
    e = "w"
    for (o, c) in ops:
        e = "(%s %s 0x%x)" % (e, "&" if o == "and" else "+", c)
    return "%s %s 0x%x" % (e, pred, k)


def fastpaths(ctx, P, trans, start):
    n = 0
    for key in ("utf8_checker.c:cjet_is_word_sequence_valid", "utf8_checker.c:cjet_is_word64_sequence_valid"):
        f = P.fn(key)
        ctx.fn_seen(f)
        guards, width = _word_guards(ctx, P, f)
        if width not in (4, 8):
            raise AnalysisBroken("%s: word width %s" % (key, width))
        # lane order of the slow loop
        lane_ok = False
        for c in f.calls("is_byte_valid"):
            t = P.term(f, c.a[1])
            lane_ok = (t[0] == "op" and t[1] == "and" and t[2][1] == ("const", 255) and t[2][0][0] == "op" and t[2][0][1] == "lshr"
                       and t[2][0][2][1][0] == "op" and t[2][0][2][1][1] == "mul" and ("const", 8) in t[2][0][2][1][2])
        ctx.ob("C18.3 R-PAIR", f, "lane-order", lane_ok, "slow loop does not feed byte j as (word >> 8*j) & 0xFF")
        gi = 0
        for (enabled, conj) in guards:
            gi += 1
            n += 1
            if not conj and not enabled:
                continue
            sat, bad, states = _solve(conj, width, trans, start)
            ctx.count("fastpath_dp_states", states)
            ok = enabled and bad is None
            ctx.ob("C18.3 R-FASTPATH", f, "skip-path#%d" % gi, ok,
                   ("the %d-bit fast path skips the word %s (bytes in memory order) although the byte-wise automaton does not accept "
                    "these bytes from the start state back to the start state: guard %s" %
                    (8 * width, bad.hex() if bad else "?", " && ".join(_fmt_lit(l) for l in conj)))
                   if (enabled and bad is not None) else
                   ("a skip path is taken without next_byte == 1" if not enabled else
                    "every word satisfying the guard is accepted start->start (%d literal(s))" % len(conj)),
                   detail={"literals": [_fmt_lit(l) for l in conj], "dp_states": states})
    if n < 10:
        raise AnalysisBroken("fast-path skip paths found: %d" % n)
    ctx.floor("C18.3 R-FASTPATH", 10)


def entry_points(ctx, P):
    finish = _finish_value(P)
    for key in ("utf8_checker.c:cjet_is_text_valid", "utf8_checker.c:cjet_is_byte_sequence_valid",
                "utf8_checker.c:cjet_is_word_sequence_valid", "utf8_checker.c:cjet_is_word64_sequence_valid"):
        f = P.fn(key)
        views = Q.path_views(ctx, P, f)
        bad = None
        for v in views:
            rej = v.has_atom(lambda a, p: a[0] == "truth" and Q.is_call_to(a[1], "is_byte_valid") and not p)
            inc = v.has_atom(lambda a, p: a[0] == "cmp" and Q.is_field_load(a[2], "struct.cjet_utf8_checker", "start_byte") is not None
                             and a[3] == ("const", finish) and not Q._poleq(a, p)) and \
                v.has_atom(lambda a, p: a[0] == "truth" and a[1][0] == "param" and a[1][1] == 3 and p)
            rc = v.ret_const()
            if (rej or inc) and rc not in (0,):
                bad = (v, "a rejection or an incomplete sequence at the end does not return false")
        ctx.ob("C18.4 R-ORDER", f, "reject-propagates", bad is None, bad[1] if bad else "rejections return false", witness=bad[0].witness() if bad else None)
        # siblings agree on what a text that ends inside a character leaves behind: the checker is initialised once by its user and
        # re-armed by the validator itself after every rejection (is_byte_valid does it for a bad byte) - so on the path that
        # rejects a complete text for ending mid-character the entry point re-initialises the checker; otherwise the NEXT text
        # on that checker is judged from the middle of the old one
        badr = None
        nr = 0
        for v in views:
            inc = v.has_atom(lambda a, p: a[0] == "cmp" and Q.is_field_load(a[2], "struct.cjet_utf8_checker", "start_byte") is not None
                             and a[3] == ("const", finish) and not Q._poleq(a, p)) and \
                v.has_atom(lambda a, p: a[0] == "truth" and a[1][0] == "param" and a[1][1] == 3 and p)
            if not inc or v.ret_const() != 0:
                continue
            nr += 1
            rearmed = any(P.srcname_of(i.callee) == "cjet_init_checker" for _, i in v.calls() if i.callee) or \
                any(i.op == "store" and P.term(f, i.a[1])[0] == "field" and P.term(f, i.a[1])[3] == "start_byte" and
                    P.const_int(i.a[0]) is not None and (P.const_int(i.a[0]) & 0xFF) == finish for _, i in v.insts())
            if not rearmed:
                badr = v
        ctx.ob("C18.4 R-SIB", f, "truncated-text-re-arms-the-checker", badr is None and nr >= 1,
               "%s() rejects a complete text that ends inside a character and leaves the checker in the middle of that character: the next "
               "text validated with the same checker is judged as its continuation (a plain \"A\" is rejected); the sibling entry points "
               "re-initialise the checker on this path" % f.srcname, witness=badr.witness() if badr else None)
        # byte i for i = 0..n-1
        okidx = False
        for c in f.calls("is_byte_valid"):
            t = P.term(f, c.a[1])
            lv, _ = Q.leaves(P, f, c.a[1])
            okidx = Q.mentions(t, lambda x: x[0] == "index" and x[1][0] == "param" and x[1][1] == 1 and x[2][0] == "phi")
            if okidx:
                ph = None
                for x in Q.subterms(t):
                    if x[0] == "index" and x[1][0] == "param":
                        ph = f.insts[x[2][1]]
                inits = [P.const_int(vv) for vv, _ in ph.inc]
                steps = [P.term(f, vv) for vv, _ in ph.inc if P.const_int(vv) is None]
                okidx = 0 in inits and steps == [("op", "add", (("phi", ph.id), ("const", 1)))]
            ctx.ob("C18.4 R-LOOP", f, "feeds-item-i", okidx, "entry point does not feed item i for i = 0, 1, 2, ... in order")
        # state only through c
        st = [i for i in f.all_insts() if i.op == "store" and P.term(f, i.a[1])[0] not in ("alloca",)]
        ctx.ob("C18.4 R-EFFECT", f, "no-hidden-state", not [s for s in st if P.term(f, s.a[1])[0] == "global"], "entry point keeps state in a global")
    # completeness: no entry point may answer 'valid' for a text marked complete without the "between code points" test
    for key in ("utf8_checker.c:cjet_is_text_valid", "utf8_checker.c:cjet_is_byte_sequence_valid", "utf8_checker.c:cjet_is_word_sequence_valid",
                "utf8_checker.c:cjet_is_word64_sequence_valid", "utf8_checker.c:cjet_is_word_sequence_valid_auto_alligned"):
        f = P.fn(key)
        bad = None
        n = 0
        for v in Q.path_views(ctx, P, f):
            rc = v.ret_const()
            if rc == 0:
                continue
            complete = v.has_atom(lambda a, p: a[0] == "truth" and a[1][0] == "param" and a[1][1] == 3 and p)
            not_complete = v.has_atom(lambda a, p: a[0] == "truth" and a[1][0] == "param" and a[1][1] == 3 and not p)
            tested = v.has_atom(lambda a, p: a[0] == "cmp" and Q.is_field_load(a[2], "struct.cjet_utf8_checker", "start_byte") is not None
                                and a[3] == ("const", finish) and Q._poleq(a, p))
            if not_complete:
                continue
            n += 1
            if not tested:
                bad = v
        ctx.ob("C18.4 R-GATE", f, "complete-implies-finished", bad is None and n > 0,
               "%s can answer 'valid' for a text marked complete on a path that never tests start_byte == UC_FINISH: a text ending "
               "inside a multi-byte character is accepted when presented this way" % f.srcname, witness=bad.witness() if bad else None)
    ctx.floor("C18.4 R-ORDER", 4)


def byte_entries_step_like_the_automaton(ctx, P, ev, trans, impl_states):
    """the two byte-wise entry points are the automaton, item by item: evaluated on every one-byte input from every reachable state
    of the automaton (is_complete false), each returns the automaton's verdict and leaves the automaton's successor state - so a
    shortcut that bypasses is_byte_valid() for some bytes is accepted exactly when it cannot change the outcome (and this is
    decided for the signedness of plain char of the configuration analysed)"""
    from ..core.feval import FEval, OutOfInput
    S = "struct.cjet_utf8_checker"
    for key in ("utf8_checker.c:cjet_is_text_valid", "utf8_checker.c:cjet_is_byte_sequence_valid"):
        f = P.fn(key)
        fe = FEval(P, f, S)
        bad = None
        n = 0
        try:
            for ist in sorted(impl_states):
                st = dict(ist)
                for b in range(256):
                    exp = trans.get((ist, b))
                    if exp is None:
                        continue
                    try:
                        ret, new = fe.run(st, {2: 1, 3: 0}, arrays={1: bytes([b])}, callees={ev.f.name: ev}, max_steps=20000)
                    except OutOfInput as e:
                        bad = bad or "state %s, byte %02x: %s" % (dict(ist), b, e)
                        continue
                    n += 1
                    verdict = bool(ret & 1)
                    if verdict != exp[0]:
                        bad = bad or "in state %s the byte %02x is %s by %s but %s by the automaton" % (
                            dict(ist), b, "accepted" if verdict else "refused", f.srcname, "accepted" if exp[0] else "refused")
                    elif verdict and tuple(sorted(new.items())) != exp[1]:
                        bad = bad or "in state %s the byte %02x leaves %s in state %s, the automaton in %s" % (dict(ist), b, f.srcname, new, dict(exp[1]))
        except AnalysisBroken as e:
            ctx.broken("%s cannot be evaluated item by item: %s" % (f.srcname, e))
            continue
        ctx.ob("C18.4 R-PRODUCT", f, "one-byte-inputs-step-like-the-automaton", bad is None and n >= 256,
               ("%s is not the automaton applied to each byte: %s" % (f.srcname, bad)) if bad else
               "%d (state, byte) pairs agree with the automaton" % n)


def every_byte(ctx, P):
    """the byte-wise entry point feeds EVERY byte to the automaton (an ASCII byte inside an open multi-byte sequence is an
    error only the automaton sees)"""
    f = P.fn("utf8_checker.c:cjet_is_byte_sequence_valid")
    loops = f.loops()
    calls = f.calls("is_byte_valid")
    ok = len(loops) == 1 and len(calls) == 1
    if ok:
        (h, body), = loops.items()
        latches = [b for (b, hh) in f.back_edges() if hh == h]
        ok = all(f.dominates(calls[0].block, b) for b in latches) and calls[0].block in body
        arg = P.term(f, calls[0].a[1])
        ok = ok and Q.mentions(arg, lambda x: x == ("param", 1, f.params[1]["name"]))
    ctx.ob("C18.4 R-LOOP", f, "every-byte-reaches-the-automaton", ok,
           "cjet_is_byte_sequence_valid() has an iteration that does not pass the byte to is_byte_valid() (e.g. an ASCII shortcut): "
           "a sequence interrupted by such a byte is accepted")


def tiling(ctx, P):
    """the auto-aligned front end cuts the input into (unaligned head, aligned words, tail): on every path the pieces handed
    to the validators are contiguous, start at the input and add up to exactly its length - no byte is skipped or read twice"""
    from ..core.pathmem import PathEval, a_add, a_scale, a_fmt
    f = P.fn("utf8_checker.c:cjet_is_word_sequence_valid_auto_alligned")
    VAL = {"cjet_is_byte_sequence_valid": 1}
    for nm in ("cjet_is_word_sequence_valid", "cjet_is_word64_sequence_valid"):
        g = P.fn("utf8_checker.c:" + nm)
        ty = g.params[1]["ty"]
        VAL[nm] = {"i32*": 4, "i64*": 8}.get(ty)
        if VAL[nm] is None:
            raise AnalysisBroken("%s: word pointer type %s" % (nm, ty))
    seq = ({("param", 1, f.params[1]["name"]): 1}, 0)
    total = ({("param", 2, f.params[2]["name"]): 1}, 0)
    bad = None
    n = 0
    for p in P.paths(f, loop_iters=1):
        pe = PathEval(P, f, Q.PathView(P, f, p))
        if pe.infeasible:
            continue
        segs = [(e.data["args"][1], a_scale(e.data["args"][2], VAL[e.data["callee"]]), e) for e in pe.events
                if e.kind == "call" and e.data["callee"] in VAL]
        if not segs:
            continue
        n += 1
        cur = seq
        summ = ({}, 0)
        ok = True
        for (ptr, nbytes, e) in segs:
            if not pe.equal(ptr, cur):
                ok = False
            cur = a_add(cur, nbytes)
            summ = a_add(summ, nbytes)
        if not pe.equal(summ, total):
            ok = False
        if not ok:
            bad = (pe, segs, summ)
    # every piece's verdict takes part in the result, and no piece but the whole text is told "this is the end"
    reach = set()
    st = [i.a[0] for i in f.all_insts() if i.op == "ret" and i.a]
    seen = set()
    while st:
        o = st.pop()
        if not isinstance(o, int) or o < f.nparams or o in seen:
            continue
        seen.add(o)
        ins = f.insts[o]
        if ins.op == "call":
            reach.add(o)
            continue
        if ins.op == "phi":
            st.extend(v for v, _ in ins.inc)
            # control dependence of a phi of constants: the branch conditions of its predecessors
            for (_, pb) in ins.inc:
                t = f.term_inst(pb)
                if t.op == "br" and t.a:
                    st.append(t.a[0])
                for pp in f.preds[pb]:
                    t2 = f.term_inst(pp)
                    if t2.op == "br" and t2.a:
                        st.append(t2.a[0])
        else:
            st.extend(x for x in ins.a if isinstance(x, int))
    segcalls = [c for c in f.all_insts() if c.op == "call" and c.callee and P.srcname_of(c.callee) in VAL]
    dropped = [c for c in segcalls if c.id not in reach]
    ctx.ob("C18.4 R-RET", f, "every-piece-verdict-counts", not dropped and len(segcalls) >= 5,
           "the verdict of %s at %s does not reach the result of the auto-aligned entry point: ill-formed bytes in that piece are "
           "accepted" % (P.srcname_of(dropped[0].callee) if dropped else "?", dropped[0].loc if dropped else "?"))
    early = None
    for p_ in P.paths(f, loop_iters=1):
        v = Q.PathView(P, f, p_)
        cs = [i for _, i in v.calls() if i.callee and P.srcname_of(i.callee) in VAL]
        if len(cs) > 1:
            for c in cs:
                if P.const_int(c.a[3]) != 0:
                    early = c
    ctx.ob("C18.4 R-PAIR", f, "pieces-are-not-told-the-text-ends", early is None,
           "a piece of the text (%s at %s) is validated with is_complete set although more pieces follow or it is not the whole text: "
           "a character that straddles the pieces is refused, depending on the buffer address" %
           (P.srcname_of(early.callee) if early else "", early.loc if early else ""))
    ctx.ob("C18.4 R-CURSOR", f, "segments-tile-the-input", bad is None and n >= 3,
           "the pieces handed to the validators do not tile the input: %s, sum %s, expected start %s and length %s" %
           ("; ".join("(%s, %s bytes)" % (a_fmt(p_), a_fmt(b_)) for p_, b_, _ in bad[1]), a_fmt(bad[2]), a_fmt(seq), a_fmt(total)) if bad else
           "%d paths" % n, witness=bad[0].view.witness() if bad else None)


def state_lives_in_the_checker(ctx, P):
    """'the same verdict however the text is presented' includes: interleaved with other texts.  Everything the validator remembers
    between two bytes lives in the checker object the caller passes; no function of utf8_checker.c writes a variable of static
    storage (bounds kept in file-scope statics are overwritten by the next lead byte of ANY checker)"""
    bad = []
    n = 0
    for f in P.own_functions():
        if f.base != "utf8_checker.c":
            continue
        n += 1
        for i in f.all_insts():
            if i.op == "store":
                lv, _ = Q.leaves(P, f, i.a[1], through_loads=False)
                if any(l[0] == "global" for l in lv):
                    bad.append((f, i, [l[1] for l in lv if l[0] == "global"][0]))
    ctx.ob("C18.1 R-EFFECT", P.fn("utf8_checker.c:cjet_init_checker"), "no-state-outside-the-checker-object", not bad and n >= 5,
           "%s() stores into the static variable %s at %s: validator state that is shared by all checkers - a text split after a lead "
           "byte gets the bounds another checker has set in between" % ((bad[0][0].srcname, bad[0][2], bad[0][1].loc) if bad else ("", "", "")))


def lengths_keep_their_width(ctx, P):
    """the auto-aligned front end splits the text into head, aligned middle and tail by arithmetic on byte_length: none of these
    values is cut to a narrower integer on the way (a 32-bit piece length wraps at 4 GiB, the tail pointer lands inside the text and
    its last bytes are never looked at)"""
    f = P.fn("utf8_checker.c:cjet_is_word_sequence_valid_auto_alligned")
    ln = ("param", 2, f.params[2]["name"])
    bad = []
    for i in f.all_insts():
        if i.op == "trunc":
            t = P.term(f, i.a[0])
            if Q.mentions(t, lambda x: x == ln or (x[0] == "param" and x[1] == 1)) and i.ty not in ("i1",):
                bad.append(i)
    ctx.ob("C18.4 R-BOUND", f, "piece-lengths-are-not-narrowed", not bad,
           "a value computed from the length or the address of the text is truncated to %s at %s: beyond that width the pieces handed to "
           "the validators no longer tile the text" % ((bad[0].ty, bad[0].loc) if bad else ("", "")))


def rejected_pieces_re_arm(ctx, P):
    """the auto-aligned front end validates an input in pieces and combines their verdicts; is_byte_valid() re-arms the checker at
    the byte it rejects, but a piece validated AFTER a rejected one can leave the checker inside a character again.  So where the
    verdicts of several pieces are combined, the combined verdict is tested and the rejecting side re-initialises the checker - else
    the next text on that checker is judged from the middle of a character the caller was told to forget"""
    f = P.fn("utf8_checker.c:cjet_is_word_sequence_valid_auto_alligned")
    VAL = ("cjet_is_byte_sequence_valid", "cjet_is_word_sequence_valid", "cjet_is_word64_sequence_valid", "cjet_is_text_valid")
    bad = None
    n = 0
    for v in Q.path_views(ctx, P, f):
        pieces = [i for _, i in v.calls() if i.callee and P.srcname_of(i.callee) in VAL]
        if len(pieces) < 2:
            continue
        n += 1
        ids = {i.id for i in pieces}

        def combined(t):
            if Q.mentions(t, lambda x: x[0] == "call" and x[3] in ids):
                return True
            for x in Q.subterms(t):      # the verdict merged over the alignment cases
                if x[0] == "phi":
                    try:
                        lv, _ = Q.leaves(P, f, x[1], through_loads=False)
                    except AnalysisBroken:
                        continue
                    if any(Q.mentions(l, lambda y: y[0] == "call" and y[3] in ids) for l in lv):
                        return True
            return False
        rejected_side = False
        tested = False
        for (a, p) in v.atoms:
            t = a[1] if a[0] == "truth" else a[2]
            if combined(t):
                tested = True
                if (a[0] == "truth" and not p) or (a[0] == "cmp" and a[3] == ("const", 0) and Q._poleq(a, p)):
                    rejected_side = True
        rearm = any(P.srcname_of(i.callee) == "cjet_init_checker" for _, i in v.calls() if i.callee)
        if not tested or (rejected_side and not rearm):
            bad = v
    ctx.ob("C18.4 R-SIB", f, "rejected-pieces-re-arm-the-checker", bad is None and n >= 2,
           "cjet_is_word_sequence_valid_auto_alligned() combines the verdicts of its pieces without testing them (or rejects without "
           "re-initialising the checker): a piece validated after a rejected one can leave the checker inside a character, and the next "
           "text on that checker is rejected although it is well-formed", witness=bad.witness() if bad else None)


def run(ctx):
    for cfg in ctx.configs(["default", "uchar"]):
        P = cfg.P
        state_lives_in_the_checker(ctx, P)
        lengths_keep_their_width(ctx, P)
        rejected_pieces_re_arm(ctx, P)
        f, ev, st0 = extract(ctx, P)
        trans, start, impl_states = product(ctx, P, f, ev, st0)
        ctx.note("extracted automaton: %d reachable states" % len(impl_states))
        fastpaths(ctx, P, trans, start)
        entry_points(ctx, P)
        tiling(ctx, P)
        every_byte(ctx, P)
        byte_entries_step_like_the_automaton(ctx, P, ev, trans, impl_states)
    ctx.floor("C18.2 R-PRODUCT", 4)
