"""C19 — permessage-deflate: negotiation clause only."""
from ..frontend import AnalysisBroken
from ..core import queries as Q
from ..core.program import fmt_term, fmt_atom

META = {
    "explanation": (
        "Only the negotiation clause of the property is decided: (1) R-GATE over all paths of fill_requested_extension (loop "
        "unrolled once; twice in the thorough tier): every parameter written into the extension response is one of the four "
        "RFC 7692 names; client_max_window_bits is written only on paths on which the client's parameter matched that name; the "
        "parameters written after the loop are only the ones RFC 7692 lets a server add unsolicited (server_max_window_bits, "
        "server_no_context_takeover, client_no_context_takeover); no name is written twice on a path (the once-flags are "
        "resolved path-sensitively); (2) R-BOUND: with each name written at most once the worst-case response length "
        "(extension name + sum of '; ' + name + optional '=dd') plus the terminating NUL fits the constant passed to realloc, "
        "and the NUL is stored on every accepting path; (3) evidence only: the daemon constructs its HTTP connections with "
        "compression level 0, for which negotiation returns before doing anything."),
    "not_decided": "lossless round trip for every payload/window/takeover/fragmentation combination, bounded memory of reassembly "
                   "and inflate, rejection of corrupt streams: run-time behaviour of zlib and of buffers whose sizes are run-time values",
    "assumptions": [],
    "trusted_base": ["RFC 7692 section 7.1: which parameters a server may add to its response unsolicited"],
}

NAMES = {"client_max_window_bits", "server_max_window_bits", "client_no_context_takeover", "server_no_context_takeover"}
UNSOLICITED_OK = {"server_max_window_bits", "server_no_context_takeover", "client_no_context_takeover"}


def _name_of_arg(P, f, o):
    lit = P.literal(o)
    if lit is not None:
        return lit
    t = P.term(f, o)
    # local char array initialised by memcpy from a constant
    base = P.strip(f, o)
    while isinstance(base, int) and base >= f.nparams and f.insts[base].op == "getelementptr":
        base = P.strip(f, f.insts[base].a[0])
    if isinstance(base, int) and base >= f.nparams and f.insts[base].op == "alloca":
        for i in f.all_insts():
            if i.op == "call" and i.callee and i.callee.startswith("llvm.memcpy"):
                d = P.strip(f, i.a[0])
                while isinstance(d, int) and d >= f.nparams and f.insts[d].op == "getelementptr":
                    d = P.strip(f, f.insts[d].a[0])
                if d == base:
                    src = i.a[1]
                    s = P.strip(f, src)
                    if isinstance(s, list):
                        if s[0] == "g":
                            return Q.global_text(P, P.globals.get(s[1], {}))
                        if s[0] == "s":
                            return s[1]
                        if s[0] == "ce":
                            inner = s[2][0]
                            if inner[0] == "g":
                                return Q.global_text(P, P.globals.get(inner[1], {}))
                            if inner[0] == "s":
                                return inner[1]
    return None


def run(ctx):
    for cfg in ctx.configs(["default"]):
        P, cg = cfg.P, cfg.cg
        f = P.fn("websocket.c:fill_requested_extension")
        w = P.fn("websocket.c:write_to_response")
        sites = f.calls("write_to_response")
        if len(sites) < 7:
            raise AnalysisBroken("write_to_response sites in fill_requested_extension: %d" % len(sites))
        names = {}
        loops = f.loops()
        for c in sites:
            nm = _name_of_arg(P, f, c.a[1])
            names[c.id] = nm
            in_loop = any(c.block in body for body in loops.values())
            ctx.ob("C19.1 R-TABLE", f, Q.ordinal_site(f, c, P) + ":name", nm in NAMES,
                   "extension response parameter %r is not an RFC 7692 permessage-deflate parameter" % nm)
            if not in_loop:
                ctx.ob("C19.1 R-GATE", f, Q.ordinal_site(f, c, P) + ":unsolicited", nm in UNSOLICITED_OK,
                       "%r is added to the response without the client having offered it; RFC 7692 lets the server add only %s "
                       "unsolicited" % (nm, sorted(UNSOLICITED_OK)))
        iters = 1
        views = Q.path_views(ctx, P, f, loop_iters=1)
        if ctx.tier == "thorough":
            try:
                ps = P.paths(f, max_paths=400000, loop_iters=2)
                from ..core.queries import PathView
                views = [PathView(P, f, p) for p in ps]
                ctx.count("paths_enumerated", len(ps))
                iters = 2
            except AnalysisBroken:
                ctx.note("two-iteration unrolling exceeds the path cap; one iteration used")
        dup = None
        unoffered = None
        nwrites = 0
        for v in views:
            seq = [(k, i) for k, i in v.calls("write_to_response")]
            if not seq:
                continue
            nwrites += 1
            seen = set()
            for k, i in seq:
                nm = names.get(i.id)
                if nm in seen:
                    dup = (v, nm)
                seen.add(nm)
                if nm == "client_max_window_bits":
                    matched = False
                    for (a, p) in v.atoms:
                        if a[0] == "cmp" and Q.is_call_to(a[2] if a[2][0] == "call" else a[3], "memcmp") and ("const", 0) in (a[2], a[3]) and Q._poleq(a, p):
                            call = a[2] if a[2][0] == "call" else a[3]
                            if any(x == ("str", nm) for x in call[2]):
                                matched = True
                    if not matched:
                        unoffered = (v, nm)
        ctx.ob("C19.1 R-GATE", f, "each-name-at-most-once", dup is None and nwrites > 0,
               "parameter %s is written twice into one extension response" % (dup[1] if dup else ""),
               witness=dup[0].witness() if dup else None, detail={"paths": len(views), "loop_iterations": iters})
        ctx.ob("C19.1 R-GATE", f, "client_max_window_bits-only-if-offered", unoffered is None,
               "client_max_window_bits is answered on a path where the client's parameter did not match that name",
               witness=unoffered[0].witness() if unoffered else None)
        # offered values: a window-bits field is only ever lowered, to the value parsed from the client's parameter of the SAME name
        nst = 0
        for st in f.all_insts():
            if st.op != "store":
                continue
            t = P.term(f, st.a[1])
            if t[0] == "field" and t[3] in ("client_max_window_bits", "server_max_window_bits") and P.const_int(st.a[0]) is None:
                nst += 1
                vt = P.term(f, st.a[0])

                def lowered(atom, pol, t=t, vt=vt):
                    if atom[0] != "cmp":
                        return False
                    eff = atom[1] if pol else Q.negate_pred(atom[1])
                    return eff == "ugt" and atom[2] == ("load", t) and atom[3] == vt
                ctx.ob("C19.1 R-GATE", f, Q.ordinal_site(f, st, P) + ":only-lowered", Q.must_pass(P, f, st.block, lowered),
                       "%s is set from the client's value without the guard 'current %s > offered value': the answer can carry a larger "
                       "window than the client offered (RFC 7692 7.1.2.2)" % (t[3], t[3]))
        if nst < 4:
            raise AnalysisBroken("window-bits stores from parsed values: %d" % nst)
        # (2) buffer bound
        rc = f.calls("realloc")
        if len(rc) != 1:
            raise AnalysisBroken("fill_requested_extension: realloc site")
        cap = P.const_int(rc[0].a[1])
        ext_name = None
        init = P.fn("websocket.c:websocket_init")
        for st in init.all_insts():
            if st.op == "store":
                t = P.term(init, st.a[1])
                if t[0] == "field" and t[3] == "name" and Q.mentions(t, lambda x: x[0] == "field" and x[3] == "extension_compression"):
                    ext_name = P.literal(st.a[0])
        if ext_name is None or cap is None:
            raise AnalysisBroken("extension name literal / realloc size not found")
        # value formats in write_to_response: '; ' + name, then '=' + up to two digits when value > 0
        worst = len(ext_name)
        per = {}
        for c in sites:
            nm = names[c.id]
            if nm is None:
                continue
            valued = P.const_int(c.a[4]) != 0
            per[nm] = max(per.get(nm, 0), 2 + len(nm) + (3 if valued else 0))
        worst += sum(per.values())
        ctx.ob("C19.2 R-BOUND", f, "response-fits", worst + 1 <= cap,
               "worst-case extension response needs %d bytes + NUL, the buffer has %s" % (worst, cap) if worst + 1 > cap else
               "worst case %d + NUL <= %d" % (worst, cap), detail={"per_parameter": per, "extension_name": ext_name})
        # digits: write_to_response writes at most '=' and two digits
        two = True
        for v in Q.path_views(ctx, P, w):
            incs = 0
            for _, i in v.insts():
                if i.op == "store":
                    dt = P.term(w, i.a[1])
                    vt = P.term(w, i.a[0])
                    if dt[0] == "param" and dt[1] == 3 and vt[0] == "op" and vt[1] == "add" and vt[2][1][0] == "const":
                        incs += vt[2][1][1]
            if incs > 2 + 3:
                two = False
        ctx.ob("C19.2 R-BOUND", w, "value-format", two, "write_to_response can append more than '=' and two digits besides the name")
        # values are bounded to two digits: window bits <= 15 at every store
        for st in f.all_insts():
            if st.op == "store":
                t = P.term(f, st.a[1])
                if t[0] == "field" and t[3] in ("client_max_window_bits", "server_max_window_bits"):
                    c = P.const_int(st.a[0])
                    if c is not None:
                        ctx.ob("C19.2 R-BOUND", f, Q.ordinal_site(f, st, P), c <= 15, "window bits set to %d" % c)
        nul = None
        for v in views:
            acc = any(i.op == "store" and P.term(f, i.a[1])[0] == "field" and P.term(f, i.a[1])[3] == "accepted" and P.const_int(i.a[0]) == 1 for _, i in v.insts())
            if acc:
                z = any(i.op == "store" and P.const_int(i.a[0]) == 0 and P.term(f, i.a[1])[0] == "index" for _, i in v.insts())
                if not z:
                    nul = v
        ctx.ob("C19.2 R-ORDER", f, "nul-terminated", nul is None, "an accepting path does not terminate the response string")
        # (3) evidence
        ihc = P.fn("http_connection.c:init_http_connection")
        lvl = [P.const_int(c.a[4]) for c in ihc.calls("init_http_connection2")]
        early = any(v.has_atom(lambda a, p: a[0] == "cmp" and Q.mentions(a[2], lambda x: x[0] == "field" and x[3] == "compression_level")
                               and a[3] == ("const", 0) and Q._poleq(a, p)) and not any(True for _ in v.calls()) for v in views)
        ctx.note("daemon constructs connections with compression level %s; level 0 returns before negotiating: %s (evidence, not a verdict)" % (lvl, early))
    ctx.floor("C19.1 R-TABLE", 7)
    ctx.floor("C19.1 R-GATE", 9)
