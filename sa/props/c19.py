"""C19 — permessage-deflate: negotiation clause and buffer bookkeeping of the compression paths."""
from ..frontend import AnalysisBroken
from ..core import queries as Q
from ..core.program import fmt_term, fmt_atom

META = {
    "explanation": (
        "Two groups of clauses. NEGOTIATION: (1) R-GATE over all paths of fill_requested_extension (loop "
        "unrolled once; twice in the thorough tier): every parameter written into the extension response is one of the four "
        "RFC 7692 names; client_max_window_bits is written only on paths on which the client's parameter matched that name; the "
        "parameters written after the loop are only the ones RFC 7692 lets a server add unsolicited (server_max_window_bits, "
        "server_no_context_takeover, client_no_context_takeover); no name is written twice on a path (the once-flags are "
        "resolved path-sensitively); a window-bits field is only lowered to the offered value of the same parameter; "
        "(2) R-BOUND: with each name written at most once the worst-case response length "
        "(extension name + sum of '; ' + name + optional '=dd') plus the terminating NUL fits the constant passed to realloc, "
        "and the NUL is stored on every accepting path; (3) evidence only: the daemon constructs its HTTP connections with "
        "compression level 0, for which negotiation returns before doing anything. "
        "BUFFER BOOKKEEPING (sa/core/pathmem.py: every path, loops unrolled twice, evaluated over an affine domain of SSA values "
        "and memory cells; branch facts in the same symbols; an obligation D >= 0 is discharged iff after substituting the "
        "path's equality facts D is a non-negative constant, has only non-negative coefficients over unsigned symbols, or differs "
        "from one inequality fact of the path by such a form): (C19.3) reassemble(): a fragment is copied to offset capacity - free, "
        "with free > length established strictly on the path, the capacity header equals the (re)allocation size, capacity - free "
        "grows by exactly the copied length, success implies a buffer exists, failure resets avail_in; the consumers hand inflate "
        "capacity - free - header bytes from buffer + header with memmove, header size agreeing; (C19.4) every return of "
        "private_decompress leaves avail_in == 0; (C19.5) at every inflate call next_out - buffer + avail_out equals the last "
        "(re)allocation size of the buffer that *free_ptr hands back, the input window lies inside the input copy, local buffer "
        "writes stay inside their allocation; (C19.6) websocket_compress points deflate at dest with room that is a function of "
        "length, send_frame allocates exactly that and checks allocation and result, a length is returned only with avail_out != 0 "
        "(flush complete) and >= 4 bytes produced, and the room covers zlib's worst case for every length that reaches the compressor."),
    "not_decided": "that inflate(deflate(x)) == x for every payload / window / context-takeover combination and that zlib rejects every "
                   "corrupt stream: run-time behaviour of zlib (src/zlib is not analysed)",
    "assumptions": ["distinct access paths do not alias (field-based memory model)",
                    "size arithmetic does not wrap around (message sizes are bounded by configuration far below 2^32)",
                    "zlib's inflate/deflate keep next_out + avail_out and next_in + avail_in invariant (they move the window, never widen it)"],
    "trusted_base": ["RFC 7692 section 7.1: which parameters a server may add to its response unsolicited",
                     "zlib.h: a flush is complete only when deflate returns with avail_out != 0; deflateBound's conservative formula "
                     "len + (len+7)/8 + (len+63)/64 + 5 plus 6 bytes for the sync flush marker"],
}

NAMES = {"client_max_window_bits", "server_max_window_bits", "client_no_context_takeover", "server_no_context_takeover"}
UNSOLICITED_OK = {"server_max_window_bits", "server_no_context_takeover", "client_no_context_takeover"}


def _name_of_arg(P, f, o):
    lit = P.literal(o)
    if lit is not None:
        return lit
    t = P.term(f, o)
    # local char array initialised by memcpy from a constant
    base = P.strip(f, o)
    while isinstance(base, int) and base >= f.nparams and f.insts[base].op == "getelementptr":
        base = P.strip(f, f.insts[base].a[0])
    if isinstance(base, int) and base >= f.nparams and f.insts[base].op == "alloca":
        for i in f.all_insts():
            if i.op == "call" and i.callee and i.callee.startswith("llvm.memcpy"):
                d = P.strip(f, i.a[0])
                while isinstance(d, int) and d >= f.nparams and f.insts[d].op == "getelementptr":
                    d = P.strip(f, f.insts[d].a[0])
                if d == base:
                    src = i.a[1]
                    s = P.strip(f, src)
                    if isinstance(s, list):
                        if s[0] == "g":
                            return Q.global_text(P, P.globals.get(s[1], {}))
                        if s[0] == "s":
                            return s[1]
                        if s[0] == "ce":
                            inner = s[2][0]
                            if inner[0] == "g":
                                return Q.global_text(P, P.globals.get(inner[1], {}))
                            if inner[0] == "s":
                                return inner[1]
    return None


def run(ctx):
    for cfg in ctx.configs(["default"]):
        P, cg = cfg.P, cfg.cg
        f = P.fn("websocket.c:fill_requested_extension")
        w = P.fn("websocket.c:write_to_response")
        sites = f.calls("write_to_response")
        if len(sites) < 7:
            raise AnalysisBroken("write_to_response sites in fill_requested_extension: %d" % len(sites))
        names = {}
        loops = f.loops()
        for c in sites:
            nm = _name_of_arg(P, f, c.a[1])
            names[c.id] = nm
            in_loop = any(c.block in body for body in loops.values())
            ctx.ob("C19.1 R-TABLE", f, Q.ordinal_site(f, c, P) + ":name", nm in NAMES,
                   "extension response parameter %r is not an RFC 7692 permessage-deflate parameter" % nm)
            if not in_loop:
                ctx.ob("C19.1 R-GATE", f, Q.ordinal_site(f, c, P) + ":unsolicited", nm in UNSOLICITED_OK,
                       "%r is added to the response without the client having offered it; RFC 7692 lets the server add only %s "
                       "unsolicited" % (nm, sorted(UNSOLICITED_OK)))
        iters = 1
        views = Q.path_views(ctx, P, f, loop_iters=1)
        if ctx.tier == "thorough":
            try:
                ps = P.paths(f, max_paths=400000, loop_iters=2)
                from ..core.queries import PathView
                views = [PathView(P, f, p) for p in ps]
                ctx.count("paths_enumerated", len(ps))
                iters = 2
            except AnalysisBroken:
                ctx.note("two-iteration unrolling exceeds the path cap; one iteration used")
        dup = None
        unoffered = None
        nwrites = 0
        for v in views:
            seq = [(k, i) for k, i in v.calls("write_to_response")]
            if not seq:
                continue
            nwrites += 1
            seen = set()
            for k, i in seq:
                nm = names.get(i.id)
                if nm in seen:
                    dup = (v, nm)
                seen.add(nm)
                if nm == "client_max_window_bits":
                    matched = False
                    for (a, p) in v.atoms:
                        if a[0] == "cmp" and Q.is_call_to(a[2] if a[2][0] == "call" else a[3], "memcmp") and ("const", 0) in (a[2], a[3]) and Q._poleq(a, p):
                            call = a[2] if a[2][0] == "call" else a[3]
                            if any(x == ("str", nm) for x in call[2]):
                                matched = True
                    if not matched:
                        unoffered = (v, nm)
        ctx.ob("C19.1 R-GATE", f, "each-name-at-most-once", dup is None and nwrites > 0,
               "parameter %s is written twice into one extension response" % (dup[1] if dup else ""),
               witness=dup[0].witness() if dup else None, detail={"paths": len(views), "loop_iterations": iters})
        ctx.ob("C19.1 R-GATE", f, "client_max_window_bits-only-if-offered", unoffered is None,
               "client_max_window_bits is answered on a path where the client's parameter did not match that name",
               witness=unoffered[0].witness() if unoffered else None)
        # offered values: a window-bits field is only ever lowered, to the value parsed from the client's parameter of the SAME name
        nst = 0
        for st in f.all_insts():
            if st.op != "store":
                continue
            t = P.term(f, st.a[1])
            if t[0] == "field" and t[3] in ("client_max_window_bits", "server_max_window_bits") and P.const_int(st.a[0]) is None:
                nst += 1
                vt = P.term(f, st.a[0])

                def lowered(atom, pol, t=t, vt=vt):
                    if atom[0] != "cmp":
                        return False
                    eff = atom[1] if pol else Q.negate_pred(atom[1])
                    return eff == "ugt" and atom[2] == ("load", t) and atom[3] == vt
                ctx.ob("C19.1 R-GATE", f, Q.ordinal_site(f, st, P) + ":only-lowered", Q.must_pass(P, f, st.block, lowered),
                       "%s is set from the client's value without the guard 'current %s > offered value': the answer can carry a larger "
                       "window than the client offered (RFC 7692 7.1.2.2)" % (t[3], t[3]))
        if nst < 4:
            raise AnalysisBroken("window-bits stores from parsed values: %d" % nst)
        # (2) buffer bound
        rc = f.calls("realloc")
        if len(rc) != 1:
            raise AnalysisBroken("fill_requested_extension: realloc site")
        cap = None
        ext_name = None
        init = P.fn("websocket.c:websocket_init")
        for st in init.all_insts():
            if st.op == "store":
                t = P.term(init, st.a[1])
                if t[0] == "field" and t[3] == "name" and Q.mentions(t, lambda x: x[0] == "field" and x[3] == "extension_compression"):
                    ext_name = P.literal(st.a[0])
        def size_of(t):
            """the requested size as a number: constants, and strlen() of the configured extension name"""
            if t[0] == "const":
                return t[1]
            if t[0] == "call" and t[1] == "strlen" and ext_name is not None and \
                    Q.mentions(t[2][0], lambda x: x[0] == "field" and x[3] == "name"):
                return len(ext_name)
            if t[0] == "op" and t[1] in ("add", "sub", "mul") and len(t[2]) == 2:
                x, y = size_of(t[2][0]), size_of(t[2][1])
                if x is None or y is None:
                    return None
                return {"add": x + y, "sub": x - y, "mul": x * y}[t[1]]
            return None
        cap = size_of(P.term(f, rc[0].a[1]))
        if ext_name is None or cap is None:
            raise AnalysisBroken("extension name literal / realloc size not found")
        # value formats in write_to_response: '; ' + name, then '=' + up to two digits when value > 0
        worst = len(ext_name)
        per = {}
        for c in sites:
            nm = names[c.id]
            if nm is None:
                continue
            valued = P.const_int(c.a[4]) != 0
            per[nm] = max(per.get(nm, 0), 2 + len(nm) + (3 if valued else 0))
        worst += sum(per.values())
        ctx.ob("C19.2 R-BOUND", f, "response-fits", worst + 1 <= cap,
               "worst-case extension response needs %d bytes + NUL, the buffer has %s" % (worst, cap) if worst + 1 > cap else
               "worst case %d + NUL <= %d" % (worst, cap), detail={"per_parameter": per, "extension_name": ext_name})
        # digits: write_to_response writes at most '=' and two digits
        two = True
        for v in Q.path_views(ctx, P, w):
            incs = 0
            for _, i in v.insts():
                if i.op == "store":
                    dt = P.term(w, i.a[1])
                    vt = P.term(w, i.a[0])
                    if dt[0] == "param" and dt[1] == 3 and vt[0] == "op" and vt[1] == "add" and vt[2][1][0] == "const":
                        incs += vt[2][1][1]
            if incs > 2 + 3:
                two = False
        ctx.ob("C19.2 R-BOUND", w, "value-format", two, "write_to_response can append more than '=' and two digits besides the name")
        # values are bounded to two digits: window bits <= 15 at every store
        for st in f.all_insts():
            if st.op == "store":
                t = P.term(f, st.a[1])
                if t[0] == "field" and t[3] in ("client_max_window_bits", "server_max_window_bits"):
                    c = P.const_int(st.a[0])
                    if c is not None:
                        ctx.ob("C19.2 R-BOUND", f, Q.ordinal_site(f, st, P), c <= 15, "window bits set to %d" % c)
        nul = None
        for v in views:
            acc = any(i.op == "store" and P.term(f, i.a[1])[0] == "field" and P.term(f, i.a[1])[3] == "accepted" and P.const_int(i.a[0]) == 1 for _, i in v.insts())
            if acc:
                z = any(i.op == "store" and P.const_int(i.a[0]) == 0 and P.term(f, i.a[1])[0] == "index" for _, i in v.insts())
                if not z:
                    nul = v
        ctx.ob("C19.2 R-ORDER", f, "nul-terminated", nul is None, "an accepting path does not terminate the response string")
        # (3) evidence
        ihc = P.fn("http_connection.c:init_http_connection")
        lvl = [P.const_int(c.a[4]) for c in ihc.calls("init_http_connection2")]
        early = any(v.has_atom(lambda a, p: a[0] == "cmp" and Q.mentions(a[2], lambda x: x[0] == "field" and x[3] == "compression_level")
                               and a[3] == ("const", 0) and Q._poleq(a, p)) and not any(True for _ in v.calls()) for v in views)
        ctx.note("daemon constructs connections with compression level %s; level 0 returns before negotiating: %s (evidence, not a verdict)" % (lvl, early))
        run_memory(ctx, P, cg)
        # the frame a (deflated) message goes out in: length form and announced length (shared with C12.3)
        from .c12 import clause3_server_frames
        clause3_server_frames(ctx, P)
    ctx.floor("C19.1 R-TABLE", 7)
    ctx.floor("C19.1 R-GATE", 9)


# ---------------------------------------------------------------------------------------------------------------
# memory clauses (C19.3 - C19.6): buffer bookkeeping of the reassembly / inflate / deflate paths
# ---------------------------------------------------------------------------------------------------------------
from ..core.pathmem import PathEval, a_add, a_scale, a_const, a_fmt, a_key  # noqa: E402

CELL_CALLS = {"read_int_from_array": ("load", "hdr"), "write_int_to_array": ("store", "hdr")}


def _zcell(mem, name):
    ks = [k for k in mem if isinstance(k, tuple) and k and k[0] == "field" and k[2] == "struct.z_stream_s" and k[3] == name]
    if len(set(ks)) > 1:
        raise AnalysisBroken("more than one z_stream %s cell in one function" % name)
    return ks[0] if ks else None


def _zval(mem, name):
    k = _zcell(mem, name)
    return mem.get(k) if k is not None else None


def _ptr_split(x):
    """affine pointer value -> (pointer leaf, offset affine) if exactly one pointer-like leaf with coefficient 1"""
    ptrs = [l for l, c in x[0].items() if l[0] == "alloc" or (l[0] == "init" and isinstance(l[1], tuple) and l[1] and l[1][0] == "field" and
                                                              l[1][3] in ("next_in", "next_out")) or (l[0] == "param" and False)]
    if len(ptrs) != 1 or x[0][ptrs[0]] != 1:
        return None, None
    p = ptrs[0]
    return p, ({l: c for l, c in x[0].items() if l != p}, x[1])


def _evals(ctx, P, f, iters):
    vs = []
    try:
        ps = P.paths(f, loop_iters=iters, max_paths=40000)
    except AnalysisBroken:
        ps = P.paths(f, loop_iters=1)
        ctx.note("%s: %d loop iterations exceed the path cap; one used" % (f.key, iters))
    ctx.count("paths_enumerated", len(ps))
    for p in ps:
        pe = PathEval(P, f, Q.PathView(P, f, p), CELL_CALLS)
        if not pe.infeasible:
            vs.append(pe)
    if not vs:
        raise AnalysisBroken("no feasible path in %s" % f.key)
    return vs


class _Agg:
    """one obligation per (rule, function, role), violated if any path violates it; remembers the first witness"""

    def __init__(self, ctx):
        self.ctx = ctx
        self.recs = {}

    def need(self, rule, f, role, ok, what, pe=None):
        r = self.recs.setdefault((rule, f.key, role), {"f": f, "ok": True, "what": what, "n": 0, "wit": None})
        r["n"] += 1
        if not ok and r["ok"]:
            r["ok"] = False
            r["what"] = what
            r["wit"] = pe.view.witness() if pe is not None else None

    def flush(self):
        for (rule, fk, role), r in self.recs.items():
            self.ctx.ob(rule, r["f"], role, r["ok"], r["what"], witness=r["wit"], detail={"path_instances": r["n"]})


def run_memory(ctx, P, cg):
    A = _Agg(ctx)
    hdr_consts = {}
    for helper in CELL_CALLS:
        P.fn("compression.c:" + helper)   # anchors: a vanished helper is 'analysis broken', not a violation
    # ---- C19.3 reassembly buffer ----
    f = P.fn("compression.c:reassemble")
    ncopies = 0
    for pe in _evals(ctx, P, f, 2):
        rets = [e for e in pe.events if e.kind == "ret"]
        if not rets:
            continue
        ret = rets[-1]
        rv = a_const(ret.data["value"]) if ret.data["value"] is not None else None
        success = rv == 0
        copied = ({}, 0)
        ncopy_path = 0
        first = None
        for e in pe.events:
            if first is None and e.kind in ("call", "cellcall", "store", "load"):
                first = e
            if e.kind == "call" and e.data["callee"] in ("memcpy", "memmove"):
                dest, ln = e.data["args"][0], e.data["args"][2]
                N = _zval(e.mem, "next_in")
                Av = _zval(e.mem, "avail_in")
                if N is None or Av is None:
                    continue
                off = a_add(dest, N, -1)
                if any(l[0] in ("alloc",) or (l[0] == "init" and l[1] == _zcell(e.mem, "next_in")) for l in off[0]):
                    continue   # not a copy into the reassembly buffer
                ncopies += 1
                ncopy_path += 1
                copied = a_add(copied, ln)
                H = e.mem.get(("ptrcell", "hdr", a_key(N)))
                A.need("C19.3 R-BOUND", f, "copy:capacity-known", H is not None,
                       "the capacity header of the reassembly buffer is not known where the fragment is copied", pe)
                if H is None:
                    continue
                A.need("C19.3 R-BOUND", f, "copy:offset-is-used-bytes", pe.equal(off, a_add(H, Av, -1), upto=e.pos),
                       "the fragment is copied to offset %s, the bytes in use are capacity - free = %s" % (a_fmt(off), a_fmt(a_add(H, Av, -1))), pe)
                ok = pe.entails(a_add(Av, ln, -1), strict=True, upto=e.pos)
                A.need("C19.3 R-BOUND", f, "copy:strictly-inside-free-space", ok,
                       "on this path nothing establishes free space > fragment length where the fragment is copied into the reassembly "
                       "buffer (free = %s, length = %s): the copy can run past the end of the buffer, or fill it exactly and leave "
                       "avail_in == 0, which is the marker for 'no message being collected'" % (a_fmt(Av), a_fmt(ln)), pe)
                pl = [l for l in N[0] if l[0] == "alloc"]
                if pl:
                    A.need("C19.3 R-PAIR", f, "capacity-header-is-allocation-size", pe.equal(H, pe.alloc[pl[0]], upto=e.pos),
                           "capacity header %s differs from the size the buffer was (re)allocated with, %s" % (a_fmt(H), a_fmt(pe.alloc[pl[0]])), pe)
        if success:
            N1 = _zval(ret.mem, "next_in")
            A1 = _zval(ret.mem, "avail_in")
            H1 = ret.mem.get(("ptrcell", "hdr", a_key(N1))) if N1 is not None else None
            if ncopy_path == 0:
                ok = A1 is not None and pe.entails(A1, strict=True)
                A.need("C19.3 R-GATE", f, "success-implies-buffer", ok,
                       "reassemble() reports success on a path that neither copies into the reassembly buffer nor establishes that one "
                       "exists (avail_in != 0): the caller reads the capacity header through next_in", pe)
                continue
            if N1 is None or A1 is None or H1 is None:
                A.need("C19.3 R-CURSOR", f, "used-grows-by-copied", False, "bookkeeping cells not resolved at return", pe)
                continue
            used1 = a_add(H1, A1, -1)
            k_n1 = _zcell(ret.mem, "next_in")
            fresh = any(e.kind == "store" and e.data["cell"] == k_n1 and any(l[0] == "alloc" and l[1] == "malloc" for l in e.data["value"][0])
                        for e in pe.events)
            if fresh:
                d = a_add(used1, copied, -1)
                c = a_const(d)
                A.need("C19.3 R-CURSOR", f, "used-grows-by-copied:first-fragment", c is not None and c >= 0,
                       "after the first fragment capacity - free = %s, expected header size + %s" % (a_fmt(used1), a_fmt(copied)), pe)
                if c is not None:
                    hdr_consts.setdefault("reassemble", set()).add(c)
            else:
                k_n = _zcell(ret.mem, "next_in")
                k_a = _zcell(ret.mem, "avail_in")
                n0 = ({("init", k_n): 1}, 0)
                h0 = ({("init", ("ptrcell", "hdr", a_key(n0))): 1}, 0)
                a0 = ({("init", k_a): 1}, 0)
                used0 = a_add(h0, a0, -1)
                A.need("C19.3 R-CURSOR", f, "used-grows-by-copied:later-fragment", pe.equal(a_add(used1, used0, -1), copied),
                       "capacity - free changes by %s on a path that copies %s bytes" % (a_fmt(a_add(used1, used0, -1)), a_fmt(copied)), pe)
        elif rv is not None and rv < 0:
            A1 = _zval(ret.mem, "avail_in")
            A.need("C19.4 R-TYPESTATE", f, "failure-resets-collecting-state", A1 is not None and pe.equal(A1, ({}, 0)),
                   "reassemble() fails without resetting avail_in to 0 (the marker 'no message being collected')", pe)
    if ncopies < 2:
        raise AnalysisBroken("reassemble: copies into the reassembly buffer found on %d path(s)" % ncopies)
    # consumers: collected length and data start
    for fn in ("compression.c:text_frame_received_comp", "compression.c:binary_frame_received_comp"):
        g = P.fn(fn)
        nfin = 0
        for pe in _evals(ctx, P, g, 1):
            for e in pe.events:
                if e.kind == "call" and e.data["callee"] == "private_decompress":
                    nfin += 1
                    N = _zval(e.mem, "next_in")
                    Av = _zval(e.mem, "avail_in")
                    H = e.mem.get(("ptrcell", "hdr", a_key(N))) if N is not None else None
                    ptr, ln = e.data["args"][1], e.data["args"][2]
                    if N is None or Av is None or H is None:
                        A.need("C19.3 R-CURSOR", g, "collected-length", False, "bookkeeping cells not resolved at the inflate hand-over", pe)
                        continue
                    c = a_const(a_add(a_add(H, Av, -1), ln, -1))
                    A.need("C19.3 R-CURSOR", g, "collected-length", c is not None and c >= 0,
                           "length handed to inflate is %s, bytes in use are %s" % (a_fmt(ln), a_fmt(a_add(H, Av, -1))), pe)
                    if c is not None:
                        hdr_consts.setdefault(g.srcname, set()).add(c)
                    # the collected bytes are moved to where inflate reads them
                    mv = [m for m in pe.events if m.kind == "call" and m.data["callee"] in ("memmove", "memcpy") and m.pos < e.pos]
                    okmv = False
                    for m in mv:
                        d0 = a_add(m.data["args"][0], ptr, -1)
                        s0 = a_add(m.data["args"][1], N, -1)
                        if a_const(d0) == 0 and a_const(s0) == c and pe.equal(m.data["args"][2], ln):
                            okmv = m.data["callee"] == "memmove" or c is None or False
                    A.need("C19.3 R-CURSOR", g, "collected-bytes-moved", okmv or pe.equal(a_add(ptr, N, -1), ({}, c or 0)),
                           "inflate is not handed the collected bytes: expected data at buffer + %s, %s bytes (overlapping move needs memmove)" % (c, a_fmt(ln)), pe)
        if nfin < 1:
            raise AnalysisBroken("%s: hand-over to private_decompress not found" % fn)
    vals = set()
    for s in hdr_consts.values():
        vals |= s
    A.need("C19.3 R-PAIR", f, "header-size-agrees", len(vals) == 1 and len(hdr_consts) == 3,
           "the size of the capacity header differs between reassemble() and the consumers of the buffer: %s" %
           {k: sorted(v) for k, v in hdr_consts.items()})
    # ---- C19.4 / C19.5 private_decompress ----
    g = P.fn("compression.c:private_decompress")
    ninfl = 0
    for pe in _evals(ctx, P, g, 2):
        for e in pe.events:
            if e.kind == "ret":
                Av = _zval(e.mem, "avail_in")
                A.need("C19.4 R-TYPESTATE", g, "return-leaves-no-collecting-state", Av is not None and pe.equal(Av, ({}, 0), upto=e.pos),
                       "private_decompress() returns with avail_in = %s; reassemble() takes avail_in != 0 for 'a message is being "
                       "collected in next_in' and next_in has been freed here" % (a_fmt(Av) if Av is not None else "?"), pe)
            if e.kind == "call" and e.data["callee"] == "inflate":
                ninfl += 1
                NO = _zval(e.mem, "next_out")
                AO = _zval(e.mem, "avail_out")
                if NO is None or AO is None:
                    A.need("C19.5 R-CURSOR", g, "inflate:output-window", False, "next_out / avail_out not set before inflate()", pe)
                    continue
                p, off = _ptr_split(NO)
                ok = p is not None and p in pe.alloc and pe.equal(a_add(off, AO), pe.alloc[p], upto=e.pos)
                A.need("C19.5 R-CURSOR", g, "inflate:output-window", ok,
                       "inflate() is given next_out = %s with avail_out = %s; the buffer was allocated with %s bytes: offset + avail_out "
                       "must equal the allocation" % (a_fmt(NO), a_fmt(AO), a_fmt(pe.alloc[p]) if p in pe.alloc else "?"), pe)
                fp = e.mem.get(("param", 3, "free_ptr"))
                A.need("C19.5 R-PAIR", g, "inflate:writes-the-buffer-that-is-returned", fp is not None and p is not None and pe.equal(fp, ({p: 1}, 0)),
                       "next_out points into %s, the buffer handed back through *free_ptr is %s" % (a_fmt(NO), a_fmt(fp) if fp else "?"), pe)
                NI = _zval(e.mem, "next_in")
                AI = _zval(e.mem, "avail_in")
                pi, offi = _ptr_split(NI) if NI is not None else (None, None)
                # the first call only: later calls see what inflate left
                if pi is not None and pi in pe.alloc and AI is not None and not any(l[0] == "clob" for l in AI[0]):
                    A.need("C19.5 R-CURSOR", g, "inflate:input-window", pe.entails(a_add(pe.alloc[pi], a_add(offi, AI), -1)),
                           "inflate() may read %s bytes from offset %s of a %s byte buffer" % (a_fmt(AI), a_fmt(offi), a_fmt(pe.alloc[pi])), pe)
            if e.kind in ("store", "call"):
                _local_bounds(A, "C19.5 R-BOUND", g, pe, e)
        # the grow-and-retry loop is left only when inflate() left room in the output buffer (zlib.h: avail_out == 0 on return
        # means more output may be pending, whatever the return code - Z_BUF_ERROR with Z_FINISH says exactly 'more room'),
        # or on a hard error of inflate(), which tears the stream down
        infl = [e for e in pe.events if e.kind == "call" and e.data["callee"] == "inflate"]
        rets_ = [e for e in pe.events if e.kind == "ret"]
        if infl and rets_:
            last = infl[-1]
            hard = any(e.kind == "call" and e.data["callee"] == "inflateEnd" and e.pos > last.pos for e in pe.events)
            AO = _zval(rets_[-1].mem, "avail_out")
            A.need("C19.5 R-PROTO", g, "inflate:loop-left-only-with-room-or-hard-error",
                   hard or (AO is not None and pe.entails(AO, strict=True, upto=rets_[-1].pos)),
                   "private_decompress() leaves the inflate loop although avail_out may be 0 and inflate() reported no hard error: the "
                   "output buffer is full, the rest of the message has not been produced (a message that inflates to more than the "
                   "first buffer is refused or cut)", pe)
    if ninfl < 2:
        raise AnalysisBroken("private_decompress: inflate() call instances on paths: %d" % ninfl)
    # ---- C19.6 deflate side ----
    w = P.fn("compression.c:websocket_compress")
    cap_formula = None
    nsucc = 0
    for pe in _evals(ctx, P, w, 1):
        dfl = [e for e in pe.events if e.kind == "call" and e.data["callee"] == "deflate"]
        if not dfl:
            continue
        d = dfl[0]
        AO = _zval(d.mem, "avail_out")
        NO = _zval(d.mem, "next_out")
        dest = ({("param", 1, w.params[1]["name"]): 1}, 0)
        A.need("C19.6 R-PAIR", w, "deflate:writes-dest", NO is not None and pe.equal(NO, dest), "deflate() is not pointed at the caller's buffer", pe)
        if AO is None or any(l[0] != "param" for l in AO[0]):
            A.need("C19.6 R-PAIR", w, "deflate:room-is-a-function-of-length", False, "avail_out before deflate() is not a function of the length parameter", pe)
            continue
        cap_formula = AO
        for e in pe.events:
            if e.kind == "load" and e.pos > d.pos:
                off = a_add(({k: c for k, c in e.data["cell"][2][0]}, e.data["cell"][2][1]), dest, -1)
                if any(l[0] == "param" and l[1] == 1 for l in off[0]):
                    continue
                lo = pe.entails(off, upto=e.pos)
                hi = pe.entails(a_add(a_add(AO, off, -1), ({}, 1), -1), upto=e.pos)
                A.need("C19.6 R-BOUND", w, "tail-bytes-read-inside-output", lo and hi,
                       "dest[%s] is read without a guard that keeps the index inside the produced output (at least 4 bytes produced)" % a_fmt(off), pe)
            if e.kind == "ret" and e.data["value"] is not None:
                c = a_const(e.data["value"])
                if c is not None and c < 0:
                    continue
                nsucc += 1
                A.need("C19.6 R-BOUND", w, "returned-length-not-negative", pe.entails(e.data["value"], upto=e.pos),
                       "the compressed length %s is returned without a guard that the produced bytes include the 4 byte tail" % a_fmt(e.data["value"]), pe)
                AO2 = _zval(e.mem, "avail_out")
                A.need("C19.6 R-PROTO", w, "flush-complete", AO2 is not None and pe.entails(AO2, strict=True, upto=e.pos),
                       "a length is returned although avail_out may be 0 after deflate(): zlib.h - the flush is complete only when deflate "
                       "returns with avail_out != 0; the message is truncated", pe)
    if cap_formula is None or nsucc < 1:
        raise AnalysisBroken("websocket_compress: deflate path not found")
    sf = P.fn("websocket.c:send_frame")
    ncall = 0
    for pe in _evals(ctx, P, sf, 1):
        for e in pe.events:
            if e.kind == "call" and e.data["callee"] == "websocket_compress":
                ncall += 1
                buf = e.data["args"][1]
                p, off = _ptr_split(buf)
                A.need("C19.6 R-NULL", sf, "compress-buffer-checked", p is not None and pe.entails(({p: 1}, 0), strict=True, upto=e.pos) or
                       any(k == "gt0" and a_key(d) == a_key(({p: 1}, 0)) and pp <= e.pos for (pp, k, d) in pe.facts),
                       "the buffer for the compressed payload is handed to websocket_compress() without a check of the allocation", pe)
                if p is not None and p in pe.alloc:
                    # capacity assumed by the callee, with its length parameter replaced by the argument
                    sub = ({}, cap_formula[1])
                    for l, c in cap_formula[0].items():
                        sub = a_add(sub, a_scale(e.data["args"][l[1]], c))
                    A.need("C19.6 R-PAIR", sf, "compress-buffer-size-agrees", pe.equal(pe.alloc[p], sub),
                           "send_frame() allocates %s bytes, websocket_compress() lets deflate() write %s" % (a_fmt(pe.alloc[p]), a_fmt(sub)), pe)
                    # room for the worst case (zlib deflateBound for raw deflate + sync flush marker)
                    ln = e.data["args"][3]
                    K = 0
                    for (pp, k, d) in pe.facts:
                        if pp <= e.pos and k in ("gt0", "ge0"):
                            r = a_add(d, ln, -1)
                            c = a_const(r)
                            if c is not None:
                                K = max(K, -c + (1 if k == "gt0" else 0))
                    capL = pe.alloc[p]
                    lin = [l for l in capL[0]]
                    okroom = False
                    if len(lin) == 1 and a_key(({lin[0]: 1}, 0)) == a_key(ln):
                        a, b = capL[0][lin[0]], capL[1]
                        okroom = a >= 2 and all(a * L + b >= _deflate_worst(L) for L in range(K, 70000))
                    A.need("C19.6 R-BOUND", sf, "compress-room-for-worst-case", okroom,
                           "payloads of %d bytes and more are compressed into %s bytes; zlib's bound for raw deflate with a sync flush "
                           "(len + (len+7)/8 + (len+63)/64 + 5 + 6) does not fit for small payloads" % (K, a_fmt(capL)), pe)
                r = e.data.get("result")
                for e2 in pe.events:
                    if e2.pos > e.pos and e2.kind in ("store", "call") and r is not None:
                        vals2 = [e2.data["value"]] if e2.kind == "store" else e2.data["args"]
                        for v in vals2:
                            if any(l in v[0] for l in r[0]):
                                A.need("C19.6 R-RET", sf, "compress-result-checked", pe.entails(r, upto=e2.pos),
                                       "the result of websocket_compress() is used as a length without a check for the error value", pe)
    if ncall < 1:
        raise AnalysisBroken("send_frame: call of websocket_compress not found")
    # ---- C19.7 what the peer's inflater sees is what went through our deflater, with the negotiated windows ----
    # (a) a payload that went through the connection's deflater is what is sent, flagged RSV1: the deflater's history now
    #     contains it, so sending the plain bytes instead makes the two LZ77 windows diverge for all later messages
    nsent = 0
    for pe in _evals(ctx, P, sf, 1):
        comp = [e for e in pe.events if e.kind == "call" and e.data["callee"] == "websocket_compress"]
        wv = [e for e in pe.events if e.kind == "call" and e.data["callee"] is None]
        if not comp or not wv:
            continue
        nsent += 1
        e, w = comp[0], wv[-1]
        buf, res = e.data["args"][1], e.data.get("result")
        base = ln = None
        for k, v in w.mem.items():
            if isinstance(k, tuple) and k and k[0] == "field" and k[2] == "struct.socket_io_vector" and k[1][0] == "index" and k[1][2] == ("const", 1):
                if k[3] == "iov_base":
                    base = v
                if k[3] == "iov_len":
                    ln = v
        ok = base is not None and ln is not None and res is not None and pe.equal(base, buf) and pe.equal(ln, res)
        # RSV1 in the first header byte: the stored value's rsv operand resolves to 0x40 on this path
        rsv_ok = False
        for e2 in pe.events:
            if e2.kind == "store" and isinstance(e2.data["cell"], tuple) and e2.data["cell"][0] == "ptrcell" and e2.pos > e.pos:
                t = P.term(sf, e2.inst.a[0])
                for sub in Q.subterms(t):
                    if sub[0] == "phi":
                        c = P._resolve_const(sf, sub[1], pe.view.envs()[-1])
                        if c == 0x40:
                            rsv_ok = True
        A.need("C19.7 R-COMMIT", sf, "deflated-payload-is-what-is-sent", ok and rsv_ok,
               "on a path on which the payload went through websocket_compress() successfully, the frame does not carry the compressed "
               "bytes with RSV1 set (payload %s, length %s, RSV1 %s): the deflater's history already contains the message" %
               (a_fmt(base) if base else "?", a_fmt(ln) if ln else "?", rsv_ok), pe)
    if nsent < 1:
        raise AnalysisBroken("send_frame: no path from websocket_compress to the writev call")
    # (b) the extension header of the 101 is sent only if the extension was accepted
    sur = P.fn("websocket.c:send_upgrade_response")
    nresp = 0
    for i in sur.all_insts():
        if i.op == "load":
            t = P.term(sur, i.a[0])
            if t[0] == "field" and t[3] == "response" and Q.mentions(t, lambda x: x[0] == "field" and x[3] == "extension_compression"):
                nresp += 1

                def accepted(atom, pol):
                    return atom[0] == "truth" and Q.mentions(atom[1], lambda x: x[0] == "field" and x[3] == "accepted") and pol
                ctx.ob("C19.1 R-GATE", sur, Q.ordinal_site(sur, i, P) + ":response-only-if-accepted", Q.must_pass(P, sur, i.block, accepted),
                       "the extension response string is put into the 101 without the test that the offer was accepted: a declined offer "
                       "leaves a partly written, unterminated response behind")
    if nresp < 1:
        raise AnalysisBroken("send_upgrade_response: use of the extension response not found")
    # (c) windows: the inflater gets the client's window, the deflater the server's
    ac = P.fn("compression.c:alloc_compression")
    seen = {"inflateInit2_": 0, "deflateInit2_": 0}
    for pe in _evals(ctx, P, ac, 1):
        for e in pe.events:
            if e.kind == "call" and e.data["callee"] in seen:
                cn = e.data["callee"]
                seen[cn] += 1
                fld = "client_max_window_bits" if cn == "inflateInit2_" else "server_max_window_bits"
                argi = 1 if cn == "inflateInit2_" else 3
                cur = None
                for k, v in e.mem.items():
                    if isinstance(k, tuple) and k and k[0] == "field" and k[3] == fld:
                        cur = v
                if cur is None:
                    cur = ({("init", next((P.term(ac, x.a[0]) for x in ac.all_insts() if x.op == "load" and P.term(ac, x.a[0])[0] == "field" and
                                           P.term(ac, x.a[0])[3] == fld), None)): 1}, 0)
                A.need("C19.7 R-PAIR", ac, "window:" + cn, pe.equal(a_scale(e.data["args"][argi], -1), cur),
                       "%s() is given window bits %s; the %s must use %s (raw deflate: negated), which is %s here" %
                       (cn, a_fmt(e.data["args"][argi]), "inflater (client to server)" if cn == "inflateInit2_" else "deflater (server to client)",
                        fld, a_fmt(cur)), pe)
    if min(seen.values()) < 1:
        raise AnalysisBroken("alloc_compression: inflateInit2/deflateInit2 calls not found: %s" % seen)
    # (d) context takeover: the deflater ends a message with a FULL flush exactly when server_no_context_takeover was
    #     negotiated, the inflater finishes the stream exactly when client_no_context_takeover was
    for fkey, callee, flag, const_name, argi in (("compression.c:websocket_compress", "deflate", "server_no_context_takeover", "Z_FULL_FLUSH", 1),
                                                 ("compression.c:private_decompress", "inflate", "client_no_context_takeover", "Z_FINISH", 1)):
        g2 = P.fn(fkey)
        want = Q.macro(P, "compression.c", const_name)
        if want is None:
            raise AnalysisBroken("macro %s not found" % const_name)
        nsite = 0
        badv = None
        for v in Q.path_views(ctx, P, g2):
            last = None   # polarity of the most recent test of the flag on the way to the call
            for bi, (b, atom, pol) in enumerate(v.path):
                if atom is not None and atom[0] == "truth" and Q.mentions(atom[1], lambda x: x[0] == "field" and x[3] == flag):
                    last = pol
                for i in g2.blocks[b]:
                    if i.op == "call" and i.callee and P.srcname_of(i.callee) == callee:
                        c = P.const_int(i.a[argi])
                        if c is None:
                            c = P._resolve_const(g2, i.a[argi], v.envs()[bi])
                        nsite += 1
                        if c is None or last is None or (c == want) != last:
                            badv = (v, c)
        A.need("C19.7 R-PAIR", g2, "flush-mode-follows:" + flag, badv is None and nsite > 0,
               "%s() is called with flush mode %s on a path where %s is %s: the peer that was promised (or promised) to drop its "
               "context after every message cannot decode the next one" %
               (callee, badv[1] if badv else "?", flag, "not what selects it"), None)
    A.flush()
    # the streams are created from the FINAL negotiation result: in the negotiation function no window-bits member is written
    # after alloc_compression() on any path (the default 'client did not limit itself: 15' included) - an inflater created before
    # is smaller than what the answer allows the client to use
    fre = P.fn("websocket.c:fill_requested_extension")
    late = None
    nal = 0
    for v in Q.path_views(ctx, P, fre, loop_iters=1):
        seen_alloc = False
        for _, i in v.insts():
            if i.op == "call" and i.callee and P.srcname_of(i.callee) == "alloc_compression":
                seen_alloc = True
                nal += 1
            elif seen_alloc and i.op == "store":
                d = P.term(fre, i.a[1])
                if d[0] == "field" and d[3] in ("client_max_window_bits", "server_max_window_bits"):
                    late = late or (v, i, d[3])
    ctx.ob("C19.7 R-ORDER", fre, "streams-created-from-the-final-windows", late is None and nal > 0,
           ("fill_requested_extension() writes %s at %s after alloc_compression() has created the zlib streams: the stream keeps the "
            "earlier (smaller) window while the peer is told the later one" % (late[2], late[1].loc)) if late else
           "alloc_compression() is the last thing the negotiation does with the windows", witness=late[0].witness() if late else None)
    # the level a connection was constructed with decides, on both sides of every later test, whether frames are (de)compressed:
    # it is written by websocket_init() only (a level reset somewhere else after the extension was announced makes the two
    # directions disagree about RSV1)
    writers = sorted({f.srcname for f in P.own_functions() for i in f.all_insts() if i.op == "store" and
                      P.term(f, i.a[1])[0] == "field" and P.term(f, i.a[1])[3] == "compression_level" and
                      Q.mentions(P.term(f, i.a[1]), lambda x: x[0] == "field" and x[3] == "extension_compression")})
    ctx.ob("C19.7 R-WHO", P.fn("websocket.c:websocket_init"), "compression-level-written-at-construction-only", writers == ["websocket_init"],
           "extension_compression.compression_level is written by %s: after the extension has been announced (accepted, RSV1 expected) a "
           "changed level makes the receive and send paths skip (de)compression while the frames still carry compressed data" % writers)
    # the streams live exactly as long as 'accepted' says: alloc_compression() is called where accepted is set (negotiation,
    # i.e. BEFORE the upgrade completes), so the release in websocket_close() depends on that flag alone - any further
    # condition (upgrade complete, status code) leaks both zlib streams of a connection that ends between the two
    wc = P.fn("websocket.c:websocket_close")
    nfree = 0
    for c in wc.calls("free_compression"):
        nfree += 1
        other = [(a, p) for (a, p) in Q.guards_of(P, wc, c.block)
                 if not Q.mentions(a[1] if a[0] == "truth" else a[2], lambda x: x[0] == "field" and x[3] == "accepted")]
        ctx.ob("C19.4 R-PAIR", wc, Q.ordinal_site(wc, c, P) + ":streams-released-whenever-accepted", not other,
               "websocket_close() releases the zlib streams only under the further condition %s; they were created when the offer was "
               "accepted, before the upgrade was complete" % "; ".join(fmt_atom(a, p) for (a, p) in other[:2]))
    if nfree < 1:
        raise AnalysisBroken("websocket_close: call of free_compression not found")
    # the reassembly buffer: avail_in != 0 is THE marker for 'next_in holds collected fragments' (reassemble(), private_decompress()
    # and the consumers all go by it); whoever frees next_in directly does so under that test and no other (a frame flag, say,
    # is still set while next_in has already been handed on and freed)
    nfr = 0
    nown = 0
    for f in P.own_functions():
        if f.base != "compression.c":
            continue
        # the function that allocates the buffer (stores a malloc/realloc result into next_in) manages it by construction
        owner = any(i.op == "store" and P.term(f, i.a[1])[0] == "field" and P.term(f, i.a[1])[3] == "next_in" and
                    Q.mentions(P.term(f, i.a[0]), lambda y: Q.is_call_to(y, ("malloc", "realloc"))) for i in f.all_insts())
        if owner:
            nown += 1
            continue
        for c in f.calls("free"):
            t = P.term(f, c.a[0])
            if t[0] == "load" and t[1][0] == "field" and t[1][3] == "next_in":
                nfr += 1

                def collecting(atom, pol):
                    x = atom[1] if atom[0] == "truth" else atom[2]
                    if not Q.mentions(x, lambda y: y[0] == "field" and y[3] == "avail_in"):
                        return False
                    if atom[0] == "truth":
                        return bool(pol)
                    return atom[3] == ("const", 0) and ((atom[1] == "ne" and pol) or (atom[1] == "eq" and not pol) or (atom[1] == "ugt" and pol))
                def reassembled(atom, pol):   # behind a successful reassemble(): C19.3 R-GATE 'success implies buffer'
                    return atom[0] == "cmp" and Q.is_call_to(atom[2], "reassemble") and atom[3] == ("const", 0) and \
                        ((atom[1] == "slt" and not pol) or (atom[1] == "sge" and pol) or (atom[1] == "eq" and pol) or (atom[1] == "ne" and not pol))
                ctx.ob("C19.4 R-PAIR", f, Q.ordinal_site(f, c, P) + ":collected-fragments-freed-under-their-marker",
                       Q.must_pass(P, f, c.block, collecting) or Q.must_pass(P, f, c.block, reassembled),
                       "%s() frees strm_decomp.next_in neither under the test avail_in != 0 nor behind a successful reassemble(): next_in is only valid while that marker says a "
                       "message is being collected - under any other condition this frees a stale or foreign pointer" % f.srcname)
    if nown < 1:
        raise AnalysisBroken("compression.c: the function that allocates the reassembly buffer (stores malloc/realloc into next_in) not found")
    # only data frames are compressed (RFC 7692 6.1: control frames are never compressed, RSV1 on them is a protocol error)
    sfw = P.fn("websocket.c:send_frame")
    tparam = [k for k, pr in enumerate(sfw.params) if pr["name"] == "type"]
    ncomp = 0
    for c in sfw.calls("websocket_compress"):
        ncomp += 1
        if not tparam:
            raise AnalysisBroken("send_frame: parameter 'type' not found")
        tt = ("param", tparam[0], "type")
        gs = [(a, p) for (a, p) in Q.guards_of(P, sfw, c.block) if a[0] == "cmp" and a[2] == tt and a[3][0] == "const"]
        slipped = []
        for op in (0x8, 0x9, 0xA):
            excluded = False
            for (a, p) in gs:
                cst = a[3][1]
                holds = {"eq": op == cst, "ne": op != cst, "ult": op < cst, "ule": op <= cst, "ugt": op > cst, "uge": op >= cst,
                         "slt": op < cst, "sle": op <= cst, "sgt": op > cst, "sge": op >= cst}.get(a[1])
                if holds is not None and holds != bool(p):
                    excluded = True
            if not excluded:
                slipped.append(hex(op))
        ctx.ob("C19.7 R-GATE", sfw, Q.ordinal_site(sfw, c, P) + ":only-data-frames-are-compressed", not slipped,
               "send_frame() lets frames of type %s through to websocket_compress(): a control frame (close, ping, pong) is sent with RSV1 "
               "and its bytes go through the deflate context shared with the data messages" % ", ".join(slipped))
    if ncomp < 1:
        raise AnalysisBroken("send_frame: call of websocket_compress not found")
    ctx.floor("C19.7 R-PAIR", 2)
    ctx.floor("C19.3 R-BOUND", 3)
    ctx.floor("C19.3 R-CURSOR", 5)
    ctx.floor("C19.4 R-TYPESTATE", 2)
    ctx.floor("C19.5 R-CURSOR", 2)
    ctx.floor("C19.6 R-BOUND", 3)


def _deflate_worst(L):
    return L + ((L + 7) >> 3) + ((L + 63) >> 6) + 5 + 6


def _local_bounds(A, rule, f, pe, e):
    """stores and copies into a buffer allocated on this path stay inside the allocation"""
    if e.kind == "store":
        k = e.data["cell"]
        if not (isinstance(k, tuple) and k and k[0] == "ptrcell" and k[1] == "mem"):
            return
        addr = ({kk: c for kk, c in k[2][0]}, k[2][1])
        width = ({}, 1)
    elif e.data["callee"] in ("memcpy", "memmove", "memset"):
        addr = e.data["args"][0]
        width = e.data["args"][2]
    else:
        return
    p, off = _ptr_split(addr)
    if p is None or p not in pe.alloc:
        return
    lo = pe.entails(off, upto=e.pos)
    hi = pe.entails(a_add(pe.alloc[p], a_add(off, width), -1), upto=e.pos)
    A.need(rule, f, "local-buffer-writes-inside-allocation", lo and hi,
           "%s bytes are written at offset %s of a buffer allocated with %s bytes" % (a_fmt(width), a_fmt(off), a_fmt(pe.alloc[p])), pe)
