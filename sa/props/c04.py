"""C04 — element namespace: uniqueness gate, owner-only mutation, typing before routing, error => unchanged."""
from ..frontend import AnalysisBroken
from ..core import queries as Q
from ..core.program import fmt_term, fmt_atom

META = {
    "technique": 'static analysis: repository-specific dataflow / guard-dominance / path rules over LLVM IR (CFG, SSA, resolved call graph), plus two tables of the bundled JSON decoder obtained from its IR (comparison constants of the escape decoder; finite evaluation of parse_hex4 over all byte values)',
    "explanation": (
        "(1) R-GATE/R-WHO: the path index has one insertion site and one removal site; the insertion is reachable only through "
        "the edge element_table_get(path) == NULL (directly or as a must-condition of the success class of a helper) for the "
        "same path string that becomes the element's key; "
        "(2) owner-only mutation: in the change handler the stores to element.value and the change event are guarded by "
        "e->peer == p and e->value != NULL; the remove handler reaches remove_element only with an element taken from the "
        "caller's own element list (value provenance) or under an e->peer == p guard; "
        "(3) typing before routing: every path of set_or_call that reaches a routing step carries: element found, not "
        "fetch-only, (STATE => value != NULL) and (METHOD => value == NULL); "
        "(4) R-COMMIT: on no path of add/remove/change/set/call is an error response returned after a commit effect on the "
        "element set (index put/remove, list link/unlink of an indexed element, store to the value of an indexed element); "
        "(5) the dual: a success answer of change/add/remove implies on that path that the value was stored (deep copy of the "
        "request's value) and announced, resp. the element inserted, linked and announced, resp. removed."),
    "not_decided": "behaviour of the index under hash collisions (C17); string comparison semantics; which error code is returned",
    "assumptions": ["cJSON object lookups are not interpreted"],
}

ERR_CTORS = ("create_error_response_from_request", "create_error_response")
OK_CTORS = ("create_success_response_from_request", "create_result_response_from_request", "create_result_response")


def _get_null_gate(path_pred):
    def gate(atom, pol):
        if atom[0] != "cmp":
            return False
        l, r = atom[2], atom[3]
        if Q.is_call_to(l, "element_table_get") and r == ("null",) and path_pred(l[2][0]):
            return (atom[1] == "eq" and pol) or (atom[1] == "ne" and not pol)
        return False
    return gate


def clause1_unique(ctx, P):
    puts = Q.call_sites(P, "element_table_put")
    rems = Q.call_sites(P, "element_table_remove")
    ctx.ob("C04.1 R-WHO", "table", "element_table_put:sites", len(puts) == 1,
           "expected exactly one insertion site into the path index, found %d: %s" % (len(puts), [i.loc for i in puts]))
    ctx.ob("C04.1 R-WHO", "table", "element_table_remove:sites", len(rems) == 1 and rems[0].fn.srcname == "remove_element",
           "expected exactly one removal site (in remove_element), found %s" % [i.loc for i in rems])
    # raw hashtable access outside table.c
    raw = [i for i in Q.call_sites(P, ("hashtable_put_element_table", "hashtable_remove_element_table"))
           if i.fn.base != "table.c"]
    ctx.ob("C04.1 R-WHO", "table", "raw-hashtable", not raw, "path index modified behind table.c: %s" % [i.loc for i in raw])
    for put in puts:
        f = put.fn
        key_t = P.term(f, put.a[0])
        val_t = P.term(f, put.a[1])
        # key must be the element's own path field
        kb = Q.is_field_load(key_t, "struct.element", "path")
        ctx.ob("C04.1 R-PAIR", f, "element_table_put:key", kb is not None and kb == val_t,
               "index key is not the path field of the inserted element (%s vs %s)" % (fmt_term(key_t), fmt_term(val_t)))
        # direct gate?
        direct = Q.must_pass(P, f, put.block, _get_null_gate(lambda t: True))
        via = None
        if not direct:
            # guard through the success class of a helper that received the same element
            for (atom, pol) in Q.guards_of(P, f, put.block):
                if atom[0] != "cmp" or atom[2][0] != "call" or atom[3][0] != "const":
                    continue
                g = P.fn(atom[2][1], required=False) if atom[2][1] in P.by_src and len(P.by_src[atom[2][1]]) == 1 else None
                if g is None or not P.own(g):
                    continue
                if kb is None or kb not in atom[2][2]:
                    continue
                eidx = atom[2][2].index(kb)
                pred = atom[1] if pol else Q.negate_pred(atom[1])
                rp = Q.ret_class_pred(pred, atom[3][1])
                must, npaths = Q.must_atoms(ctx, P, g, lambda v: rp(v) is True)
                # within g: the tested path string must be the one duplicated into e->path
                dup_src = None
                for st in g.all_insts():
                    if st.op == "store":
                        dt = P.term(g, st.a[1])
                        if dt[0] == "field" and dt[2] == "struct.element" and dt[3] == "path" \
                                and dt[1][0] == "param" and dt[1][1] == eidx:
                            vt = P.term(g, st.a[0])
                            if Q.is_call_to(vt, "duplicate_string"):
                                dup_src = vt[2][0]
                gate = _get_null_gate(lambda t: dup_src is not None and t == dup_src)
                if npaths and any(gate(a, p) for (a, p) in must):
                    via = (g, npaths)
        ctx.ob("C04.1 R-GATE", f, Q.ordinal_site(f, put, P), bool(direct or via),
               "insertion into the path index is reachable without element_table_get(<same path>) == NULL (the index silently "
               "overwrites equal keys)" if not (direct or via) else
               ("existence test dominates the insertion" if direct else
                "existence test holds on all %d success path(s) of %s, whose success edge dominates the insertion" % (via[1], via[0].key)))
    ctx.floor("C04.1 R-GATE", 1)


def clause2_owner(ctx, P):
    ch = P.fn("element.c:change_state")
    sites = [s for s in Q.field_stores(P, "struct.element", "value") if s.fn is ch]
    sites += [c for c in ch.calls("notify_fetchers")]
    sites += [c for c in ch.calls("cJSON_Delete") if Q.is_field_load(P.term(ch, c.a[0]), "struct.element", "value") is not None]
    if len(sites) < 3:
        raise AnalysisBroken("change_state: mutation sites not found")
    for s in sites:
        if s.op == "store":
            e_t = P.term(ch, s.a[1])[1]
        elif P.srcname_of(s.callee) == "notify_fetchers":
            e_t = P.term(ch, s.a[0])
        else:
            e_t = Q.is_field_load(P.term(ch, s.a[0]), "struct.element", "value")

        def owner(atom, pol, e_t=e_t):
            if atom[0] != "cmp":
                return False
            l, r = atom[2], atom[3]
            for (x, y) in ((l, r), (r, l)):
                if Q.is_field_load(x, "struct.element", "peer") == e_t and y[0] == "param" and y[1] == 0:
                    return (atom[1] == "eq" and pol) or (atom[1] == "ne" and not pol)
            return False

        def is_state(atom, pol, e_t=e_t):
            if atom[0] != "cmp":
                return False
            if Q.is_field_load(atom[2], "struct.element", "value") == e_t and atom[3] == ("null",):
                return (atom[1] == "ne" and pol) or (atom[1] == "eq" and not pol)
            return False
        for (nm, g) in (("owner", owner), ("state", is_state)):
            ok = Q.must_pass(P, ch, s.block, g)
            w = None
            if not ok:
                pth = Q.witness_to(P, ch, s.block, drop=g)
                w = Q.fmt_witness(P, ch, pth) if pth else None
            ctx.ob("C04.2 R-GATE", ch, "%s:%s" % (Q.ordinal_site(ch, s, P), nm), ok,
                   "change: %s reachable without the %s test on the same element" %
                   (Q.ordinal_site(ch, s, P), "e->peer == p" if nm == "owner" else "e->value != NULL") if not ok else
                   "mutation guarded by %s test" % nm, witness=w)
        ctx.ob("C04.2 R-PAIR", ch, "%s:lookup" % Q.ordinal_site(ch, s, P), Q.is_call_to(e_t, "element_table_get"),
               "mutated element is not the one looked up by the request's path")
    # remove handler
    rm = P.fn("element.c:remove_element_from_peer")
    calls = rm.calls("remove_element")
    ctx.ob("C04.2 R-WHO", rm, "remove_element:sites", len(calls) >= 1, "remove handler no longer removes anything")
    for c in calls:
        lv, flds = Q.leaves(P, rm, c.a[0])
        lvn = [l for l in lv if l != ("null",)]   # "not found" is NULL and is refused before the removal
        from_own_list = bool(lvn) and all(l[0] == "param" and l[1] == 0 for l in lvn) and ("struct.peer", "element_list") in flds
        e_t = P.term(rm, c.a[0])

        def owner(atom, pol):
            if atom[0] != "cmp":
                return False
            for (x, y) in ((atom[2], atom[3]), (atom[3], atom[2])):
                if Q.is_field_load(x, "struct.element", "peer") is not None and y[0] == "param" and y[1] == 0:
                    return (atom[1] == "eq" and pol) or (atom[1] == "ne" and not pol)
            return False
        ok = from_own_list or Q.must_pass(P, rm, c.block, owner)
        ctx.ob("C04.2 R-GATE", rm, Q.ordinal_site(rm, c, P), ok,
               "remove: the removed element neither comes from the caller's own element list nor is guarded by e->peer == p "
               "(provenance: %s)" % sorted(fmt_term(l) for l in lv) if not ok else "removed element belongs to the requester")
        # and it must match the requested path
        def same_path(atom, pol):
            if atom[0] != "cmp" or not Q.is_call_to(atom[2], ("strcmp", "jet_strcmp")) or atom[3] != ("const", 0):
                return False
            return (atom[1] == "eq" and pol) or (atom[1] == "ne" and not pol)
        okpath = Q.must_pass(P, rm, c.block, same_path)
        if not okpath:
            # the search may sit in a helper that returns the found element or NULL: then the removal is guarded by
            # `found != NULL`, and every non-NULL way into that value comes through the path comparison
            for (atom, pol) in Q.guards_of(P, rm, c.block):
                if atom[0] == "cmp" and atom[2][0] == "phi" and atom[3] == ("null",) and not Q._poleq(atom, pol):
                    ph = rm.insts[atom[2][1]]
                    # leaves of the phi, looking through phis that merely forward another phi (a helper's single return block)
                    nn = []
                    work = list(ph.inc)
                    seenp = {ph.id}
                    while work:
                        v, pb = work.pop()
                        sv = P.strip(rm, v)
                        if isinstance(sv, int) and sv >= rm.nparams and rm.insts[sv].op == "phi" and sv not in seenp:
                            seenp.add(sv)
                            work.extend(rm.insts[sv].inc)
                        elif not P.is_null(v):
                            nn.append((v, pb))
                    if nn and all(Q.must_pass(P, rm, pb, same_path) for (v, pb) in nn):
                        okpath = True
        ctx.ob("C04.2 R-GATE", rm, Q.ordinal_site(rm, c, P) + ":path", okpath,
               "remove: element removed without comparing its path with the requested one")
    # who else calls remove_element / stores element.value
    for c in Q.call_sites(P, "remove_element"):
        ctx.ob("C04.2 R-WHO", c.fn, Q.ordinal_site(c.fn, c, P),
               c.fn.key in ("element.c:remove_element_from_peer", "element.c:remove_all_elements_from_peer"),
               "remove_element called from an unexpected function (%s)" % c.loc)
    for s in Q.field_stores(P, "struct.element", "value"):
        ctx.ob("C04.2 R-WHO", s.fn, Q.ordinal_site(s.fn, s, P), s.fn.key in ("element.c:change_state", "element.c:init_element"),
               "element.value written outside init_element/change_state (%s)" % s.loc)
    ctx.floor("C04.2 R-GATE", 8)


def clause3_typing(ctx, P):
    soc = P.fn("element.c:set_or_call")
    STATE, METHOD = Q.enum(P, "STATE"), Q.enum(P, "METHOD")
    views = Q.path_views(ctx, P, soc)
    sites = soc.calls(("alloc_routing_request", "create_routed_message", "setup_routing_information"))
    for i in soc.all_insts():
        if i.op == "call" and not i.callee:
            t = P.term(soc, i.ind)
            if t[0] == "load" and t[1][0] == "field" and t[1][3] == "send_message":
                sites.append(i)
    if len(sites) < 4:
        raise AnalysisBroken("set_or_call: routing sites not found")

    def what(atom, pol, k, want):
        r = Q.const_relation(atom, pol, lambda t: t[0] == "param" and t[1] == 2, k)
        return r is not None and r == want

    def found(atom, pol):
        return atom[0] == "cmp" and Q.is_call_to(atom[2], "element_table_get") and atom[3] == ("null",) and \
            ((atom[1] == "ne" and pol) or (atom[1] == "eq" and not pol))

    def not_fetch_only(atom, pol):
        t = atom[1] if atom[0] == "truth" else None
        return t is not None and Q.is_call_to(t, "element_is_fetch_only") and Q.is_call_to(t[2][0], "element_table_get") and not pol

    def value_null(atom, pol, want_null):
        if atom[0] == "cmp" and atom[3] == ("null",):
            b = Q.is_field_load(atom[2], "struct.element", "value")
            if b is not None and Q.is_call_to(b, "element_table_get"):
                isnull = (atom[1] == "eq" and pol) or (atom[1] == "ne" and not pol)
                return isnull == want_null
        return False
    for s in sites:
        bad = None
        why = ""
        n = 0
        for v in views:
            if s.block not in v.blocks:
                continue
            n += 1
            upto = v.blocks.index(s.block)
            atoms = [(a, p) for (b, a, p) in v.path[:upto + 1] if a is not None]
            c_found = any(found(a, p) for a, p in atoms)
            c_nfo = any(not_fetch_only(a, p) for a, p in atoms)
            st = any(what(a, p, STATE, True) for a, p in atoms)
            me = any(what(a, p, METHOD, True) for a, p in atoms)
            nst = any(what(a, p, STATE, False) for a, p in atoms)
            nme = any(what(a, p, METHOD, False) for a, p in atoms)
            typ = (st and any(value_null(a, p, False) for a, p in atoms)) or \
                  (me and any(value_null(a, p, True) for a, p in atoms)) or (nst and nme)
            if not (c_found and c_nfo and typ):
                bad = v
                why = "found=%s not_fetch_only=%s typing=%s" % (c_found, c_nfo, typ)
                break
        ctx.ob("C04.3 R-GATE", soc, Q.ordinal_site(soc, s, P), bad is None and n > 0,
               "routing step reachable on a path lacking: element found / not fetch-only / kind matches (state has value, method "
               "has none) [%s]" % why if bad is not None else "typing and existence conditions hold on %d path(s)" % n,
               witness=bad.witness() if bad is not None else None)
    ctx.floor("C04.3 R-GATE", 4)


def clause4_commit(ctx, P, cg):
    commit_prims = {"element_table_put", "element_table_remove", "hashtable_put_element_table",
                    "hashtable_remove_element_table"}
    outset = Q.make_outset(ctx, P, cg)
    handlers = ["element.c:add_element_to_peer", "element.c:remove_element_from_peer", "element.c:change_state",
                "element.c:set_or_call"]
    for hk in handlers:
        h = P.fn(hk)
        views = Q.path_views(ctx, P, h)
        nviol = 0
        nerr = 0
        for v in views:
            rt = Q.ret_value_term(v, outset)
            if rt is None:
                continue
            is_ok = Q.is_call_to(rt, OK_CTORS) or rt == ("null",)
            if is_ok:
                continue
            nerr += 1
            commits = []
            insts = list(v.insts())
            for idx, (k, i) in enumerate(insts):
                if i.op == "call" and i.callee:
                    name = P.srcname_of(i.callee)
                    g = P.functions.get(i.callee)
                    prim = name in commit_prims or (g is not None and P.own(g) and cg.may_call(g, commit_prims))
                    if prim:
                        # a put whose failure edge is taken on this path did not commit
                        failed = False
                        if name == "element_table_put":
                            for (a, p) in v.atoms:
                                if a[0] == "cmp" and a[2][0] == "call" and a[2][3] == i.id:
                                    succ_const = Q.macro(P, "element.c", "HASHTABLE_SUCCESS")
                                    eq = (a[1] == "eq" and p) or (a[1] == "ne" and not p)
                                    if a[3] == ("const", succ_const) and not eq:
                                        failed = True
                        if not failed:
                            commits.append(i)
                elif i.op == "store":
                    dt = P.term(h, i.a[1])
                    if dt[0] == "field" and dt[2] == "struct.element" and dt[3] == "value" \
                            and Q.is_call_to(dt[1], "element_table_get"):
                        commits.append(i)
            if commits:
                nviol += 1
                c0 = commits[0]
                ctx.ob("C04.4 R-COMMIT", h, "error-after:" + Q.ordinal_site(h, c0, P), False,
                       "an error response (%s) is returned on a path that has already changed the element set/value at %s"
                       % (fmt_term(rt)[:80], c0.loc), witness=v.witness())
        ctx.ob("C04.4 R-COMMIT", h, "error-paths", True,
               "%d error-outcome path(s) examined, %d commit-then-error" % (nerr, nviol), detail={"paths": len(views)})
    ctx.floor("C04.4 R-COMMIT", 4)


def clause5_success_effect(ctx, P, cg):
    """dual of error => unchanged: a success answer of add/remove/change implies that the effect happened on that path"""
    SUCC = Q.macro(P, "element.c", "HASHTABLE_SUCCESS")
    outset = Q.make_outset(ctx, P, cg)
    ch = P.fn("element.c:change_state")
    bad = None
    n = 0
    for v in Q.path_views(ctx, P, ch):
        rt = Q.ret_value_term(v, outset)
        if not Q.is_call_to(rt, "create_success_response_from_request"):
            continue
        n += 1
        stored = False
        for _, i in v.insts():
            if i.op == "store":
                dt = P.term(ch, i.a[1])
                vt = P.term(ch, i.a[0])
                if dt[0] == "field" and dt[2] == "struct.element" and dt[3] == "value" and Q.is_call_to(vt, "cJSON_Duplicate") and \
                        Q.is_call_to(vt[2][0], "cJSON_GetObjectItem") and vt[2][0][2][1] == ("str", "value") and vt[2][1] == ("const", 1):
                    stored = True
        notified = any(Q.arg_literal(P, i, 1) == "change" for _, i in v.calls("notify_fetchers"))
        if not (stored and notified):
            bad = (v, "stored=%s notified=%s" % (stored, notified))
    ctx.ob("C04.5 R-COMMIT", ch, "success=>value-stored-and-announced", bad is None and n > 0,
           "change is answered with success on a path that did not store a deep copy of the request's value and announce it (%s): "
           "subscribers keep replaying the old value" % (bad[1] if bad else ""), witness=bad[0].witness() if bad else None)
    add = P.fn("element.c:add_element_to_peer")
    bad = None
    n = 0
    for v in Q.path_views(ctx, P, add):
        rt = Q.ret_value_term(v, outset)
        if not Q.is_call_to(rt, "create_success_response_from_request"):
            continue
        n += 1
        put = v.has_atom(lambda a, p: a[0] == "cmp" and Q.is_call_to(a[2], "element_table_put") and a[3] == ("const", SUCC) and Q._poleq(a, p))
        linked = any(True for _ in v.calls("list_add_tail"))
        ann = any(True for _ in v.calls("find_fetchers_for_element"))
        if not (put and linked and ann):
            bad = (v, "inserted=%s linked=%s announced=%s" % (put, linked, ann))
    ctx.ob("C04.5 R-COMMIT", add, "success=>inserted-linked-announced", bad is None and n > 0,
           "add is answered with success although the element was not inserted, linked to its owner and announced (%s)" % (bad[1] if bad else ""),
           witness=bad[0].witness() if bad else None)
    rm = P.fn("element.c:remove_element_from_peer")
    bad = None
    n = 0
    for v in Q.path_views(ctx, P, rm):
        rt = Q.ret_value_term(v, outset)
        if not Q.is_call_to(rt, "create_success_response_from_request"):
            continue
        n += 1
        if not any(True for _ in v.calls("remove_element")):
            bad = v
    ctx.ob("C04.5 R-COMMIT", rm, "success=>removed", bad is None and n > 0, "remove is answered with success without removing the element",
           witness=bad.witness() if bad else None)
    re = P.fn("element.c:remove_element")
    # on EVERY path: announce, unlink, un-index, free - in this order (other calls, logging say, and the form of the code do not matter)
    WANT = ["notify_fetchers", "list_del", "element_table_remove", "free_element"]
    badp = None
    names = []
    for v in Q.path_views(ctx, P, re):
        names = [P.srcname_of(i.callee) for _, i in v.calls() if i.callee and P.srcname_of(i.callee) in WANT]
        if names != WANT:
            badp = (v, names)
    ctx.ob("C04.5 R-COMMIT", re, "remove-is-complete", badp is None and bool(names),
           "remove_element is not, on every path, the sequence announce, unlink, un-index, free (found %s)" % (badp[1] if badp else names),
           witness=badp[0].witness() if badp else None)


def clause7_kind(ctx, P):
    """an element is a state iff its add request carried a value member - whatever JSON type that value has (null included):
    the store of e->value in init_element is guarded by 'value member present' and allocation successes only"""
    ie = P.fn("element.c:init_element")
    sts = [i for i in ie.all_insts() if i.op == "store" and P.term(ie, i.a[1])[0] == "field" and P.term(ie, i.a[1])[2] == "struct.element"
           and P.term(ie, i.a[1])[3] == "value" and not P.is_null(i.a[0])]
    if not sts:
        raise AnalysisBroken("init_element: store of the element's value not found")
    for st in sts:
        typed = [a for (a, p) in Q.guards_of(P, ie, st.block)
                 if Q.mentions(a, lambda x: x[0] == "field" and x[2] == "struct.cJSON" and x[3] in ("type", "valueint", "valuedouble", "valuestring"))
                 and Q.mentions(a, lambda x: Q.is_call_to(x, "cJSON_GetObjectItem") and x[2][1] == ("str", "value"))]
        ctx.ob("C04.3 R-GATE", ie, Q.ordinal_site(ie, st, P) + ":state-iff-value-given", not typed,
               "whether an added element becomes a state depends on the TYPE or content of its initial value (%s): an element added with "
               "such a value is registered as a method - call is routed to it, set and change are refused" %
               "; ".join(fmt_atom(a, True) for a in typed[:2]))


def clause7b_value_copy_checked(ctx, P):
    """... and a state whose value could not be copied is not added at all: wherever init_element() stores a copy (the result of a
    duplicating call) into e->value, every path from there to a success return has found THAT result non-NULL - a test of something
    else (the request's own value) lets an add succeed with e->value == NULL, i.e. as a method"""
    ie = P.fn("element.c:init_element")
    bad = None
    n = 0
    for v in Q.path_views(ctx, P, ie):
        if v.ret_const() != 0:
            continue
        for _, i in v.insts():
            if i.op != "store":
                continue
            d = P.term(ie, i.a[1])
            if not (d[0] == "field" and d[2] == "struct.element" and d[3] == "value"):
                continue
            val = v.resolve(i.a[0])
            vt = P.term(ie, val) if not P.is_null(val) else None
            if vt is None or vt[0] != "call":
                continue
            n += 1
            tested = v.has_atom(lambda a, p: a[0] == "cmp" and a[3] == ("null",) and not Q._poleq(a, p) and
                                (a[2] == vt or a[2] == ("load", d)))
            if not tested:
                bad = (v, i, vt)
    ctx.ob("C04.3 R-NULL", ie, "value-copy-is-checked", bad is None and n > 0,
           ("init_element() stores the result of %s() into e->value at %s and returns success on a path that never found that result "
            "non-NULL: when the copy fails the element is added without a value - a state registered as a method" %
            (bad[2][1], bad[1].loc)) if bad else "the stored copy is null-tested on every success path", witness=bad[0].witness() if bad else None)


def clause9b_success_is_success(ctx, P, cg):
    """add, change and remove answer with create_success_response_from_request() AFTER the mutation: that constructor builds a
    success answer or none - it never falls back to an error answer, which would report a failure for a request that took effect"""
    f = P.fn("response.c:create_success_response_from_request")
    errs = sorted({P.srcname_of(x) for x in cg.reach(f.name)} & {"create_error_response", "create_error_response_from_request", "create_error_object"})
    ctx.ob("C04.4 R-WHO", f, "success-constructor-builds-no-error", not errs,
           "create_success_response_from_request() can build an error answer (%s): it is called after the element table has been changed, "
           "so a request that took effect is answered with an error" % ", ".join(errs))


def clause6_wrappers(ctx, P):
    """the three accessors of the path index agree on the key domain: each consults the table on every path with the key it
    was given (a lookup that answers 'absent' without looking lets a second element take a path that put() accepted)"""
    for wname, cname in (("element_table_get", "hashtable_get_element_table"), ("element_table_put", "hashtable_put_element_table"),
                         ("element_table_remove", "hashtable_remove_element_table")):
        w = P.fn("table.c:" + wname)
        bad = None
        n = 0
        for v in Q.path_views(ctx, P, w):
            n += 1
            cs = [i for _, i in v.calls(cname)]
            if not cs or P.term(w, cs[0].a[1]) != ("param", 0, w.params[0]["name"]):
                bad = v
        ctx.ob("C04.1 R-SIB", w, "consults-the-table-on-every-path", bad is None and n > 0,
               "%s has a path that does not pass its key to %s: the accessors of the path index disagree about which paths exist"
               % (wname, cname), witness=bad.witness() if bad else None)


def clause8_key_copy(ctx, P):
    """the existence test of add looks the path up as sent, the table then keeps duplicate_string(path): 'at most one element per
    path' needs the stored key to be the WHOLE path.  duplicate_string() measures with strlen(), allocates that + 1 and copies
    that much - no cap, no other terminator"""
    f = P.fn("jet_string.c:duplicate_string")
    s0 = ("param", 0, f.params[0]["name"])
    calls = [c for c in f.all_insts() if c.op == "call" and c.callee and not P.srcname_of(c.callee).startswith("llvm.")]
    names = [P.srcname_of(c.callee) for c in calls]
    whole = None
    for c in calls:
        if P.srcname_of(c.callee) == "strlen" and P.term(f, c.a[0]) == s0:
            whole = ("op", "add", (P.term(f, c.id), ("const", 1)))
    ok = whole is not None
    why = "the length is not strlen(s)"
    if ok:
        al = [c for c in calls if P.srcname_of(c.callee) in ("cjet_malloc", "cjet_calloc", "malloc")]
        ok = len(al) == 1 and whole in [P.term(f, a) for a in al[0].a]
        why = "the allocation is not strlen(s) + 1 bytes"
    if ok:
        cp = [c for c in calls if P.srcname_of(c.callee) in ("strncpy", "memcpy", "strcpy", "llvm.memcpy")]
        cp = cp or [c for c in f.all_insts() if c.op == "call" and c.callee and P.srcname_of(c.callee).startswith("llvm.memcpy")]
        ok = len(cp) == 1 and P.term(f, cp[0].a[1]) == s0 and (P.srcname_of(cp[0].callee) == "strcpy" or P.term(f, cp[0].a[2]) == whole)
        why = "the copy does not take strlen(s) + 1 bytes from s"
    if ok:
        extra = [n for n in names if n in ("memchr", "strnlen", "strchr", "strncat")]
        ok = not extra
        why = "the string is also scanned with %s" % ", ".join(extra)
    ctx.ob("C04.1 R-PAIR", f, "stored-key-is-the-whole-path", ok,
           "duplicate_string() is not a whole copy of its argument (%s): a long path is stored under a shortened key while add's "
           "existence test used the full one - the same path can be added twice and the owner's change finds nothing" % why)


def clause9_no_embedded_nul(ctx, P):
    """paths (and every other string) are C strings inside the daemon: hash, strcmp and duplicate_string stop at the first 0 byte.  So
    the string decoder of the bundled cJSON must never store a 0 byte inside a string - one way in is the escape \\u0000, which
    utf16_literal_to_utf8() therefore refuses on every path that reports success (otherwise "x", "x\\u0000one" and "x\\u0000two" name
    one element: a free path is refused as existing, requests on unknown paths succeed)"""
    f = P.fn("cJSON.c:utf16_literal_to_utf8")
    bad = None
    n = 0
    for v in Q.path_views(ctx, P, f, loop_iters=1):
        rc = v.ret_const()
        if rc == 0:
            continue
        n += 1
        nonzero = v.has_atom(lambda a, p: a[0] == "cmp" and a[3] == ("const", 0) and
                             (Q.is_call_to(a[2], "parse_hex4") or a[2][0] == "phi" or (a[2][0] == "op" and Q.mentions(a[2], lambda x: Q.is_call_to(x, "parse_hex4")))) and
                             ((a[1] == "ne" and p) or (a[1] == "eq" and not p) or (a[1] in ("ugt", "sgt") and p)))
        if not nonzero:
            bad = v
    ctx.ob("C04.1 R-GATE", f, "no-zero-byte-inside-a-string", bad is None and n > 0,
           "utf16_literal_to_utf8() accepts the code point 0 (\\u0000) and stores a 0 byte in the middle of the decoded string: the rest of "
           "a path is invisible to the element table, so different paths name one element", witness=bad.witness() if bad else None)

    # ... the other way in: messages are length-delimited, so a RAW 0 byte can stand between the quotes.  On every successful path of
    # No input byte is copied as it is without a test against 0 (in the copy loop or in the scan over the same bytes before it).
    ps = P.fn("cJSON.c:parse_string")

    def nonzero_test(a, p):
        return a[0] == "cmp" and a[3] == ("const", 0) and a[2][0] == "load" and Q.mentions(a[2][1], lambda x: x[0] == "phi") and \
            ((a[1] == "ne" and p) or (a[1] == "eq" and not p) or (a[1] in ("ugt", "sgt") and p))
    plain = [i for i in ps.all_insts() if i.op == "store" and P.term(ps, i.a[0])[0] == "load" and
             Q.mentions(P.term(ps, i.a[0])[1], lambda x: x[0] == "phi")]
    nr = len(plain)
    # either every plain copy is itself behind a test of a byte against 0, or the scan that runs over the same bytes before
    # (a loop without such a copy, whose exit test looks at the byte under a cursor) cannot go round without one
    in_copy = bool(plain) and all(Q.must_pass(P, ps, i.block, nonzero_test) for i in plain)
    scans = []
    for h, body in ps.loops().items():
        if any(i.block in body for i in plain):
            continue
        looks = any(a is not None and a[0] == "cmp" and a[2][0] == "load" and Q.mentions(a[2][1], lambda x: x[0] == "phi")
                    for b in body for (sv, a, pl) in P.edge_conds(ps, b))
        if looks:
            scans.append((h, body))
    in_scan = bool(scans) and all(Q.must_pass(P, ps, b, nonzero_test) for (h, body) in scans for b in body
                                  if h in ps.succs[b] and b != h)
    badr = None if (in_copy or in_scan) else True
    ctx.ob("C04.1 R-GATE", ps, "no-raw-zero-byte-inside-a-string", badr is None and nr > 0,
           "parse_string() copies input bytes into the decoded string on a path that never tests a byte against 0: a raw 0 byte inside "
           "a length-delimited message ends the C string early, the rest of a path is invisible to the element table "
           "(\"x<NUL>one\" is refused as existing, remove \"x<NUL>two\" deletes x)")


UTF8_THRESHOLDS = {0x80: "1/2 bytes", 0x800: "2/3 bytes", 0x10000: "3/4 bytes", 0x110000: "end of Unicode",
                   0xD800: "first high surrogate", 0xDC00: "first low surrogate", 0xE000: "behind the surrogates"}


def clause9b_utf8_boundaries(ctx, P):
    """escaped characters are re-encoded as UTF-8 by the bundled utf16_literal_to_utf8(): every comparison of a code unit / code point
    with a constant in that function, normalised to 'the first value on the other side' (x < c and x >= c: c; x <= c and x > c: c + 1),
    names one of the boundaries of UTF-8 / UTF-16 (RFC 3629, RFC 2781) - and each length boundary occurs.  A boundary that is off by
    one (U+0800 as two bytes, E0 80) makes ids, paths and values written with an escape differ from the same text written raw"""
    f = P.fn("cJSON.c:utf16_literal_to_utf8")
    seen = {}
    bad = None
    for b in range(f.nblocks):
        for (sv, atom, pol) in P.edge_conds(f, b):
            if atom is None or atom[0] != "cmp" or atom[3][0] != "const" or atom[1] not in ("ult", "ule", "ugt", "uge", "slt", "sle", "sgt", "sge"):
                continue
            c = atom[3][1]
            if c < 0x7F:
                continue
            th = c if atom[1][1:] in ("lt", "ge") else c + 1
            seen[th] = atom
            if th not in UTF8_THRESHOLDS and bad is None:
                bad = (atom, th)
    missing = [hex(t) for t in (0x80, 0x800, 0x10000) if t not in seen]
    ctx.ob("C04.1 R-TABLE", f, "utf8-length-boundaries", bad is None and not missing,
           ("utf16_literal_to_utf8() separates code points at %s (%s), which is no boundary of UTF-8/UTF-16: the character at the boundary "
            "is encoded with the wrong length, so the same id or path written with an escape and written raw are different strings" %
            (hex(bad[1]), fmt_atom(bad[0], True))) if bad else
           ("length boundaries not found: %s" % missing if missing else "boundaries: %s" % sorted(hex(t) for t in seen)))


def clause9c_hex_digits(ctx, P):
    """the four hex digits of an escape are read by parse_hex4(): evaluated as a table (finite evaluation of the function's IR on the
    inputs "000c" for all 256 bytes c, and on one four-digit number) it gives the digit value for 0-9, A-F, a-f and 0 otherwise"""
    from ..core.feval import FEval
    f = P.fn("cJSON.c:parse_hex4")
    ev = FEval(P, f, None, ptr_param=None)
    bad = []
    try:
        for c in range(256):
            r, _ = ev.run({}, {}, arrays={0: bytes([0x30, 0x30, 0x30, c])})
            ch = chr(c)
            want = int(ch, 16) if ch in "0123456789abcdefABCDEF" else 0
            if (r & 0xFFFFFFFF) != want:
                bad.append("%r -> %d" % (ch, r & 0xFFFFFFFF))
        r, _ = ev.run({}, {}, arrays={0: b"bEeF"})
        if (r & 0xFFFFFFFF) != 0xBEEF:
            bad.append("'bEeF' -> %#x" % (r & 0xFFFFFFFF))
    except AnalysisBroken as e:
        ctx.broken("parse_hex4 cannot be evaluated as a table: %s" % e)
        return
    ctx.ob("C04.1 R-TABLE", f, "hex-digit-table", not bad,
           "parse_hex4() gives a wrong value for %s: a path (id, value) written with the escape \\uXXXX decodes to a different character "
           "than the same text written raw - one path becomes two, or a free path is taken for another one" % ", ".join(bad[:6]))


def run(ctx):
    for cfg in ctx.configs():
        clause9b_utf8_boundaries(ctx, cfg.P)
        clause9c_hex_digits(ctx, cfg.P)
        clause6_wrappers(ctx, cfg.P)
        clause7_kind(ctx, cfg.P)
        clause1_unique(ctx, cfg.P)
        clause2_owner(ctx, cfg.P)
        clause3_typing(ctx, cfg.P)
        clause4_commit(ctx, cfg.P, cfg.cg)
        clause5_success_effect(ctx, cfg.P, cfg.cg)
        clause8_key_copy(ctx, cfg.P)
        clause9_no_embedded_nul(ctx, cfg.P)
        clause7b_value_copy_checked(ctx, cfg.P)
        clause9b_success_is_success(ctx, cfg.P, cfg.cg)
