"""C17 — hopscotch tables: index and mutation discipline (narrow)."""
from ..frontend import AnalysisBroken
from ..core import queries as Q
from ..core.program import fmt_term, fmt_atom, CAST_OPS

META = {
    "explanation": (
        "For both instantiations (element_table, route_table), in every analysed configuration of the table orders: "
        "(1) R-BOUND: every subscript of the slot array is the result of the instantiation's hash function (which ends in a "
        "logical right shift by 32 - order, with 2^order == table size), a result of wrap_pos (pos & (size - 1), size a power of "
        "two), a counted induction variable bounded by the table size, a parameter whose every call site passes such a value, or "
        "the result of the displacement search used only under the != 0xffffffff guard - this covers probing across the end; "
        "(2) mutation discipline: removal's success path stores the invalid-key marker, clears the value and clears exactly the "
        "bit wrap(pos - home) in the HOME bucket's hop word; insertion writes key, value and sets bit <distance> in the home "
        "bucket only after the duplicate scan, refuses the invalid key; displacement copies exactly key and value into the freed "
        "slot and rewrites only the checked bucket's hop word; an insertion that gives up after displacing marks the slot it "
        "vacated free again (a refused insertion leaves no stale key behind); lookup performs no store through the table; "
        "(3) sweep safety: code outside hashtable.h that walks slots by index only calls remove on that table inside the walk "
        "and passes the key read from the slot."),
    "not_decided": "that the tables are exact finite maps (displacement correctness, refusal condition, collisions): functional "
                   "correctness of the algorithm over all histories needs execution or proof",
    "assumptions": [],
}

SENTINEL = 0xffffffff


class Inst:
    def __init__(self, P, name):
        self.P = P
        self.name = name

        def fn(src):
            l = [f for f in P.by_src.get(src, [])]
            if len(l) != 1:
                raise AnalysisBroken("hashtable function %s: %d definitions" % (src, len(l)))
            return l[0]
        self.get = fn("hashtable_get_" + name) if P.by_src.get("hashtable_get_" + name) else None
        self.put = fn("hashtable_put_" + name)
        self.remove = fn("hashtable_remove_" + name)
        self.closer = fn("find_closer_entry_" + name)
        self.create = fn("hashtable_create_" + name)
        self.wrap = fn("wrap_pos" + name)
        self.hash = fn("hash_func_" + name + "_string")
        order_enum = {"element_table": "CONFIG_ELEMENT_TABLE_ORDER", "route_table": "CONFIG_ROUTING_TABLE_ORDER"}[name]
        self.order = Q.enum(P, order_enum)
        self.size = 1 << self.order
        self.members = [x for x in (self.get, self.put, self.remove, self.closer, self.create) if x is not None]


def _check_primitives(ctx, P, T):
    size = T.size
    pow2 = size is not None and size > 0 and (size & (size - 1)) == 0
    ctx.ob("C17.1 R-BOUND", T.wrap, "table-size-power-of-two", pow2, "table size %s is not a power of two" % size)
    # wrap_pos: and(param0, sub(load size, 1))
    ok = False
    for v in Q.path_views(ctx, P, T.wrap):
        t = P.term(T.wrap, v.ret_operand())
        ok = t == ("op", "and", (("param", 0, T.wrap.params[0]["name"]), ("const", size - 1)))
    ctx.ob("C17.1 R-BOUND", T.wrap, "wrap-is-mask", ok, "wrap_pos is not pos & (table_size - 1)")
    # hash: returns hs_hash32(x, order) with 2^order == size; hs_hash32 returns lshr(_, 32 - order)
    okh = False
    for v in Q.path_views(ctx, P, T.hash):
        t = P.term(T.hash, v.ret_operand())
        if Q.is_call_to(t, "hs_hash32") and t[2][1][0] == "const" and (1 << t[2][1][1]) == size:
            okh = True
    ctx.ob("C17.1 R-BOUND", T.hash, "hash-order-matches-size", okh, "hash function is not hs_hash32(h, order) with 2^order == table size")
    # the hash is a function of the key's characters only: the byte at key[k] (k > 0) is read only after key[k-1] was read on the
    # same path and found different from 0 - a loop that reads one byte past the terminator hashes what happens to follow the key
    from ..core.pathmem import PathEval, a_key
    kp = ("param", 0, T.hash.params[0]["name"])
    badl = None
    nld = 0
    for v in Q.path_views(ctx, P, T.hash):
        pe = PathEval(P, T.hash, v, watch_ops=("ld",))
        if pe.infeasible:
            continue
        seen = {}
        for e in pe.events:
            if e.kind != "ld":
                continue
            ad = e.data["addr"]
            if set(ad[0]) != {kp} or ad[0][kp] != 1:
                continue
            k = ad[1]
            nld += 1
            if k > 0 and badl is None:
                prevv = seen.get(k - 1)
                ok_ = prevv is not None and any(kind == "ne0" and pos_ < e.pos and a_key(d) in (a_key(prevv), a_key(({l: -c for l, c in prevv[0].items()}, -prevv[1])))
                                                for (pos_, kind, d) in pe.facts)
                if not ok_:
                    badl = (v, e.inst, k)
            seen[k] = e.data["value"]
    ctx.ob("C17.1 R-BOUND", T.hash, "hash-reads-no-byte-behind-the-terminator", badl is None and nld >= 2,
           ("%s reads key[%d] at %s on a path that has not found key[%d] different from 0: for the key that ends there (the empty "
            "string) the hash depends on the bytes behind the terminator, and equal keys in different buffers hash differently" %
            (T.hash.srcname, badl[2], badl[1].loc, badl[2] - 1)) if badl else "%d key byte loads, each behind a test of the previous byte" % nld,
           witness=badl[0].witness() if badl else None)
    hs = P.fn("hs_hash32") if len(P.by_src.get("hs_hash32", [])) == 1 else P.by_src["hs_hash32"][0]
    oks = False
    for v in Q.path_views(ctx, P, hs):
        t = P.term(hs, v.ret_operand())
        if t[0] == "op" and t[1] == "lshr" and t[2][1] == ("op", "sub", (("const", 32), ("param", 1, hs.params[1]["name"]))):
            oks = True
    ctx.ob("C17.1 R-BOUND", hs, "hash-ends-in-shift", oks, "hs_hash32 does not end in a logical right shift by 32 - order")


def bounded(P, T, f, o, seen=None, need_guard=None):
    """is the integer operand a valid slot index (< table size) by construction?"""
    seen = seen if seen is not None else set()
    o = P.strip(f, o)
    if isinstance(o, list):
        c = P.const_int(o)
        return c is not None and 0 <= c < T.size
    if (f.name, o) in seen:
        return True
    seen.add((f.name, o))
    if o < f.nparams:
        cs = P.callers_of(f)
        return bool(cs) and all(bounded(P, T, c.fn, c.a[o], seen) for c in cs)
    i = f.insts[o]
    if i.op == "call" and i.callee:
        n = P.srcname_of(i.callee)
        if n in (T.wrap.srcname, T.hash.srcname, "hs_hash32"):
            return True
        return False
    if i.op == "phi":
        for (v, pb) in i.inc:
            vv = P.strip(f, v)
            if isinstance(vv, int) and vv >= f.nparams and f.insts[vv].op == "call" and f.insts[vv].callee and \
                    P.srcname_of(f.insts[vv].callee) == T.closer.srcname:
                # displacement search result: only under the != sentinel guard on this incoming edge
                t = f.term_inst(pb)
                ok = False
                if t.op == "br" and t.a:
                    c = P.cond(f, t.a[0])
                    if c[0] != "const" and c[0][0] == "cmp" and c[0][1] == "ne" and c[0][3] == ("const", -1) and c[1] \
                            and t.succ[0] == i.block:
                        ok = True
                if not ok:
                    return False
                continue
            if not bounded(P, T, f, v, seen):
                return False
        return True
    if i.op == "load":
        # address-taken local? not expected
        return False
    return False


def sentinel_guarded(P, T, f, o, use_block):
    """phi over {bounded values, 0xffffffff} used only under a dominating `!= 0xffffffff` test"""
    o = P.strip(f, o)
    if not isinstance(o, int) or o < f.nparams or f.insts[o].op != "phi":
        return False
    ph = f.insts[o]
    for (v, pb) in ph.inc:
        if P.const_int(v) in (-1, SENTINEL):
            continue
        if not bounded(P, T, f, v, {(f.name, o)}):
            return False

    def guard(atom, pol):
        return atom[0] == "cmp" and atom[2] == ("phi", o) and atom[3] == ("const", -1) and not Q._poleq(atom, pol)
    return Q.must_pass(P, f, use_block, guard)


def counted(P, T, f, o):
    """induction variable of a loop whose header tests it < table size"""
    o = P.strip(f, o)
    if not isinstance(o, int) or o < f.nparams or f.insts[o].op != "phi":
        return False
    ph = f.insts[o]
    hdr = ph.block
    t = f.term_inst(hdr)
    if t.op != "br" or not t.a:
        return False
    c = P.cond(f, t.a[0])
    if c[0] == "const":
        return False
    atom, pol = c
    if atom[0] != "cmp" or atom[1] != "ult":
        return False
    lhs_ok = Q.mentions(atom[2], lambda x: x == ("phi", o))
    rhs = atom[3]
    rhs_ok = rhs == ("const", T.size)
    inits = [P.const_int(v) for v, _ in ph.inc]
    return lhs_ok and rhs_ok and 0 in inits


def clause1_bounds(ctx, P, T, extra_fns):
    _check_primitives(ctx, P, T)
    n = 0
    for f in T.members + extra_fns:
        for i in f.all_insts():
            if i.op != "getelementptr" or i.st != "%struct.hashtable_string" or not i.path:
                continue
            idx = i.path[0][1]
            if P.const_int(idx) == 0 and len(i.path) > 1:
                continue  # field access of an already indexed slot
            base = P.term(f, i.a[0])
            n += 1
            ok = bounded(P, T, f, idx) or counted(P, T, f, idx) or sentinel_guarded(P, T, f, idx, i.block)
            ctx.ob("C17.1 R-BOUND", f, "subscript:" + _site(f, i), ok,
                   "slot array subscript %s is not a hash result, a wrap_pos result, a guarded displacement result or a counted "
                   "index below the table size (probing across the end of the table would leave the array)" % fmt_term(P.term(f, idx))
                   if not ok else "subscript bounded by construction")
    return n


def _site(f, inst):
    k = 0
    for j in f.all_insts():
        if j.op == "getelementptr" and j.st == "%struct.hashtable_string":
            k += 1
            if j.id == inst.id:
                return "gep#%d" % k
    return "gep"


def _slot_field_store(P, f, i):
    """(index term, field name) when store destination is table[idx].field (possibly nested)"""
    t = P.term(f, i.a[1])
    fld = None
    x = t
    while x[0] == "field":
        if x[2] == "struct.hashtable_string":
            fld = x[3]
        x = x[1]
    if fld and x[0] == "index":
        return (x[2], fld)
    return None


def clause2_mutation(ctx, P, T):
    SUCC = Q.macro(P, "router.c", "HASHTABLE_SUCCESS")
    rm = T.remove
    bad = None
    nsucc = 0
    for v in Q.path_views(ctx, P, rm):
        if v.ret_const() != SUCC:
            continue
        nsucc += 1
        key_marked = val_cleared = hop_cleared = False
        for _, i in v.insts():
            if i.op == "store":
                sf = _slot_field_store(P, rm, i)
                if sf and sf[1] == "key":
                    vt = P.term(rm, i.a[0])
                    key_marked = vt == ("const", -1)
                if sf and sf[1] == "hop_info":
                    vt = P.term(rm, i.a[0])
                    home = Q.is_call_to(sf[0] if sf[0][0] != "op" else sf[0][2][0], T.hash.srcname) or \
                        Q.mentions(sf[0], lambda x: Q.is_call_to(x, T.hash.srcname))
                    # and(orig, xor(shl(1, wrap(pos - hash)), -1))
                    shape_ok = vt[0] == "op" and vt[1] == "and" and Q.mentions(vt, lambda x: x[0] == "op" and x[1] == "xor") and \
                        Q.mentions(vt, lambda x: x[0] == "op" and x[1] == "shl" and x[2][0] == ("const", 1) and
                                   Q.mentions(x[2][1], lambda y: Q.is_call_to(y, T.wrap.srcname) and y[2][0][0] == "op" and y[2][0][1] == "sub"))
                    # ... and the word the bit is cleared in is the bucket's word as read from the table, not the copy the scan
                    # has been shifting
                    fresh = vt[0] == "op" and vt[1] == "and" and ("load", P.term(rm, i.a[1])) in vt[2]
                    hop_cleared = bool(home) and shape_ok and fresh
            if i.op == "call" and i.callee and P.srcname_of(i.callee).startswith("llvm.memset"):
                dt = P.term(rm, i.a[0])
                if Q.mentions(dt, lambda x: x[0] == "field" and x[2] == "struct.hashtable_string" and x[3] == "value") and P.const_int(i.a[1]) == 0:
                    val_cleared = True
        if not (key_marked and val_cleared and hop_cleared):
            bad = (v, "key_marked=%s value_cleared=%s home_bit_cleared=%s" % (key_marked, val_cleared, hop_cleared))
    ctx.ob("C17.2 R-ORDER", rm, "remove-success-path", bad is None and nsucc > 0,
           "removal success path does not (mark the key invalid, clear the value, clear bit wrap(pos - home) in the home bucket): %s"
           % (bad[1] if bad else ""), witness=bad[0].witness() if bad else None)
    put = T.put
    KEYINVAL = Q.macro(P, "router.c", "HASHTABLE_KEYINVAL")
    bad = None
    nins = 0
    nover = 0
    badover = None
    refuse = False
    for v in Q.path_views(ctx, P, put):
        rc = v.ret_const()
        if rc == KEYINVAL and v.has_atom(lambda a, p: a[0] == "cmp" and a[2][0] == "param" and a[2][1] == 1 and a[3] == ("const", -1) and Q._poleq(a, p)):
            refuse = True
        if rc != SUCC:
            continue
        keyst = [i for _, i in v.insts() if i.op == "store" and (_slot_field_store(P, put, i) or (None, None))[1] == "key"]
        if not keyst:
            # overwrite of an existing key: the new value is stored on EVERY such path (whatever the caller passed for prev_value)
            nover += 1
            vparam = put.params[2]["name"]
            stored = False
            for _, i in v.insts():
                if i.op == "store":
                    sf = _slot_field_store(P, put, i)
                    if sf and sf[1] == "value":
                        stored = True
                if i.op == "call" and i.callee and P.srcname_of(i.callee).startswith("llvm.memcpy"):
                    dt = P.term(put, i.a[0])
                    if Q.mentions(dt, lambda x: x[0] == "field" and x[2] == "struct.hashtable_string" and x[3] == "value") and \
                            Q.mentions(P.term(put, i.a[1]), lambda x: x[0] in ("param", "alloca")):
                        stored = True
            if not stored:
                badover = v
            continue
        nins += 1
        hop = [i for _, i in v.insts() if i.op == "store" and (_slot_field_store(P, put, i) or (None, None))[1] == "hop_info"]
        okh = False
        for h in hop:
            sf = _slot_field_store(P, put, h)
            vt = P.term(put, h.a[0])
            home = Q.mentions(sf[0], lambda x: Q.is_call_to(x, T.hash.srcname))
            dest = P.term(put, h.a[1])
            okh = home and vt[0] == "op" and vt[1] == "or" and Q.mentions(vt, lambda x: x[0] == "op" and x[1] == "shl" and x[2][0] == ("const", 1)) \
                and ("load", dest) in vt[2]   # the bit is OR-ed into the home word as it is NOW, not into a scan-local copy
        # duplicate scan completed: the scan loop's exit atom hop_info == 0 on the path
        scanned = v.has_atom(lambda a, p: a[0] == "cmp" and a[3] == ("const", 0) and a[2][0] == "phi" and Q._poleq(a, p))
        if not (okh and scanned):
            bad = (v, "home_bit_set_in_freshly_read_word=%s duplicate_scan_done=%s" % (okh, scanned))
    ctx.ob("C17.2 R-ORDER", put, "insert-success-path", bad is None and nins > 0,
           "insertion path does not (finish the duplicate scan, write key and value, set bit <distance> in the home bucket): %s"
           % (bad[1] if bad else ""), witness=bad[0].witness() if bad else None)
    ctx.ob("C17.2 R-GATE", put, "invalid-key-refused", refuse, "the invalid-key marker is not refused as a key")
    ctx.ob("C17.2 R-ORDER", put, "overwrite-stores-the-new-value", badover is None and nover > 0,
           "put() under a key that is already present reports success on a path that does not store the new value (e.g. only when the "
           "caller asked for the previous one): a lookup returns the old value", witness=badover.witness() if badover else None)
    # key equality is equality of the whole string
    for ie in P.by_src.get("is_equal_string", []):
        okeq = False
        for v in Q.path_views(ctx, P, ie):
            t = P.term(ie, v.ret_operand()) if v.ret_operand() is not None else None
            okeq = t is not None and Q.mentions(t, lambda x: Q.is_call_to(x, "strcmp")) and not Q.mentions(t, lambda x: Q.is_call_to(x, ("strncmp", "memcmp", "strncasecmp")))
        ctx.ob("C17.2 R-PAIR", ie, "keys-compared-as-whole-strings", okeq,
               "is_equal_string() does not compare the two keys with strcmp(): keys that differ beyond the compared part are one key to "
               "get/put/remove while they hash differently")
    # displacement: only key and value of the vacated slot are copied; the hop word of the slot being filled belongs to
    # the bucket that is HOMED there and must not be touched; the hop word of the checked bucket is rewritten once
    fc = T.closer
    fields_free = set()
    hop_sites = []
    whole = []
    for i in fc.all_insts():
        if i.op == "store":
            sf = _slot_field_store(P, fc, i)
            if sf:
                idx_t, fld = sf
                if idx_t == ("param", 1, fc.params[1]["name"]):
                    fields_free.add(fld)
                if fld == "hop_info":
                    hop_sites.append((idx_t, P.term(fc, i.a[0])))
        if i.op == "call" and i.callee and (i.callee.startswith("llvm.memcpy") or i.callee.startswith("llvm.memmove")):
            dt = P.term(fc, i.a[0])
            if Q.mentions(dt, lambda x: x[0] == "index") and P.const_int(i.a[2]) is not None and \
                    P.const_int(i.a[2]) >= P.structs["struct.hashtable_string"]["size"]:
                whole.append(i)
            else:
                x = dt
                fld = None
                while x[0] == "field":
                    if x[2] == "struct.hashtable_string":
                        fld = x[3]
                    x = x[1]
                if fld and x[0] == "index" and x[2] == ("param", 1, fc.params[1]["name"]):
                    fields_free.add(fld)
    okd = fields_free == {"key", "value"} and not whole and len(hop_sites) == 1 and \
        Q.mentions(hop_sites[0][0], lambda x: Q.is_call_to(x, T.wrap.srcname)) and \
        Q.mentions(hop_sites[0][1], lambda x: x[0] == "op" and x[1] == "or") and Q.mentions(hop_sites[0][1], lambda x: x[0] == "op" and x[1] == "and")
    ctx.ob("C17.2 R-ORDER", fc, "displacement-copies-key-and-value-only", okd,
           "displacement must copy exactly key and value into the freed slot and rewrite only the checked bucket's hop word "
           "(fields written at the freed slot: %s, whole-slot copies: %d, hop word stores: %d) - copying the hop word orphans the "
           "entries homed at the freed slot" % (sorted(fields_free), len(whole), len(hop_sites)))
    # a refused insertion leaves no stale slot: when put() gives up after displacing, the slot that the last successful
    # displacement vacated still holds a copy of the moved key; it must be marked free again, else it is lost for good
    FULL = Q.macro(P, "router.c", "HASHTABLE_FULL")
    stale = None
    ngive = 0
    for v in Q.path_views(ctx, P, put):
        if v.ret_const() != FULL:
            continue
        calls = [(k, i) for k, i in v.calls() if i.callee == fc.name]
        if not calls:
            continue
        ngive += 1
        k_last, c_last = calls[-1]
        slot = P.term(put, c_last.a[1])
        freed = False
        for k, i in v.insts():
            if k > k_last and i.op == "store":
                sf = _slot_field_store(P, put, i)
                if sf and sf[1] == "key" and P.term(put, i.a[0]) == ("const", -1) and sf[0] == slot:
                    freed = True
        if not freed:
            stale = v
    # ... and an insertion is refused only after the duplicate scan: a key that is already in the table is overwritten whatever
    # the fill of its bucket, so no path reports FULL before the scan over the home bucket's hop word has run out
    early = None
    nfull = 0
    for v in Q.path_views(ctx, P, put):
        if v.ret_const() != FULL:
            continue
        nfull += 1
        if not v.has_atom(lambda a, p: a[0] == "cmp" and a[3] == ("const", 0) and a[2][0] == "phi" and Q._poleq(a, p)):
            early = v
    ctx.ob("C17.2 R-ORDER", put, "refused-only-after-the-duplicate-scan", early is None and nfull > 0,
           "put() returns HASHTABLE_FULL on a path that has not finished the scan for the key in its home bucket: a put() under a key "
           "that is already present is refused instead of replacing the value", witness=early.witness() if early else None)
    ctx.ob("C17.2 R-TYPESTATE", put, "refused-insertion-leaves-no-stale-slot", stale is None and ngive > 0,
           "put() returns HASHTABLE_FULL after find_closer_entry() without marking the slot it passed to the last call free again: "
           "after a successful displacement that slot holds a stale copy of the moved key, no lookup reaches it and every later probe "
           "takes it for occupied", witness=stale.witness() if stale else None)
    if T.get is not None:
        # 'not found' is answered only after the scan over the home bucket's hop word has run out: the slot a key hashes to may be
        # empty while the bucket's bitmap still points to entries that live in neighbouring slots
        earlyg = None
        nnf = 0
        for v in Q.path_views(ctx, P, T.get):
            if v.ret_const() == SUCC:
                continue
            nnf += 1
            if not v.has_atom(lambda a, p: a[0] == "cmp" and a[3] == ("const", 0) and a[2][0] == "phi" and Q._poleq(a, p)):
                earlyg = v
        ctx.ob("C17.2 R-ORDER", T.get, "not-found-only-after-the-scan", earlyg is None and nnf > 0,
               "lookup answers 'not found' on a path that has not finished the scan over the home bucket's hop word (e.g. because the "
               "home slot itself is empty): entries of that bucket stored in neighbouring slots become invisible - add accepts a path "
               "that exists, change and remove of the owner find nothing", witness=earlyg.witness() if earlyg else None)
        stores = []
        for i in T.get.all_insts():
            if i.op == "store":
                lv, _ = Q.leaves(P, T.get, i.a[1])
                if any(l[0] == "param" and l[1] == 0 for l in lv):
                    stores.append(i)
        ctx.ob("C17.2 R-EFFECT", T.get, "lookup-is-pure", not stores, "lookup writes through the table at %s" % [s.loc for s in stores])


def _is_hop_addr(P, f, o):
    t = P.term(f, o)
    return t[0] == "field" and t[2] == "struct.hashtable_string" and t[3] == "hop_info"


def clause4_algorithm(ctx, P, T):
    """structure of the hopscotch algorithm that every history depends on"""
    # (A) the hop word is read and written at its full width, and hop_range() is that width
    hr = [f for f in P.by_src.get("hop_range_" + T.name, [])]
    if len(hr) != 1:
        raise AnalysisBroken("hop_range_%s: %d definitions" % (T.name, len(hr)))
    hr = hr[0]
    rng = None
    for v in Q.path_views(ctx, P, hr):
        rng = v.ret_const()
    widths = set()
    narrowed = []
    for f in (T.get, T.put, T.remove, T.closer):
        if f is None:
            continue
        for i in f.all_insts():
            if i.op == "load" and _is_hop_addr(P, f, i.a[0]):
                widths.add(i.ty)
                for u in f.users(i.id):
                    if u.op == "trunc":
                        narrowed.append(u)
            if i.op == "store" and _is_hop_addr(P, f, i.a[1]):
                o = i.a[0]
                if isinstance(o, int) and o >= f.nparams and f.insts[o].op in ("zext", "sext"):
                    narrowed.append(i)
    okw = len(widths) == 1 and not narrowed and rng is not None and ("i%d" % rng) in widths
    ctx.ob("C17.4 R-PAIR", T.put, "hop-word-width", okw,
           "the hop bitmap is %s wide in the slot, hop_range() is %s, and it is narrowed / widened at %s: bits beyond the narrower "
           "width are lost, entries placed there can never be found" % (sorted(widths), rng, [x.loc for x in narrowed][:4]))

    # (B) the scan over a bucket's hop word ends only when the word is exhausted or the key is found
    def is_eq_true(atom, pol):
        return atom[0] == "truth" and Q.mentions(atom[1], lambda x: x[0] == "call" and x[1].startswith("is_equal_")) and pol or \
            (atom[0] == "cmp" and Q.mentions(atom[2], lambda x: x[0] == "call" and x[1].startswith("is_equal_")) and atom[3] == ("const", 0) and not Q._poleq(atom, pol))
    for f, role in ((T.get, "lookup"), (T.put, "duplicate-scan"), (T.remove, "removal")):
        if f is None:
            continue
        scan = None
        for h, body in f.loops().items():
            t = f.term_inst(h)
            if t.op == "br" and t.a:
                c = P.cond(f, t.a[0])
                if c[0] != "const" and c[0][0] == "cmp" and c[0][1] in ("ne", "eq") and c[0][3] == ("const", 0) and c[0][2][0] == "phi":
                    ph = f.insts[c[0][2][1]]
                    outside = [v for (v, pb) in ph.inc if pb not in body]
                    if outside and all(isinstance(P.strip(f, v), int) and P.strip(f, v) >= f.nparams and f.insts[P.strip(f, v)].op == "load" and
                                       _is_hop_addr(P, f, f.insts[P.strip(f, v)].a[0]) for v in outside):
                        scan = (h, body, ph)
        if scan is None:
            raise AnalysisBroken("%s: scan loop over the hop word not found" % f.key)
        h, body, ph = scan
        bad = []
        for u in sorted(body):
            for (sv, atom, pol) in P.edge_conds(f, u):
                if sv in body or u == h:
                    continue
                if (atom is not None and is_eq_true(atom, pol)) or Q.must_pass(P, f, u, is_eq_true):
                    continue
                bad.append((u, atom, pol))
        ctx.ob("C17.4 R-LOOP", f, "scan-ends-only-when-exhausted-or-found:" + role, not bad,
               "the scan over the home bucket's hop word is left early (%s): entries of the bucket that lie behind that point are not "
               "seen" % "; ".join("%s [%s]" % (f.blocks[u][0].loc, fmt_atom(a, p) if a else "unconditional") for (u, a, p) in bad[:3]))
        # the word is shifted by one and the position advanced by one (wrapped) per iteration
        step_ok = False
        for (v, pb) in ph.inc:
            if pb in body:
                tv = P.term(f, v)
                step_ok = tv == ("op", "lshr", (("phi", ph.id), ("const", 1)))
        ctx.ob("C17.4 R-LOOP", f, "scan-step:" + role, step_ok, "the hop word is not shifted right by one per inspected slot")
    # (C) the probe for a free slot starts at the home bucket with distance 0, advances by one wrapped slot, and an
    #     insertion happens only within hop range; after a displacement the distance is recomputed from the home bucket
    put = T.put
    probe = None
    for h, body in put.loops().items():
        t = put.term_inst(h)
        if t.op == "br" and t.a:
            c = P.cond(put, t.a[0])
            if c[0] != "const" and c[0][0] == "cmp" and c[0][1] == "ult" and c[0][2][0] == "phi" and c[0][3] == ("const", T.size // 2):
                probe = (h, body, put.insts[c[0][2][1]])
    if probe is None:
        raise AnalysisBroken("%s: linear probe loop (distance < add_range) not found" % put.key)
    h, body, dist = probe
    init_ok = all(P.const_int(v) == 0 for (v, pb) in dist.inc if pb not in body) and \
        all(P.term(put, v) == ("op", "add", (("phi", dist.id), ("const", 1))) for (v, pb) in dist.inc if pb in body)
    pos_ok = False
    for i in put.blocks[h]:
        if i.op == "phi" and i.id != dist.id:
            outs = [P.term(put, v) for (v, pb) in i.inc if pb not in body]
            ins = [P.term(put, v) for (v, pb) in i.inc if pb in body]
            if outs and all(Q.is_call_to(x, T.hash.srcname) for x in outs) and \
                    all(Q.is_call_to(x, T.wrap.srcname) and x[2][0] == ("op", "add", (("phi", i.id), ("const", 1))) for x in ins):
                pos_ok = True
    ctx.ob("C17.4 R-INIT", put, "probe-starts-at-home", init_ok and pos_ok,
           "the search for a free slot does not start at the key's home bucket with distance 0 and advance by one wrapped slot "
           "(distance init/step ok: %s, position init/step ok: %s): free slots near the home bucket are skipped and insertions are "
           "refused or placed out of reach although room exists" % (init_ok, pos_ok))
    # insertion only within hop range
    within = True
    nkey = 0
    for i in put.all_insts():
        if i.op == "store":
            sf = _slot_field_store(P, put, i)
            if sf and sf[1] == "key" and P.term(put, i.a[0]) != ("const", -1):
                nkey += 1

                def in_range(atom, pol):
                    return atom[0] == "cmp" and (atom[3] == ("const", rng) or Q.is_call_to(atom[3], hr.srcname)) and \
                        ((atom[1] == "ult" and pol) or (atom[1] == "uge" and not pol))
                if not Q.must_pass(P, put, i.block, in_range):
                    within = False
    ctx.ob("C17.4 R-GATE", put, "insert-only-within-hop-range", within and nkey > 0,
           "a key is stored into a slot without the test distance < hop_range(): the home bucket's bitmap cannot point to it")
    redo = False
    for c in put.calls(T.closer.srcname):
        for u in put.users(c.id):
            tu = P.term(put, u.id) if u.op not in ("br", "store", "icmp") else None
            if tu and tu[0] == "op" and tu[1] == "sub" and Q.mentions(tu[2][1], lambda x: Q.is_call_to(x, T.hash.srcname)):
                redo = True
    ctx.ob("C17.4 R-PAIR", put, "distance-recomputed-from-home-after-displacement", redo,
           "after find_closer_entry() the distance of the new free slot is not recomputed as wrap(free_pos - home)")
    # (D) displacement search: candidates are the buckets hop_range-1 .. 1 before the free slot, and only entries that lie
    #     before the free slot are moved
    fc = T.closer
    init_d = False
    inner = False
    for h2, body2 in fc.loops().items():
        t = fc.term_inst(h2)
        if t.op == "br" and t.a:
            c = P.cond(fc, t.a[0])
            if c[0] == "const":
                continue
            a = c[0]
            if a[0] == "cmp" and a[2][0] == "phi" and a[3] == ("const", 0) and a[1] in ("ugt", "ne"):
                ph = fc.insts[a[2][1]]
                def range_minus_1(v):
                    if P.const_int(v) == rng - 1:
                        return True
                    tv = P.term(fc, v)
                    return tv[0] == "op" and ((tv[1] == "add" and tv[2][1] == ("const", -1)) or (tv[1] == "sub" and tv[2][1] == ("const", 1))) and \
                        Q.is_call_to(tv[2][0], hr.srcname)
                if any(range_minus_1(v) for (v, pb) in ph.inc if pb not in body2) and \
                        all(P.term(fc, v) == ("op", "add", (("phi", ph.id), ("const", -1))) for (v, pb) in ph.inc if pb in body2):
                    init_d = ph.id
    for h2, body2 in fc.loops().items():
        t = fc.term_inst(h2)
        if t.op == "br" and t.a:
            c = P.cond(fc, t.a[0])
            if c[0] != "const" and c[0][0] == "cmp" and c[0][1] == "ult" and c[0][2][0] == "phi" and c[0][3] == ("phi", init_d):
                inner = True
    ctx.ob("C17.4 R-LOOP", fc, "displacement-candidates", bool(init_d) and inner,
           "find_closer_entry does not examine the buckets hop_range-1 .. 1 before the free slot and, per bucket, only the entries "
           "lying before the free slot (outer loop ok: %s, inner bound 'i < check_distance' ok: %s)" % (bool(init_d), inner))


def clause3_sweeps(ctx, P, T):
    n = 0
    # the bookkeeping of a slot (key marker, hop bitmap, value) is written by the table's own functions only: a sweep that
    # 'releases the slot it already holds' by hand clears the wrong bitmap bit for every entry that does not sit in its home slot
    outside = []
    for f in P.own_functions():
        if f in T.members or f.srcname.startswith(("hashtable_", "find_closer_entry_")):
            continue
        for i in f.all_insts():
            if i.op == "store":
                sf = _slot_field_store(P, f, i)
                if sf:
                    outside.append((f, i, sf[1]))
            elif i.op == "call" and i.callee and P.srcname_of(i.callee).startswith(("llvm.memcpy", "llvm.memset", "llvm.memmove")):
                dt = P.term(f, i.a[0])
                if Q.mentions(dt, lambda x: x[0] == "field" and x[2] == "struct.hashtable_string") or \
                        (dt[0] == "index" and Q.mentions(dt, lambda x: x[0] == "field" and x[3] == "routing_table")):
                    outside.append((f, i, "slot"))
    ctx.ob("C17.3 R-WHO", T.remove, "slots-are-written-by-the-table-only", not outside,
           "%s writes %s of a table slot itself at %s: the hop bitmap that points to an entry belongs to the entry's HOME bucket, which "
           "only the table's remove() finds - a hand-made release leaves a set bit pointing at an unused slot (or clears a foreign one)" %
           ((outside[0][0].srcname, outside[0][2], outside[0][1].loc) if outside else ("", "", "")))
    for f in P.own_functions():
        if f in T.members:
            continue
        for lh, body in f.loops().items():
            geps = [i for b in body for i in f.blocks[b] if i.op == "getelementptr" and i.st == "%struct.hashtable_string"
                    and P.const_int(i.path[0][1]) != 0]
            if not geps:
                continue
            n += 1
            calls = [i for b in body for i in f.blocks[b] if i.op == "call" and i.callee]
            puts = [c for c in calls if P.srcname_of(c.callee).startswith("hashtable_put_")]
            ctx.ob("C17.3 R-WHO", f, "sweep:no-insert", not puts,
                   "a walk over table slots inserts into a table (%s): insertion can displace entries across the cursor" % [c.loc for c in puts])
            for c in calls:
                if P.srcname_of(c.callee).startswith("hashtable_remove_"):
                    kt = P.term(f, c.a[1])
                    ok = Q.is_field_load(kt, "struct.hashtable_string", "key") is not None
                    ctx.ob("C17.3 R-PAIR", f, "sweep:" + Q.ordinal_site(f, c, P), ok,
                           "sweep removes with a key that is not read from the slot being visited")
    return n


def run(ctx):
    total = 0
    sweeps = 0
    for cfg in ctx.configs():
        P = cfg.P
        for name in ("element_table", "route_table"):
            T = Inst(P, name)
            extra = []
            if name == "route_table":
                extra = [f for f in P.own_functions() if f.base == "router.c" and f not in T.members and
                         any(i.op == "getelementptr" and i.st == "%struct.hashtable_string" for i in f.all_insts())]
            total += clause1_bounds(ctx, P, T, extra)
            clause2_mutation(ctx, P, T)
            clause4_algorithm(ctx, P, T)
            if name == "route_table":
                sweeps += clause3_sweeps(ctx, P, T)
            ctx.note("%s: table size %d in configuration %s" % (name, T.size, cfg.name))
    if total < 20:
        raise AnalysisBroken("slot subscripts found: %d" % total)
    if sweeps < 2:
        raise AnalysisBroken("table sweeps found: %d" % sweeps)
    ctx.floor("C17.1 R-BOUND", 20)
    ctx.floor("C17.2 R-ORDER", 6)
    ctx.floor("C17.4 R-LOOP", 10)
