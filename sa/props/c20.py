"""C20 — password change: authorisation gates, crash-atomic persistence protocol, write loop, effectiveness, hygiene."""
from ..frontend import AnalysisBroken
from ..core import queries as Q
from ..core.program import fmt_term, fmt_atom, CAST_OPS

META = {
    "explanation": (
        "(1) R-GATE by edge-set deletion: the two mutation sites of change_password (replacement of the user's password member, "
        "persisting the database) are unreachable once any of these edge sets is deleted: {p->user_name != NULL}, "
        "{is_readonly(user) false}, {strcmp(p->user_name, user_name) == 0, is_admin(p->user_name)}, {target user found}; the "
        "handler passes the request's user/password strings and its own peer; "
        "(2) persistence protocol: the function that rewrites the credential file never truncates the live descriptor; the "
        "update passes write-all -> fsync -> rename over the live path on every success path; "
        "(3) write discipline: a write(2) on the credential data either sits in a loop whose buffer and remaining count are both "
        "advanced by the returned count, or its result is compared with the full count and a mismatch fails the update; a "
        "negative result leaves with failure; "
        "(4) effective: the in-memory password member is replaced by crypt(new, salt) before persisting (either idiom: "
        "cJSON_SetValuestring on the member, or cJSON_ReplaceItemInObject with a new string item), a success answer is given only on "
        "paths on which every fallible part of that step was tested and found successful, and authentication "
        "compares crypt(given, stored) with the same member; "
        "(5) hygiene: clear_password(passwd) on every exit of both entry points; password taint (shared with C08.4); "
        "(6) the role predicates the gates rely on (is_admin, is_readonly) answer true only on paths that established that the "
        "user's member is the JSON value true; the file name remembered for the update (target of rename, directory of the "
        "temporary file) is the result of realpath()/canonicalize_file_name()."),
    "not_decided": "crypt() behaviour, salt quality, the file system's own crash semantics (rename atomicity is POSIX's promise)",
    "assumptions": ["POSIX: rename(2) atomically replaces the target; fsync(2) makes the temporary file durable"],
}


INSTALLERS = ("cJSON_ReplaceItemInObject", "cJSON_SetValuestring")


def _polarity_eq(atom, pol):
    return (atom[1] == "eq" and pol) or (atom[1] == "ne" and not pol)


def clause1_auth(ctx, P):
    cp = P.fn("auth_file.c:change_password")
    sites = cp.calls(INSTALLERS + ("write_user_data",))
    repl = [s for s in sites if P.srcname_of(s.callee) in INSTALLERS]
    if not repl:
        raise AnalysisBroken("change_password: password replacement site not found")
    persist = [s for s in sites if P.srcname_of(s.callee) not in INSTALLERS]
    if not persist:
        # any callee in this unit that reaches write/rename
        raise AnalysisBroken("change_password: persist site (write_user_data) not found")
    user_t = None
    for s in repl:
        if P.srcname_of(s.callee) == "cJSON_SetValuestring":
            item = P.term(cp, s.a[0])
            isget = Q.is_call_to(item, "cJSON_GetObjectItem")
            user_t = item[2][0] if isget else None
            member_ok = isget and item[2][1] == ("str", "password")
        else:
            user_t = P.term(cp, s.a[0])
            member_ok = Q.arg_literal(P, s, 1) == "password"
        ctx.ob("C20.1 R-PAIR", cp, "replace:member", member_ok, "the member replaced is not \"password\" of the target user")

    def authd(atom, pol):
        if atom[0] != "cmp" or atom[3] != ("null",):
            return False
        b = Q.is_field_load(atom[2], "struct.peer", "user_name")
        return b is not None and b[0] == "param" and b[1] == 0 and not _polarity_eq(atom, pol)

    def not_readonly(atom, pol):
        t = atom[1] if atom[0] == "truth" else None
        return t is not None and Q.is_call_to(t, "is_readonly") and t[2][0] == user_t and not pol

    def self_or_admin(atom, pol):
        if atom[0] == "cmp" and Q.is_call_to(atom[2], "strcmp") and atom[3] == ("const", 0):
            a, b = atom[2][2]
            pu = Q.is_field_load(a, "struct.peer", "user_name") or Q.is_field_load(b, "struct.peer", "user_name")
            other = b if Q.is_field_load(a, "struct.peer", "user_name") is not None else a
            if pu is not None and pu[0] == "param" and pu[1] == 0 and other[0] == "param" and other[1] == 2:
                return _polarity_eq(atom, pol)
            return False
        t = atom[1] if atom[0] == "truth" else None
        if t is not None and Q.is_call_to(t, "is_admin"):
            pu = Q.is_field_load(t[2][0], "struct.peer", "user_name")
            return pu is not None and pu[0] == "param" and pu[1] == 0 and pol
        return False

    def found(atom, pol):
        if atom[0] != "cmp" or atom[3] != ("null",) or atom[2] != user_t:
            return False
        return not _polarity_eq(atom, pol)
    gates = [("authenticated peer (p->user_name != NULL)", authd), ("target not read-only", not_readonly),
             ("own account or admin", self_or_admin), ("target user exists", found)]
    for s in repl + persist:
        for (nm, g) in gates:
            ok = Q.must_pass(P, cp, s.block, g)
            w = None
            if not ok:
                pth = Q.witness_to(P, cp, s.block, drop=g)
                w = Q.fmt_witness(P, cp, pth) if pth else None
            ctx.ob("C20.1 R-GATE", cp, "%s:%s" % (Q.ordinal_site(cp, s, P), nm.split(" (")[0]), ok,
                   "%s reachable without the gate: %s" % (Q.ordinal_site(cp, s, P), nm) if not ok else "gated by: " + nm, witness=w)
    # user looked up by the requested name in the users object
    ctx.ob("C20.1 R-PAIR", cp, "user:lookup",
           user_t is not None and Q.is_call_to(user_t, "cJSON_GetObjectItem") and user_t[2][1][0] == "param" and user_t[2][1][1] == 2,
           "the account being changed is not looked up by the requested user name: %s" % fmt_term(user_t))
    # handler wiring
    h = P.fn("authenticate.c:handle_change_password")
    cs = h.calls("change_password")
    ctx.ob("C20.1 R-WHO", h, "change_password:sites", len(cs) == 1 and len(P.callers_of(cp)) == 1,
           "change_password must be called exactly once, from the passwd handler")
    for c in cs:
        def member(t, key):
            b = Q.is_field_load(t, "struct.cJSON", "valuestring")
            return b is not None and Q.is_call_to(b, "cJSON_GetObjectItem") and b[2][1] == ("str", key)
        t0, t2, t3 = P.term(h, c.a[0]), P.term(h, c.a[2]), P.term(h, c.a[3])
        ctx.ob("C20.1 R-PAIR", h, "change_password:args",
               t0[0] == "param" and t0[1] == 0 and member(t2, "user") and member(t3, "password"),
               "handler does not pass (own peer, params.user, params.password)")
        cj_string = Q.macro(P, "authenticate.c", "cJSON_String")
        for key in ("user", "password"):
            def is_str(atom, pol, key=key):
                if atom[0] != "cmp" or atom[3] != ("const", cj_string):
                    return False
                b = Q.is_field_load(atom[2], "struct.cJSON", "type")
                return b is not None and Q.is_call_to(b, "cJSON_GetObjectItem") and b[2][1] == ("str", key) and _polarity_eq(atom, pol)
            ctx.ob("C20.1 R-GATE", h, "change_password:%s-is-string" % key, Q.must_pass(P, h, c.block, is_str),
                   "params.%s is used as a string without a type test" % key)
    ctx.floor("C20.1 R-GATE", 10)


def _persist_fn(P, cg):
    cp = P.fn("auth_file.c:change_password")
    for c in cp.calls():
        if c.callee and c.callee in P.functions:
            g = P.functions[c.callee]
            if g.base == "auth_file.c" and cg.may_call(g, {"write", "pwrite", "rename", "ftruncate", "fwrite"}):
                return g
    raise AnalysisBroken("no function called from change_password writes the credential file")


def _writes(P, cg, f, i):
    """call that (transitively) writes file data"""
    if i.op != "call" or not i.callee:
        return False
    n = P.srcname_of(i.callee)
    if n in ("write", "pwrite", "fwrite"):
        return True
    g = P.functions.get(i.callee)
    return g is not None and P.own(g) and cg.may_call(g, {"write", "pwrite", "fwrite"})


def clause2_atomic(ctx, P, cg):
    w = _persist_fn(P, cg)
    views = Q.path_views(ctx, P, w)
    trunc = w.calls(("ftruncate", "truncate"))
    for t in trunc:
        lv, _ = Q.leaves(P, w, t.a[0])
        live = any(l[0] == "global" for l in lv)
        ctx.ob("C20.2 R-PROTO", w, Q.ordinal_site(w, t, P), not live,
               "the live credential file is truncated in place before the new content is durable: a crash, short write or "
               "write error after this point leaves neither the old nor the new credential set on disk (%s)" % t.loc)
    renames = w.calls("rename")
    ok_paths = [v for v in views if v.ret_const() == 0]
    if not ok_paths:
        raise AnalysisBroken("%s has no success path" % w.key)
    bad = None
    for v in ok_paths:
        seq = [i for _, i in v.calls() if i.callee]
        order = [("WRITE" if _writes(P, cg, w, i) else P.srcname_of(i.callee)) for i in seq]
        try:
            ws = [k for k, n in enumerate(order) if n == "WRITE"]
            iw = max(ws) if ws else 0   # an empty database writes nothing; what is written precedes the sync
            isync = order.index("fsync", iw)
            if any(k > isync for k in ws):
                raise ValueError
            iren = order.index("rename", isync)
        except ValueError:
            bad = v
            break
    ctx.ob("C20.2 R-PROTO", w, "atomic-replace", bad is None,
           "a success path of the credential-file update does not follow write-all -> fsync -> rename over the live path "
           "(the only crash-atomic replacement POSIX offers)" if bad is not None else
           "all %d success path(s) follow write -> fsync -> rename" % len(ok_paths),
           witness=bad.witness() if bad is not None else None)
    # every step that can fail makes the update fail: a path on which write/fsync/close/rename/mkstemp reported failure
    # must not return success
    steps = ("fsync", "close", "rename", "mkstemp", "fchmod", "write", "pwrite")
    unreported = None
    for v in views:
        failed = None
        for k, (b, a, p) in enumerate(v.path):
            if a is None:
                continue
            if a[0] == "cmp" and a[2][0] == "call" and a[2][1] in steps and a[3][0] == "const":
                eff = a[1] if p else Q.negate_pred(a[1])
                if (eff == "slt" and a[3][1] == 0) or (eff == "eq" and a[3][1] == -1) or (eff == "ne" and a[3][1] == 0 and a[2][1] in ("rename", "fsync", "close")):
                    cblk = w.insts[a[2][3]].block if a[2][3] in w.insts else None
                    EINTR = Q.macro(P, "auth_file.c", "EINTR")
                    retried = (cblk is not None and any(bb == cblk for (bb, _, _) in v.path[k:])) or \
                        any(a2 is not None and a2[0] == "cmp" and a2[2][0] == "load" and Q.is_call_to(a2[2][1], "__errno_location")
                            and a2[3] == ("const", EINTR) and Q._poleq(a2, p2) for (_, a2, p2) in v.path[k:])
                    if not retried:
                        failed = a[2][1]
        rc = v.ret_const()
        if failed and (rc is None or rc >= 0):
            unreported = (v, failed)
    ctx.ob("C20.2 R-PROTO", w, "failing-step-fails-update", unreported is None,
           "the credential-file update returns success on a path where %s() reported failure: the client is told the password was "
           "changed although the file on disk still holds the old credentials" % (unreported[1] if unreported else ""),
           witness=unreported[0].witness() if unreported else None)
    ctx.floor("C20.2 R-PROTO", 1)


def clause3_write(ctx, P, cg):
    w = _persist_fn(P, cg)
    writes = []
    for f in P.own_functions():
        if f.base == "auth_file.c":
            writes += [(f, c) for c in f.calls(("write", "pwrite"))]
    if not writes:
        raise AnalysisBroken("no write(2) call in auth_file.c")
    for (f, c) in writes:
        loops = f.loops()
        inloop = [h for h, body in loops.items() if c.block in body]
        buf = P.strip(f, c.a[1])
        cnt = P.strip(f, c.a[2])
        site = Q.ordinal_site(f, c, P)
        if inloop:
            def carried(o):
                if not isinstance(o, int) or o < f.nparams:
                    return False
                i = f.insts[o]
                if i.op != "phi":
                    return False
                # some incoming value computed from this phi and the write's return value
                for (v, pb) in i.inc:
                    t = P.term(f, v)
                    if Q.mentions(t, lambda x: x[0] == "call" and x[1] in ("write", "pwrite")) and \
                            Q.mentions(t, lambda x: x == ("phi", o)):
                        return True
                return False
            okb, okc = carried(buf), carried(cnt)
            ctx.ob("C20.3 R-LOOP", f, site + ":buffer", okb,
                   "write loop: the buffer argument is not advanced by the number of bytes written, so after a short write the "
                   "beginning of the data is written again (%s)" % c.loc if not okb else "buffer advanced by returned count")
            ctx.ob("C20.3 R-LOOP", f, site + ":count", okc,
                   "write loop: the remaining count is not reduced by the number of bytes written" if not okc else
                   "count reduced by returned count")
            # loop condition must compare the remaining count (or total written vs total), not the last return value
            hdr = inloop[0]
            tinst = f.term_inst(hdr)
            condt = P.cond(f, tinst.a[0]) if tinst.op == "br" and tinst.a else None
            okcond = True
            if condt and condt[0] != "const":
                atom = condt[0]
                if atom[0] == "cmp":
                    for side in (atom[2], atom[3]):
                        if side[0] == "phi":
                            ph = f.insts[side[1]]
                            for (v, pb) in ph.inc:
                                tv = P.term(f, v)
                                if tv[0] == "call" and tv[1] in ("write", "pwrite"):
                                    okcond = False
            ctx.ob("C20.3 R-LOOP", f, site + ":condition", okcond,
                   "write loop: the loop condition compares the LAST return value of write with the shrinking remainder, so the "
                   "loop can end before everything is written or write the wrong bytes" if not okcond else "loop condition ok")
        else:
            # single write: result compared with the full count, mismatch -> failure
            def full(atom, pol):
                if atom[0] != "cmp":
                    return False
                return any(x[0] == "call" and x[1] in ("write", "pwrite") and x[3] == c.id for x in (atom[2], atom[3]))
            users_ok = any(full(a, p) for v in Q.path_views(ctx, P, f) for (a, p) in v.atoms)
            ctx.ob("C20.3 R-LOOP", f, site + ":checked", users_ok,
                   "write result is not compared with the requested count")
        # negative result leaves with failure
        neg = False
        for v in Q.path_views(ctx, P, f):
            for (a, p) in v.atoms:
                if a[0] == "cmp" and a[1] in ("slt", "sle", "eq") and a[3][0] == "const" and a[3][1] in (0, -1) and p:
                    l = a[2]
                    if (l[0] == "call" and l[1] in ("write", "pwrite")) or l[0] == "phi":
                        rc = v.ret_const()
                        if rc is not None and rc < 0:
                            neg = True
        ctx.ob("C20.3 R-LOOP", f, site + ":error", neg, "a failing write does not lead to a failure return")
    ctx.floor("C20.3 R-LOOP", 2)


def _is_new_hash(P, t):
    """crypt(<new password parameter>, salt), possibly wrapped into cJSON_CreateString"""
    if Q.is_call_to(t, "cJSON_CreateString"):
        t = t[2][0]
    return Q.is_call_to(t, "crypt") and t[2][0][0] == "param" and t[2][0][1] == 3


def clause4_effective(ctx, P, cg):
    cp = P.fn("auth_file.c:change_password")
    views = Q.path_views(ctx, P, cp)
    w = _persist_fn(P, cg)
    bad = None
    n = 0
    for v in views:
        order = [(k, i) for k, i in v.calls()]
        pos_w = [k for k, i in order if i.callee == w.name]
        if not pos_w:
            continue
        n += 1
        pos_r = [k for k, i in order if P.srcname_of(i.callee) in INSTALLERS]
        if not pos_r or min(pos_r) > pos_w[0]:
            bad = v
    ctx.ob("C20.4 R-ORDER", cp, "replace-before-persist", bad is None and n > 0,
           "the database is persisted on a path where the in-memory password was not replaced first" if bad else
           "replacement precedes persist on %d path(s)" % n)
    sites = cp.calls(INSTALLERS)
    if not sites:
        raise AnalysisBroken("change_password: no step that installs the new hash (%s)" % ", ".join(INSTALLERS))
    for s in sites:
        cn = P.srcname_of(s.callee)
        if cn == "cJSON_ReplaceItemInObject":
            t = P.term(cp, s.a[2])
            good = _is_new_hash(P, t)
        else:
            t = P.term(cp, s.a[1])
            item = P.term(cp, s.a[0])
            good = _is_new_hash(P, t) and Q.is_call_to(item, "cJSON_GetObjectItem") and item[2][1] == ("str", "password")
        ctx.ob("C20.4 R-PAIR", cp, "replace:value", good,
               "the stored password is not crypt(<new password parameter>, salt) installed in the user's \"password\" member: %s" % fmt_term(t))
    # a success answer implies that the installing step succeeded: every fallible part of it is tested on the path
    swallowed = None
    nsucc = 0
    for v in views:
        if not any(True for _ in v.calls("create_success_response_from_request")):
            continue
        nsucc += 1
        for _, i in v.calls(INSTALLERS):
            cn = P.srcname_of(i.callee)
            need = []
            if cn == "cJSON_ReplaceItemInObject":
                need.append(lambda a, p: a[0] == "truth" and Q.is_call_to(a[1], "cJSON_ReplaceItemInObject") and p or
                            (a[0] == "cmp" and Q.is_call_to(a[2], "cJSON_ReplaceItemInObject") and a[3] == ("const", 0) and not _polarity_eq(a, p)))
                need.append(lambda a, p: a[0] == "cmp" and Q.is_call_to(a[2], "cJSON_CreateString") and a[3] == ("null",) and not _polarity_eq(a, p))
            else:
                need.append(lambda a, p: a[0] == "cmp" and Q.is_call_to(a[2], "cJSON_SetValuestring") and a[3] == ("null",) and not _polarity_eq(a, p))
            if not all(v.has_atom(nd) for nd in need):
                swallowed = v
    # a change that is answered with an error because it could not be persisted is taken back in memory: authentication uses
    # the in-memory database, and the next successful change of anybody writes that database to disk
    RESTORERS = INSTALLERS + ("cJSON_ReplaceItemViaPointer",)
    kept = None
    nfailw = 0
    for v in views:
        order = [(k, i) for k, i in v.calls()]
        pw = [(k, i) for k, i in order if i.callee == w.name]
        if not pw:
            continue
        k_w, wi = pw[-1]
        failed = v.has_atom(lambda a, p: a[0] == "cmp" and a[2][0] == "call" and a[2][3] == wi.id and a[3] == ("const", 0) and
                            ((a[1] == "slt" and p) or (a[1] == "sge" and not p) or (a[1] == "ne" and p) or (a[1] == "eq" and not p)))
        if not failed:
            continue
        nfailw += 1
        installed = any(k < k_w and P.srcname_of(i.callee or "") in INSTALLERS for k, i in order)
        restored = any(k > k_w and i.callee and P.srcname_of(i.callee) in RESTORERS for k, i in order)
        if installed and not restored:
            kept = v
    ctx.ob("C20.4 R-COMMIT", cp, "failed-persist-is-taken-back", kept is None and nfailw > 0,
           "when the credential file cannot be written, change_password() answers with an error but keeps the new hash in the in-memory "
           "database: the new password authenticates at once, and the next successful change of any account writes it to disk",
           witness=kept.witness() if kept else None)
    # ... by putting back a WHOLE copy of the old member: cJSON_ReplaceItemViaPointer() does not name the replacement, so only a
    # duplicate of the member itself (which carries the key "password") restores the account; a fresh string item has no key
    badrep = None
    nrep = 0
    for i in cp.all_insts():
        if i.op == "call" and i.callee and P.srcname_of(i.callee) == "cJSON_ReplaceItemViaPointer" and len(i.a) > 2:
            nrep += 1
            lv, _ = Q.leaves(P, cp, i.a[2], through_loads=False)
            if not lv or not all(Q.is_call_to(l, "cJSON_Duplicate") and l[2][0] == P.term(cp, i.a[1]) for l in lv):
                badrep = i
    if nrep:
        ctx.ob("C20.4 R-COMMIT", cp, "what-is-put-back-is-a-copy-of-the-old-member", badrep is None,
               "change_password() puts back %s at %s, which is not a duplicate of the replaced member: the restored item has no key, the "
               "account loses its \"password\" member - nobody can log in, and the next write stores the hash under an empty name" %
               (fmt_term(P.term(cp, badrep.a[2]))[:60] if badrep else "?", badrep.loc if badrep else "?"))
    ctx.ob("C20.4 R-RET", cp, "install-failure-fails-the-update", swallowed is None and nsucc > 0,
           "success is answered on a path on which the step that installs the new hash may have failed unnoticed (allocation failure in "
           "cJSON_CreateString / cJSON_ReplaceItemInObject / cJSON_SetValuestring): the caller is told the password changed, the old one "
           "stays valid or the member is lost", witness=swallowed.witness() if swallowed else None)
    co = P.fn("auth_file.c:credentials_ok")
    cmpok = False
    for c in co.calls("strcmp"):
        a, b = P.term(co, c.a[0]), P.term(co, c.a[1])
        for (x, y) in ((a, b), (b, a)):
            bx = Q.is_field_load(x, "struct.cJSON", "valuestring")
            if bx is not None and Q.is_call_to(bx, "cJSON_GetObjectItem") and bx[2][1] == ("str", "password") \
                    and Q.is_call_to(y, "crypt") and y[2][0][0] == "param" and y[2][0][1] == 1 and y[2][1] == x:
                cmpok = True
    ctx.ob("C20.4 R-PAIR", co, "compare", cmpok,
           "authentication does not compare crypt(given, stored) with the stored \"password\" member")
    # auth granted only under strcmp == 0
    for c in co.calls("cJSON_GetObjectItem"):
        if Q.arg_literal(P, c, 1) == "auth":
            def eq0(atom, pol):
                return atom[0] == "cmp" and Q.is_call_to(atom[2], "strcmp") and atom[3] == ("const", 0) and _polarity_eq(atom, pol)
            ctx.ob("C20.4 R-GATE", co, "auth:granted", Q.must_pass(P, co, c.block, eq0),
                   "the auth object is handed out without the password comparison succeeding")
    ctx.floor("C20.4 R-PAIR", 2)


def clause5_hygiene(ctx, P):
    for key, pidx in (("auth_file.c:change_password", 3), ("auth_file.c:credentials_ok", 1)):
        f = P.fn(key)
        views = Q.path_views(ctx, P, f)
        bad = None
        for v in views:
            # NULL-argument early-outs are exempt
            if v.has_atom(lambda a, p: a[0] == "cmp" and a[2][0] == "param" and a[3] == ("null",) and _polarity_eq(a, p)):
                continue
            ok = any(P.term(f, i.a[0]) == ("param", pidx, f.params[pidx]["name"]) for _, i in v.calls("clear_password"))
            if not ok:
                bad = v
                break
        ctx.ob("C20.5 R-ORDER", f, "clear_password", bad is None,
               "an exit of %s does not wipe the clear-text password" % f.srcname if bad else
               "clear_password(passwd) on all %d path(s)" % len(views), witness=bad.witness() if bad else None)
    ctx.floor("C20.5 R-ORDER", 2)


# functions that look for a terminating NUL in what they are given (the bundled cJSON's entry points without a length
# call strlen on their input); a mapped file has no terminator of its own
NUL_SCANNERS = ("cJSON_Parse", "cJSON_ParseWithOpts", "strlen", "strcpy", "strdup", "strcmp", "strchr", "strstr", "duplicate_string",
                "puts", "fputs", "atoi", "strtol")


def clause9_mapped_file(ctx, P):
    """'loadable at every instant' includes every LENGTH the file can have: the bytes of the mapped credential file end with the
    file - when its size is a multiple of the page size no NUL follows them inside the mapping.  The mapping is therefore only
    handed to functions that are told its length (cJSON_ParseWithLength*), never to one that scans for a terminator."""
    n = 0
    bad = None
    for f in P.own_functions():
        for m in f.calls("mmap"):
            n += 1
            for c in f.all_insts():
                if c.op != "call" or not c.callee or c is m:
                    continue
                for k, a in enumerate(c.a):
                    lv, _ = Q.leaves(P, f, a, through_loads=False)
                    if any(l[0] == "call" and l[3] == m.id for l in lv):
                        nm = P.srcname_of(c.callee)
                        if nm in NUL_SCANNERS and bad is None:
                            bad = (f, c, nm)
    ctx.ob("C20.2 R-BOUND", P.fn("auth_file.c:load_passwd_data"), "mapped-file-is-read-with-its-length", bad is None and n >= 1,
           ("%s() hands the mapped file to %s() at %s, which looks for a terminating NUL: a credential file whose size is a multiple of "
            "the page size has none inside the mapping - the daemon reads past it (SIGSEGV/SIGBUS at start-up, or stray bytes parsed) "
            "and a perfectly valid file is not loadable" % (bad[0].srcname, bad[2], bad[1].loc)) if bad else
           ("%d mmap site(s); the mapping is only passed with its length" % n if n else "no mmap of the credential file found"))


def clause10_commit_and_salt(ctx, P, cg):
    """(a) nothing fails after the commit point: once rename() has replaced the credential file, write_user_data() reports success -
    a failure reported from there makes change_password() take the change back in memory while it is in force on disk;
    (b) the installer keeps its promise: when cJSON_SetValuestring() fails, the item still has its old string (change_password()
    restores nothing on that path), i.e. no path that returns NULL has freed or overwritten object->valuestring;
    (c) a salt consists of salt characters: the table of valid characters is indexed modulo its number of CHARACTERS (the
    array is one longer: its terminator is not a salt character - crypt() answers such a salt with a failure token that is then
    stored as the hash)"""
    w = P.fn("auth_file.c:write_user_data")
    rn = w.calls("rename")
    bad = None
    n = 0
    for v in Q.path_views(ctx, P, w):
        for c in rn:
            ok_ = v.has_atom(lambda a, p, c=c: a[0] == "cmp" and a[2][0] == "call" and a[2][3] == c.id and a[3] == ("const", 0) and
                             (a[1] if p else Q.negate_pred(a[1])) in ("sge", "eq"))
            if ok_:
                n += 1
                if v.ret_const() != 0:
                    bad = v
    ctx.ob("C20.3 R-COMMIT", w, "nothing-fails-after-the-rename", bad is None and n > 0,
           "write_user_data() can report a failure on a path on which rename() has already put the new file in place: the caller takes "
           "the change back in memory and answers with an error, the disk holds the new credentials", witness=bad.witness() if bad else None)
    g = P.fn("cJSON.c:cJSON_SetValuestring")
    obj = ("param", 0, g.params[0]["name"])
    vs = ("field", obj, "struct.cJSON", "valuestring")
    badi = None
    ni = 0
    for v in Q.path_views(ctx, P, g):
        ro = v.ret_operand()
        if ro is None or not P.is_null(v.resolve(ro)):
            continue
        ni += 1
        for _, i in v.insts():
            if i.op == "store" and P.term(g, i.a[1]) == vs:
                badi = (v, i, "overwritten")
            if i.op == "call" and any(P.term(g, a) == ("load", vs) for a in i.a) and \
                    ((i.callee and P.srcname_of(i.callee) in ("cJSON_free", "free", "cjet_free")) or
                     (not i.callee and cg.icall_field(g, i) == ("struct.internal_hooks", 1)) or
                     (not i.callee and P.term(g, i.ind) == ("load", ("cgep", ("global", "global_hooks"), (0, 1))))):
                badi = (v, i, "released")
    ctx.ob("C20.4 R-COMMIT", g, "failed-install-keeps-the-old-string", badi is None and ni > 0,
           ("cJSON_SetValuestring() returns NULL on a path on which the item's old string has been %s (%s): change_password() answers "
            "with an error and leaves the account without a hash - the next look-up crashes or nobody can log in" %
            (badi[2], badi[1].loc)) if badi else "a failing cJSON_SetValuestring() leaves the item as it was", witness=badi[0].witness() if badi else None)
    ns = 0
    bads = None
    for f in P.own_functions():
        if f.base != "auth_file.c":
            continue
        for i in f.all_insts():
            if i.op != "load":
                continue
            t = P.term(f, i.a[0])
            if t[0] == "index" and t[1][0] == "str" and t[2][0] == "op" and t[2][1] == "urem" and t[2][2][1][0] == "const":
                ns += 1
                if t[2][2][1][1] > len(t[1][1]):
                    bads = (f, i, t[2][2][1][1], len(t[1][1]))
    ctx.ob("C20.4 R-BOUND", P.fn("auth_file.c:change_password"), "salt-characters-come-from-the-table", bads is None and ns >= 1,
           ("%s() picks a salt character at index (random mod %d) of a table of %d characters at %s: the index behind the last "
            "character yields the terminating NUL, the salt is cut short and crypt()'s failure token is stored as the new hash" %
            (bads[0].srcname, bads[2], bads[3], bads[1].loc)) if bads else "%d table look-up(s) stay inside the characters" % ns)


def clause11_write_progress(ctx, P):
    """the loop that writes the new credential file advances by what write() reported only when write() reported progress: every
    arithmetic use of write()'s result (pointer advance, remaining count) is dominated by the test 'result >= 0' - an interrupted
    write (-1, EINTR) that falls through to the advance moves the pointer BACK one byte and the file gets a duplicated byte"""
    n = 0
    bad = None
    for f in P.own_functions():
        if f.base != "auth_file.c":
            continue
        for c in f.calls("write"):
            for i in f.all_insts():
                if i.op in ("add", "sub", "getelementptr") and c.id in [a for a in i.a if isinstance(a, int)] + \
                        [st[1] for st in (getattr(i, "path", None) or []) if len(st) > 1 and isinstance(st[1], int)]:
                    n += 1

                    def nonneg(atom, pol, c=c):
                        if atom[0] != "cmp" or not (atom[2][0] == "call" and atom[2][3] == c.id) or atom[3] != ("const", 0):
                            return False
                        eff = atom[1] if pol else Q.negate_pred(atom[1])
                        return eff in ("sge", "sgt")
                    if not Q.must_pass(P, f, i.block, nonneg) and bad is None:
                        bad = (f, i)
    ctx.ob("C20.3 R-GATE", P.fn("auth_file.c:write_user_data"), "file-write-advances-only-on-progress", bad is None and n >= 2,
           ("%s() uses the result of write() in its bookkeeping at %s on a path that has not found it >= 0: after an interrupted write the "
            "data pointer moves backwards and the count grows - the file that is then renamed into place holds a byte twice" %
            (bad[0].srcname, bad[1].loc)) if bad else "%d uses of write()'s result, all behind the >= 0 test" % n)


RESOLVERS = ("realpath", "canonicalize_file_name")


def clause6_predicates_and_path(ctx, P, cg):
    """(a) the role predicates the gates rely on answer true only for a JSON true; (b) the name the update renames over is
    the resolved name of the file that was loaded"""
    TRUE = Q.macro(P, "auth_file.c", "cJSON_True")
    for fname, member in (("is_admin", "admin"), ("is_readonly", "readonly")):
        f = P.fn("auth_file.c:" + fname)
        bad = None
        ntrue = 0
        for v in Q.path_views(ctx, P, f):
            rc = v.ret_const()
            if rc == 0:
                continue

            def is_item(t):
                return Q.is_call_to(t, "cJSON_GetObjectItem") and t[2][1] == ("str", member)

            def says_true(a, p):
                if a[0] == "cmp" and a[3] == ("const", TRUE) and Q._poleq(a, p):
                    b = Q.is_field_load(a[2], "struct.cJSON", "type")
                    return b is not None and is_item(b)
                if a[0] == "truth" and Q.is_call_to(a[1], "cJSON_IsTrue") and is_item(a[1][2][0]) and p:
                    return True
                return False
            if rc is not None and rc != 0:
                ntrue += 1
                if not v.has_atom(says_true):
                    bad = v
            else:
                t = P.term(f, v.ret_operand()) if v.ret_operand() is not None else None
                while t is not None and t[0] == "cmp" and t[3] == ("const", 0) and t[1] == "ne":
                    t = t[2]
                if t is not None and Q.is_call_to(t, "cJSON_IsTrue") and is_item(t[2][0]):
                    ntrue += 1
                elif t is not None and t[0] == "cmp" and t[1] == "eq" and t[3] == ("const", TRUE) and \
                        Q.is_field_load(t[2], "struct.cJSON", "type") is not None and is_item(Q.is_field_load(t[2], "struct.cJSON", "type")):
                    ntrue += 1   # returns (item->type == cJSON_True) itself
                else:
                    bad = v
        ctx.ob("C20.1 R-RET", f, "true-only-for-json-true", bad is None and ntrue > 0,
               "%s() can answer true although the user's \"%s\" member is not the JSON value true (a present false, or any other "
               "type, would grant the role)" % (fname, member), witness=bad.witness() if bad else None)
    # (b)
    n = 0
    for f in P.own_functions():
        if f.base != "auth_file.c":
            continue
        for i in f.all_insts():
            if i.op == "store" and P.term(f, i.a[1]) == ("global", "password_file_name") and not P.is_null(i.a[0]):
                n += 1
                lv, _ = Q.leaves(P, f, i.a[0], through_loads=False)
                ok = bool(lv) and all(Q.is_call_to(l, RESOLVERS) for l in lv)
                ctx.ob("C20.2 R-PAIR", f, Q.ordinal_site(f, i, P) + ":live-path-is-resolved", ok,
                       "the name remembered for the credential file (later the target of rename() and the directory of the temporary "
                       "file) is not the resolved absolute path (%s): with a relative name and the daemon's chdir(\"/\"), or a "
                       "symlink, the update replaces a different file than the one that is loaded" % ", ".join(fmt_term(l) for l in lv))
    if n < 1:
        raise AnalysisBroken("no store to password_file_name found")


def clause8_account_lookups(ctx, P):
    """who a peer IS (credentials_ok) and which account an operation touches (change_password, is_admin, is_readonly) are
    resolved by the same function: every look-up of an account name in the user object uses one and the same getter - with two
    getters (exact / ignoring case) two names that differ only in case name one account for one step and another for the next"""
    LOOKUPS = ("cJSON_GetObjectItem", "cJSON_GetObjectItemCaseSensitive")
    by = {}
    for f in P.own_functions():
        if f.base != "auth_file.c":
            continue
        for c in f.all_insts():
            if c.op == "call" and c.callee and P.srcname_of(c.callee) in LOOKUPS and len(c.a) >= 2:
                kt = P.strip(f, P.term(f, c.a[1]))
                if kt[0] == "str":
                    continue   # a member of the record, not an account
                by.setdefault(P.srcname_of(c.callee), []).append((f, c))
    n = sum(len(x) for x in by.values())
    minority = min(by.values(), key=len)[0] if len(by) > 1 else None
    ctx.ob("C20.6 R-SIB", P.fn("auth_file.c:credentials_ok"), "account-lookups-use-one-getter", len(by) == 1 and n >= 3,
           ("%s() looks the account up with %s() at %s, the other %d look-up(s) use %s(): for account names that differ only in case "
            "the peer is authenticated as one account and its rights / its password change are resolved against another" %
            (minority[0].srcname, P.srcname_of(minority[1].callee), minority[1].loc, n - len(by[P.srcname_of(minority[1].callee)]),
             "/".join(k for k in by if k != P.srcname_of(minority[1].callee)))) if minority else "%d account look-ups, one getter" % n)


def clause7_salt_method(ctx, P):
    """the new hash uses the method of the stored one; a stored hash of a method that is not in the table is refused (falling
    back to the first table entry - DES, which looks at 8 characters only - would keep the old password valid)"""
    g = P.fn("auth_file.c:get_salt_from_passwd")
    bad = None
    n = 0
    for v in Q.path_views(ctx, P, g, loop_iters=1):
        dollar = v.has_atom(lambda a, p: a[0] == "cmp" and a[3] == ("const", 36) and a[2][0] == "load" and Q._poleq(a, p))
        matched = v.has_atom(lambda a, p: a[0] == "cmp" and Q.is_call_to(a[2], ("strncmp", "strcmp", "memcmp")) and a[3] == ("const", 0) and Q._poleq(a, p))
        if dollar and not matched:
            n += 1
            rc = v.ret_const()
            if rc is None or rc >= 0:
                bad = v
    ctx.ob("C20.4 R-GATE", g, "unknown-hash-method-is-refused", bad is None and n > 0,
           "get_salt_from_passwd() succeeds on a path where the stored hash names a method ('$...$') that matched no table entry: the new "
           "password is then hashed with another method than the old one", witness=bad.witness() if bad else None)


def clause12_crypt_failure_token(ctx, P):
    """crypt() of libxcrypt reports failure by a token that starts with '*' ("*0", "*1") - never a valid hash - as well as by NULL.
    What change_password() installs as the account's hash has passed both tests: the installing call is dominated by a NULL test of
    the crypt() result and by a test of its first character against '*'.  (A stored "*0" matches no password: the account is locked
    out and the file holds neither the old nor the new credential.)"""
    cp = P.fn("auth_file.c:change_password")
    cr = cp.calls("crypt")
    if not cr:
        raise AnalysisBroken("change_password: call of crypt() not found")
    c = cr[0]
    repl = [s_ for s_ in cp.calls(INSTALLERS)]
    if not repl:
        raise AnalysisBroken("change_password: password replacement site not found")

    def is_res(t):
        return t[0] == "call" and t[3] == c.id

    def not_null(atom, pol):
        return atom[0] == "cmp" and is_res(atom[2]) and atom[3] == ("null",) and not _polarity_eq(atom, pol)

    def not_star(atom, pol):
        if atom[0] != "cmp" or atom[3] != ("const", 42) or atom[2][0] != "load":
            return False
        a = atom[2][1]
        if a[0] in ("byteoff", "index") and len(a) > 2 and a[2] in (0, ("const", 0)):
            a = a[1]
        return is_res(a) and not _polarity_eq(atom, pol)
    for s_ in repl:
        okn = Q.must_pass(P, cp, s_.block, not_null)
        oks = Q.must_pass(P, cp, s_.block, not_star)
        ctx.ob("C20.4 R-GATE", cp, Q.ordinal_site(cp, s_, P) + ":hash-is-no-failure-token", okn and oks,
               "change_password() installs the result of crypt() without the test for %s: libxcrypt reports a failed hash (password "
               "longer than 512 bytes, method switched off) as \"*0\", which is then stored, written to the file and answered with "
               "success - neither the new nor the old password authenticates afterwards" %
               ("NULL and the failure token" if not okn and not oks else "NULL" if not okn else "the failure token (first character '*')"))


def clause13_formatted_print_accounts_for_what_it_writes(ctx, P):
    """the credential file is the only thing cjet prints formatted (cJSON_Print in write_user_data): print_object() reserves room,
    writes bytes through a local cursor and then advances the buffer offset by a length computed separately.  A byte that is written
    only under some condition is counted under the same condition: every test that guards such a store (beyond what guards the
    offset update itself) is one of the conditions the length expression selects on.  Otherwise the offset runs ahead of the bytes
    written, an unwritten byte (0) ends up inside the text, and the file that is renamed into place is cut there - unloadable"""
    f = P.fn("cJSON.c:print_object")
    ups = [i for i in f.all_insts() if i.op == "store" and P.term(f, i.a[1])[0] == "field" and P.term(f, i.a[1])[2] == "struct.printbuffer"
           and P.term(f, i.a[0])[0] == "op" and P.term(f, i.a[0])[1] == "add" and
           Q.mentions(P.term(f, i.a[0]), lambda x: x[0] == "select")]
    if len(ups) < 2:
        raise AnalysisBroken("print_object: offset updates with a selected length found: %d" % len(ups))
    offs = P.term(f, ups[0].a[1])[3]
    delim = [i for i in f.all_insts() if (i.op == "store" and P.term(f, i.a[1])[0] == "field" and P.term(f, i.a[1])[2] == "struct.printbuffer"
                                          and P.term(f, i.a[1])[3] == offs) or
             (i.op == "call" and i.callee and P.srcname_of(i.callee) in ("ensure", "update_offset"))]
    bad = None
    n = 0
    for u in ups:
        conds = set()
        for x in Q.subterms(P.term(f, u.a[0])):
            if x[0] == "select":
                conds.add(x[1])
        base = set(a for (a, p) in Q.guards_of(P, f, u.block))
        # byte stores between the reservation and this update: blocks that reach the update without passing another update
        for i in f.all_insts():
            if i.op != "store":
                continue
            d = P.term(f, i.a[1])
            if d[0] == "field":
                continue
            # the store belongs to this update: no other update / reservation lies between them
            if i.block == u.block:
                if i.id > u.id or any(x.block == u.block and i.id < x.id < u.id for x in delim):
                    continue
            else:
                if any(x.block == i.block and x.id > i.id for x in delim) or any(x.block == u.block and x.id < u.id for x in delim):
                    continue
                others = {x.block for x in delim} - {i.block, u.block}
                if u.block not in f.reachable(i.block, removed_blocks=others):
                    continue
            extra = [a for (a, p) in Q.guards_of(P, f, i.block) if a not in base]
            n += 1
            for a in extra:
                key = ("cmp",) + tuple(a[1:]) if a[0] == "cmp" else a
                if not any(c == a or (c[0] == "cmp" and a[0] == "truth" and c[2] == a[1]) or
                           (a[0] == "cmp" and c[0] == "cmp" and c[2] == a[2] and c[3] == a[3]) for c in conds) and bad is None:
                    bad = (i, a, u)
    ctx.ob("C20.3 R-PAIR", f, "conditional-bytes-are-counted-under-the-same-condition", bad is None and n >= 2,
           ("print_object() writes a byte at %s only under %s, but the offset update at %s counts it regardless: the formatted text gets "
            "an unwritten byte inside - the credential file written from it is cut there and cannot be loaded any more" %
            (bad[0].loc, fmt_atom(bad[1], True), bad[2].loc)) if bad else "%d conditional byte stores, each counted under its condition" % n)


def run(ctx):
    for cfg in ctx.configs(["default"] if ctx.tier == "quick" else None):
        P, cg = cfg.P, cfg.cg
        clause1_auth(ctx, P)
        clause6_predicates_and_path(ctx, P, cg)
        clause7_salt_method(ctx, P)
        clause8_account_lookups(ctx, P)
        clause9_mapped_file(ctx, P)
        clause10_commit_and_salt(ctx, P, cg)
        clause11_write_progress(ctx, P)
        clause12_crypt_failure_token(ctx, P)
        clause13_formatted_print_accounts_for_what_it_writes(ctx, P)
        clause2_atomic(ctx, P, cg)
        clause3_write(ctx, P, cg)
        clause4_effective(ctx, P, cg)
        clause5_hygiene(ctx, P)
