"""C11 — fault isolation: fan-out loops, accept errors, no third-party close on send failure."""
from ..frontend import AnalysisBroken
from ..core import queries as Q
from ..core.program import fmt_term, fmt_atom

META = {
    "explanation": (
        "(1) R-LOOP: every loop whose body transmits (through the resolved call graph) to a recipient that varies with the "
        "iteration (the recipient-determining argument of the sending callee derives from a loop-carried value) has no exit "
        "edge that is control-dependent on that call's result - a failing subscriber must not stop delivery to the others; "
        "(2) accept errors: in the accept loop the set of errno classes that reach EL_ABORT_LOOP excludes the per-connection / "
        "transient errors of accept(2); connection-level event callbacks never return EL_ABORT_LOOP; "
        "(3) the transmit path of both transports has no release effect (it cannot close or free the recipient or any peer), "
        "so a delivery failure is reported to the sender only."),
    "not_decided": "that other peers' content is unchanged relative to the fault-free history; liveness ('keeps serving')",
    "assumptions": ["accept(2) per-connection errors: ECONNABORTED, EINTR, EMFILE, ENFILE, ENOBUFS, ENOMEM, EPROTO, EPERM "
                    "(Linux man page: 'should be treated like EAGAIN' for the network errors)"],
}

TRANSIENT = ("ECONNABORTED", "EINTR", "EMFILE", "ENFILE", "ENOBUFS", "ENOMEM", "EPROTO", "EPERM")


def send_impls(P, cg):
    key = ("struct.peer", P.field_index("struct.peer", "send_message"))
    s = cg.field_funcs.get(key, set())
    if len(s) < 2:
        raise AnalysisBroken("peer.send_message implementations: %s" % sorted(s))
    return s


def recipient_params(P, cg):
    """for each own function: set of parameter indices that determine the recipient of a transmission it performs"""
    res = {}
    changed = True
    rounds = 0
    while changed:
        changed = False
        rounds += 1
        if rounds > 12:
            raise AnalysisBroken("recipient summary did not converge")
        for f in P.own_functions():
            cur = res.get(f.name, set())
            new = set(cur)
            for i in f.all_insts():
                if i.op != "call":
                    continue
                if not i.callee:
                    t = P.term(f, i.ind)
                    if t[0] == "load" and t[1][0] == "field" and t[1][2] == "struct.peer" and t[1][3] == "send_message":
                        lv, _ = Q.leaves(P, f, i.a[0])
                        for l in lv:
                            if l[0] == "param":
                                new.add(l[1])
                    continue
                g = P.functions.get(i.callee)
                if g is None or g.name not in res:
                    continue
                for k in res[g.name]:
                    if k < len(i.a):
                        lv, _ = Q.leaves(P, f, i.a[k])
                        for l in lv:
                            if l[0] == "param":
                                new.add(l[1])
                        new.add(-1) if not any(l[0] == "param" for l in lv) else None
            if new != cur or (f.name not in res and new):
                if new:
                    res[f.name] = new
                    changed = changed or new != cur
    return res


def clause1_fanout(ctx, P, cg):
    rp = recipient_params(P, cg)
    n = 0
    for f in P.own_functions():
        loops = f.loops()
        if not loops:
            continue
        for hdr, body in loops.items():
            for b in sorted(body):
                for i in f.blocks[b]:
                    if i.op != "call" or not i.callee or i.callee not in rp:
                        continue
                    g = P.functions[i.callee]
                    # does the recipient vary with the iteration?
                    varies = False
                    for k in rp[g.name]:
                        if k < 0 or k >= len(i.a):
                            continue
                        # backward closure restricted to the loop: reaches a phi of this loop's header?
                        st = [i.a[k]]
                        seen = set()
                        while st:
                            o = st.pop()
                            if not isinstance(o, int) or o < f.nparams or o in seen:
                                continue
                            seen.add(o)
                            ins = f.insts[o]
                            if ins.op == "phi" and ins.block == hdr:
                                varies = True
                                break
                            if ins.block not in body:
                                continue
                            if ins.op == "phi":
                                st.extend(v for v, _ in ins.inc)
                            elif ins.op == "call":
                                continue
                            else:
                                st.extend(x for x in ins.a if isinstance(x, int))
                    if not varies:
                        continue
                    n += 1
                    # exits control-dependent on the result of i
                    bad = None
                    for bb in body:
                        for (s, atom, pol) in P.edge_conds(f, bb):
                            if s in body or atom is None:
                                continue
                            if Q.mentions(atom, lambda x: x[0] == "call" and x[3] == i.id):
                                bad = (bb, s, atom, pol)
                    # an exit through a phi-resolved condition (short-circuit) - check per incoming edge too
                    if bad is None:
                        g2 = P.edge_graph(f)
                        for (pb, bb), outs in g2.items():
                            if bb not in body:
                                continue
                            for (sn, atom, pol) in outs:
                                if sn[1] not in body and atom is not None and \
                                        Q.mentions(atom, lambda x: x[0] == "call" and x[3] == i.id):
                                    bad = (bb, sn[1], atom, pol)
                    ctx.ob("C11.1 R-LOOP", f, "fanout:" + Q.ordinal_site(f, i, P), bad is None,
                           "the delivery loop is left as soon as one recipient's %s fails [exit on %s]: the remaining recipients "
                           "of this event silently miss it" % (g.srcname, fmt_atom(bad[2], bad[3])) if bad else
                           "loop continues past a failing recipient")
    nf = P.fn("fetch.c:notify_fetchers")
    okl = False
    for lh, body in nf.loops().items():
        t = nf.term_inst(lh)
        if t.op == "br" and t.a:
            c = P.cond(nf, t.a[0])
            if c[0] != "const" and c[0][0] == "cmp" and c[0][1] == "ult" and c[0][2][0] == "phi" and \
                    Q.is_field_load(c[0][3], "struct.element", "fetch_table_size") is not None:
                exits = [(b, s2) for b in body for s2 in nf.succs[b] if s2 not in body]
                okl = all(b == lh for b, s2 in exits) and 0 in [P.const_int(x) for x, _ in nf.insts[c[0][2][1]].inc]
    ctx.ob("C11.1 R-LOOP", nf, "walks-every-slot", okl,
           "notify_fetchers leaves its loop before slot fetch_table_size-1 (e.g. at the first empty slot - unfetch and disconnect "
           "leave holes): subscribers behind the exit silently miss the event")
    # ... and every occupied slot is notified: between the loop test and the notification nothing is tested but 'slot not empty'
    # (whose fetch it is - the element owner's own, a slow peer's - is no reason to pass it over: the replica of that subscriber
    # silently goes stale)
    extra = None
    nn = 0
    for c in nf.calls("notify_fetching_peer"):
        nn += 1
        for (atom, pol) in Q.guards_of(P, nf, c.block):
            t = atom[1] if atom[0] == "truth" else atom[2]
            slot = Q.mentions(t, lambda x: x[0] == "load" and Q.mentions(x[1], lambda y: y[0] == "field" and y[3] == "fetcher_table"))
            if atom[0] == "cmp" and atom[3] == ("null",) and slot and not Q.mentions(t, lambda x: x[0] == "field" and x[3] != "fetcher_table"):
                continue
            if atom[0] == "cmp" and atom[1] in ("ult", "ne") and Q.is_field_load(atom[3], "struct.element", "fetch_table_size") is not None:
                continue
            extra = extra or (atom, pol)
    ctx.ob("C11.1 R-LOOP", nf, "every-occupied-slot-is-notified", extra is None and nn >= 1,
           "notify_fetchers() passes an occupied slot over on the condition %s: that subscriber misses the event and its replica goes "
           "stale" % (fmt_atom(*extra) if extra else ""))
    if n < 3:
        raise AnalysisBroken("fan-out loops with varying recipient: found %d, expected >= 3" % n)
    ctx.floor("C11.1 R-LOOP", 3)


def clause2_accept(ctx, P, cg):
    ac = P.fn("linux_io.c:accept_common")
    ABORT = Q.enum(P, "EL_ABORT_LOOP")
    views = Q.path_views(ctx, P, ac)
    acc = ac.calls("accept")
    if len(acc) != 1:
        raise AnalysisBroken("accept_common: accept call not found")
    consts = {k: Q.macro(P, "linux_io.c", k) for k in TRANSIENT}

    def is_errno(t):
        return t[0] == "load" and Q.is_call_to(t[1], "__errno_location")
    def true_set(g):
        """constants K for which the (own, one-parameter) classifier g(K) returns non-zero"""
        ks = set()
        for gv in Q.path_views(ctx, P, g):
            eqs = set()
            for (a, p) in gv.atoms:
                if a[0] == "switch" and a[1][0] == "param" and a[1][1] == 0:
                    eqs.add(a[2])
                if a[0] == "cmp" and a[2][0] == "param" and a[2][1] == 0 and a[3][0] == "const" and Q._poleq(a, p):
                    eqs.add(a[3][1])
            rc = gv.ret_const()
            if rc is not None:
                if rc != 0:
                    ks |= eqs
                continue
            ro = gv.ret_operand()
            rt = P.cond(g, ro, gv.envs()[-1]) if ro is not None else None
            if rt and rt[0] != "const":
                a, p = rt
                if a[0] == "cmp" and a[2][0] == "param" and a[2][1] == 0 and a[3][0] == "const" and Q._poleq(a, p):
                    ks.add(a[3][1])
        return ks
    fatal = {}
    n_abort = 0
    for v in views:
        if v.ret_const() != ABORT:
            continue
        failed = v.has_atom(lambda a, p: a[0] == "cmp" and a[2][0] == "call" and a[2][3] == acc[0].id and a[3] == ("const", -1) and Q._poleq(a, p))
        if not failed:
            continue
        n_abort += 1
        excluded = set()
        for (a, p) in v.atoms:
            if a[0] == "cmp" and is_errno(a[2]) and a[3][0] == "const" and not Q._poleq(a, p):
                excluded.add(a[3][1])
            if a[0] == "switch_default" and is_errno(a[1]):
                excluded |= set(a[2])
            if a[0] == "truth" and a[1][0] == "call" and len(a[1][2]) == 1 and is_errno(a[1][2][0]) and not p:
                hs = P.by_src.get(a[1][1], [])
                if len(hs) == 1 and P.own(hs[0]):
                    excluded |= true_set(hs[0])
        for name, val in consts.items():
            if val not in excluded:
                fatal.setdefault(name, v)
    for name in TRANSIENT:
        v = fatal.get(name)
        ctx.ob("C11.2 R-TABLE", ac, "accept-errno:" + name, v is None,
               "accept() failing with %s (a per-connection / transient condition) reaches EL_ABORT_LOOP: one aborted connection "
               "attempt stops the whole daemon" % name if v else "%s is not fatal" % name, witness=v.witness() if v else None)
    # edge-triggered listener: after a per-connection error the loop must try the next pending connection, not return
    RETRY = ("ECONNABORTED", "EINTR", "EPROTO")
    stuck = {}
    for v in views:
        failed = v.has_atom(lambda a, p: a[0] == "cmp" and a[2][0] == "call" and a[2][3] == acc[0].id and a[3] == ("const", -1) and Q._poleq(a, p))
        if not failed:
            continue
        # the path ends (returns) right after this failed accept: which errno classes can be on it?
        last_acc = max(k for k, i in v.insts() if i.id == acc[0].id)
        again = any(k > last_acc and i.id == acc[0].id for k, i in v.insts())
        nacc = sum(1 for k, i in v.insts() if i.id == acc[0].id)
        if nacc > 1:
            continue  # judged on single-iteration paths
        excluded = set()
        included = None
        for (a, p) in v.atoms:
            if a[0] == "cmp" and is_errno(a[2]) and a[3][0] == "const":
                if Q._poleq(a, p):
                    included = {a[3][1]}
                else:
                    excluded.add(a[3][1])
            if a[0] == "switch" and is_errno(a[1]):
                included = {a[2]}
            if a[0] == "switch_default" and is_errno(a[1]):
                excluded |= set(a[2])
            if a[0] == "truth" and a[1][0] == "call" and len(a[1][2]) == 1 and is_errno(a[1][2][0]):
                hs = P.by_src.get(a[1][1], [])
                if len(hs) == 1 and P.own(hs[0]):
                    ts = true_set(hs[0])
                    if p:
                        included = ts if included is None else (included & ts)
                    else:
                        excluded |= ts
        for name in RETRY:
            val = Q.macro(P, "linux_io.c", name)
            possible = (included is None or val in included) and val not in excluded
            if possible:
                stuck.setdefault(name, v)
    for name in RETRY:
        v = stuck.get(name)
        ctx.ob("C11.2 R-LOOP", ac, "accept-retries:" + name, v is None,
               "after accept() failed with %s the accept loop returns instead of trying the next pending connection: with the "
               "edge-triggered listener the attempts queued behind the aborted one stay unserved until another connection arrives" % name
               if v else "%s: next pending connection is tried" % name, witness=v.witness() if v else None)
    # the dual: a shortage of resources (descriptors, memory) does not go away by asking again - every way back to accept()
    # after a failed accept() is closed for those errno values, or one client holding the descriptors open spins the loop for ever
    PERSIST = ("EMFILE", "ENFILE", "ENOBUFS", "ENOMEM")
    spin = {}
    nback = 0
    for v in views:
        occ = [k for k, blk in enumerate(v.blocks) if blk == acc[0].block]
        if len(occ) < 2:
            continue
        conds = [(a, p) for (_, a, p) in v.path[occ[0] + 1:occ[1] + 1] if a is not None]
        if not any(a[0] == "cmp" and a[2][0] == "call" and a[2][3] == acc[0].id and a[3] == ("const", -1) and Q._poleq(a, p) for (a, p) in conds):
            continue   # the way back after a successful accept
        nback += 1
        b = v.blocks[occ[1] - 1]
        excluded = set()
        included = None
        for (a, p) in conds:
            if a[0] == "cmp" and is_errno(a[2]) and a[3][0] == "const":
                if Q._poleq(a, p):
                    included = {a[3][1]}
                else:
                    excluded.add(a[3][1])
            if a[0] == "switch" and is_errno(a[1]):
                included = {a[2]}
            if a[0] == "switch_default" and is_errno(a[1]):
                excluded |= set(a[2])
            if a[0] == "truth" and a[1][0] == "call" and len(a[1][2]) == 1 and is_errno(a[1][2][0]):
                hs = P.by_src.get(a[1][1], [])
                if len(hs) == 1 and P.own(hs[0]):
                    ts = true_set(hs[0])
                    if p:
                        included = ts if included is None else (included & ts)
                    else:
                        excluded |= ts
        for name in PERSIST:
            val = Q.macro(P, "linux_io.c", name)
            if (included is None or val in included) and val not in excluded:
                spin.setdefault(name, b)
    for name in PERSIST:
        b = spin.get(name)
        ctx.ob("C11.2 R-LOOP", ac, "accept-does-not-spin:" + name, b is None and nback >= 1,
               "after accept() failed with %s the loop asks again at once (back edge from %s): the shortage persists as long as a "
               "client keeps its connections open, the daemon never returns to its event loop and no peer is served any more" %
               (name, ac.blocks[b][-1].loc if b is not None else "?") if b is not None else
               ("%s: no way back to accept()" % name if nback else "no retry edge after a failed accept found"))
    ctx.note("accept loop: %d abort path(s) after a failed accept" % n_abort)
    # connection-level callbacks never abort the loop
    for fld in ("read_function", "write_function", "error_function"):
        key = ("struct.io_event", P.field_index("struct.io_event", fld))
        for name in sorted(cg.field_funcs.get(key, ())):
            g = P.functions[name]
            if g.base not in ("buffered_socket.c", "timer_linux.c"):
                continue
            rets = [v.ret_const() for v in Q.path_views(ctx, P, g)]
            ctx.ob("C11.2 R-TABLE", g, "never-aborts", ABORT not in rets and None not in rets,
                   "a per-connection event callback can return EL_ABORT_LOOP (or a non-constant), ending the daemon's loop")
    ctx.floor("C11.2 R-TABLE", 10)


def clause3_no_release(ctx, P, cg):
    release = {"free_peer_resources", "close", "socket_close", "buffered_socket_close", "free_connection", "cjet_free"}
    err_key = ("struct.buffered_socket", P.field_index("struct.buffered_socket", "error"))
    for name in sorted(send_impls(P, cg)):
        g = P.functions[name]
        reach = {P.srcname_of(x) for x in cg.reach(name)}
        hit = sorted(reach & (release - {"cjet_free"}))
        errcb = sorted(P.srcname_of(x) for x in cg.field_funcs.get(err_key, ()) if x in cg.reach(name))
        ctx.ob("C11.3 R-EFFECT", g, "transmit-has-no-release", not hit and not errcb,
               "the transmit path of %s can reach %s: a failed delivery would close/free a connection from inside another "
               "peer's request" % (g.srcname, hit + errcb) if (hit or errcb) else "transmit path cannot release anything")
    # the verdict the reply handler hands back to the REPLYING peer's transport must not depend on what happened while
    # talking to the requester (a negative verdict closes the replying peer)
    h = P.fn("router.c:handle_routing_response")
    impl = send_impls(P, cg)
    bad = None
    for v in Q.path_views(ctx, P, h):
        o = v.ret_operand()
        if o is None or P.const_int(o) is not None:
            continue
        lv, _ = Q.leaves(P, h, o, through_loads=False)
        for l in lv:
            if l[0] == "call":
                g = [x for x in P.by_src.get(l[1], [])]
                if any(cg.reach(x.name) & impl for x in g):
                    bad = (v, l[1])
            if l[0] == "icall":
                bad = (v, "indirect call")
    ctx.ob("C11.3 R-EFFECT", h, "verdict-independent-of-requester", bad is None,
           "handle_routing_response returns the result of %s to the replying peer's transport: when the requester cannot be written "
           "to, the peer that merely answered is disconnected (and every other request in flight to it is lost)" % (bad[1] if bad else ""),
           witness=bad[0].witness() if bad else None)
    ctx.floor("C11.3 R-EFFECT", 3)


def run(ctx):
    for cfg in ctx.configs(["default"] if ctx.tier == "quick" else None):
        P, cg = cfg.P, cfg.cg
        clause1_fanout(ctx, P, cg)
        clause2_accept(ctx, P, cg)
        clause3_no_release(ctx, P, cg)
